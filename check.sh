#!/bin/sh
# usage: ./check.sh <PROPERTY-ID> [quick|thorough]
# exit 0 = property held on everything explored; 1 = violation (VIOLATION line printed);
# 2 = machinery problem (build failure, reference-model self-test failure, ...), never a verdict.
set -u
cd /verif || exit 2
ID=${1:?property id}
TIER=${2:-${VERIF_TIER:-quick}}
export VERIF_ROOT=/verif
sh tools/build.sh default || exit 2
case "$ID" in
  C19) sh tools/build.sh fast || exit 2 ;;
  C12) sh tools/build.sh loom || exit 2 ;;
esac
exec /verif/.build/default/release/vpcheck check "$ID" "$TIER"
