#!/bin/sh
# Run once after a fresh restore, offline: build everything from files on disk, validate the reference model.
set -u
cd /verif || exit 2
export CARGO_NET_OFFLINE=true
mkdir -p .build evidence
sh tools/build.sh all || exit 2
python3 tools/gen_refvectors.py > .build/refvectors.jsonl || { echo "MACHINERY-ERROR: python vector generation failed"; exit 2; }
/verif/.build/default/release/vpcheck selftest /verif/.build/refvectors.jsonl /repo || exit 2
echo "setup ok"
