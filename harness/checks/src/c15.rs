//! C15: every ephemeral secret, salt, challenge and seed is freshly random per use.
//! What is decided here: each documented call makes its own full-width draw from the RNG and
//! passes it through losslessly. E2/E3 over the RNG environment (scripted through the seam).
//! The statistical quality of rand::ThreadRng is trusted; a labelled sampling pass supplements.

use crate::common::*;
use mc::report::{Report, Tier, Violation};
use refmodel::srp;
use serde_json::json;
use wow_srp::client::{SrpClient, SrpClientChallenge};
use wow_srp::server::{SrpProof, SrpServer, SrpVerifier};
use wow_srp::verif_hooks::Draw;
use wow_srp::{PublicKey, GENERATOR, LARGE_SAFE_PRIME_LITTLE_ENDIAN};

/// A drawing site: `width` = documented width of the random value in bytes; the measured call
/// returns the public observation of the value.
struct Site {
    name: &'static str,
    width: usize,
    /// the public value is the random value itself (salts, challenges, seeds) rather than a function of it (private keys)
    direct: bool,
    call: Box<dyn Fn(&[u8]) -> Result<(Vec<u8>, usize, Vec<Draw>), String> + Sync>,
}

const SALT0: [u8; 32] = [0x3C; 32];

fn fixed_verifier() -> [u8; 32] {
    srp::verifier(b"ALICE", b"PASSWORD123", &SALT0, 7, &srp::n_builtin()).to_le_padded::<32>()
}

/// A proof object + an honest client, built under a setup script (not part of the measured draw).
fn setup_proof_and_client(tag: u64) -> (SrpProof, SrpClientChallenge) {
    let mut setup = refmodel::ctr_bytes(tag, "c15-setup", 64);
    setup[0] |= 1;
    let (r, _, _) = with_script(&setup, || {
        let ver = SrpVerifier::from_database_values(ns("alice"), fixed_verifier(), SALT0);
        let proof = ver.into_proof();
        let bk = PublicKey::from_le_bytes(*proof.server_public_key()).unwrap();
        let client = SrpClientChallenge::new(ns("alice"), ns("password123"), GENERATOR, LARGE_SAFE_PRIME_LITTLE_ENDIAN, bk, SALT0);
        (proof, client)
    });
    r.unwrap_or_else(|m| std::panic::panic_any(format!("setup: {m}")))
}
fn setup_logged_in(tag: u64) -> (SrpServer, SrpClient) {
    let (proof, client) = setup_proof_and_client(tag);
    let (r, _, _) = with_script(&refmodel::ctr_bytes(tag, "c15-setup2", 16), || {
        let ak = PublicKey::from_le_bytes(*client.client_public_key()).unwrap();
        let (server, m2) = proof.into_server(ak, *client.client_proof()).expect("honest login");
        let c = client.verify_server_proof(m2).expect("honest login");
        (server, c)
    });
    r.unwrap_or_else(|m| std::panic::panic_any(format!("setup: {m}")))
}

fn measured<R>(script: &[u8], f: impl FnOnce() -> R, obs: impl FnOnce(R) -> Vec<u8>) -> Result<(Vec<u8>, usize, Vec<Draw>), String> {
    let (r, used, log) = with_script(script, f);
    r.map(|x| (obs(x), used, log))
}

fn sites() -> Vec<Site> {
    vec![
        Site { name: "server private key b (into_proof), observed through B", width: 32, direct: false, call: Box::new(|s| {
            let ver = SrpVerifier::from_database_values(ns("alice"), fixed_verifier(), SALT0);
            measured(s, move || ver.into_proof(), |p| p.server_public_key().to_vec())
        }) },
        Site { name: "client private key a (SrpClientChallenge::new), observed through A", width: 32, direct: false, call: Box::new(|s| {
            let bk = PublicKey::from_le_bytes(le32_from_u64(1234567)).unwrap();
            measured(s, move || SrpClientChallenge::new(ns("alice"), ns("password123"), GENERATOR, LARGE_SAFE_PRIME_LITTLE_ENDIAN, bk, SALT0), |c| c.client_public_key().to_vec())
        }) },
        Site { name: "registration salt (from_username_and_password)", width: 32, direct: true, call: Box::new(|s| {
            measured(s, || SrpVerifier::from_username_and_password(ns("alice"), ns("password123")), |v| v.salt().to_vec())
        }) },
        Site { name: "server reconnect challenge at into_server", width: 16, direct: true, call: Box::new(|s| {
            let (proof, client) = setup_proof_and_client(1);
            let ak = PublicKey::from_le_bytes(*client.client_public_key()).unwrap();
            let m1 = *client.client_proof();
            measured(s, move || proof.into_server(ak, m1).expect("honest login").0, |srv| srv.reconnect_challenge_data().to_vec())
        }) },
        Site { name: "server challenge refresh after an ACCEPTED reconnect attempt", width: 16, direct: true, call: Box::new(|s| {
            let (mut server, client) = setup_logged_in(2);
            let ch = *server.reconnect_challenge_data();
            let (rv, _, _) = with_script(&[0x99; 16], || client.calculate_reconnect_values(ch));
            let rv = rv.map_err(|m| format!("setup: {m}"))?;
            measured(s, move || { let ok = server.verify_reconnection_attempt(rv.challenge_data, rv.proof); (server, ok) }, |(srv, ok)| {
                if !ok { mc::util::machinery_error("C15: honest reconnect was rejected in setup (see C05)"); }
                srv.reconnect_challenge_data().to_vec()
            })
        }) },
        Site { name: "server challenge refresh after a REJECTED reconnect attempt", width: 16, direct: true, call: Box::new(|s| {
            let (mut server, _client) = setup_logged_in(3);
            measured(s, move || { let ok = server.verify_reconnection_attempt([1; 16], [2; 20]); (server, ok) }, |(srv, _)| srv.reconnect_challenge_data().to_vec())
        }) },
        Site { name: "server challenge refresh after an attempt that ECHOES the challenge on offer", width: 16, direct: true, call: Box::new(|s| {
            let (mut server, _client) = setup_logged_in(5);
            let echo = *server.reconnect_challenge_data();
            measured(s, move || { let ok = server.verify_reconnection_attempt(echo, [2; 20]); (server, ok) }, |(srv, _)| srv.reconnect_challenge_data().to_vec())
        }) },
        Site { name: "client reconnect challenge (calculate_reconnect_values)", width: 16, direct: true, call: Box::new(|s| {
            let (_server, client) = setup_logged_in(4);
            measured(s, move || client.calculate_reconnect_values([7; 16]), |r| r.challenge_data.to_vec())
        }) },
        Site { name: "client reconnect challenge when the server's challenge is all zero", width: 16, direct: true, call: Box::new(|s| {
            let (_server, client) = setup_logged_in(6);
            measured(s, move || client.calculate_reconnect_values([0; 16]), |r| r.challenge_data.to_vec())
        }) },
        Site { name: "client reconnect challenge when the server's challenge is all ones", width: 16, direct: true, call: Box::new(|s| {
            let (_server, client) = setup_logged_in(7);
            measured(s, move || client.calculate_reconnect_values([0xFF; 16]), |r| r.challenge_data.to_vec())
        }) },
        Site { name: "vanilla world-login seed (ProofSeed::new)", width: 4, direct: true, call: Box::new(|s| measured(s, || wow_srp::vanilla_header::ProofSeed::new(), |p| p.seed().to_le_bytes().to_vec())) },
        Site { name: "tbc world-login seed (ProofSeed::new)", width: 4, direct: true, call: Box::new(|s| measured(s, || wow_srp::tbc_header::ProofSeed::new(), |p| p.seed().to_le_bytes().to_vec())) },
        Site { name: "wrath world-login seed (ProofSeed::new)", width: 4, direct: true, call: Box::new(|s| measured(s, || wow_srp::wrath_header::ProofSeed::new(), |p| p.seed().to_le_bytes().to_vec())) },
        Site { name: "vanilla world-login seed (ProofSeed::default)", width: 4, direct: true, call: Box::new(|s| measured(s, || <wow_srp::vanilla_header::ProofSeed as Default>::default(), |p| p.seed().to_le_bytes().to_vec())) },
        Site { name: "tbc world-login seed (ProofSeed::default)", width: 4, direct: true, call: Box::new(|s| measured(s, || <wow_srp::tbc_header::ProofSeed as Default>::default(), |p| p.seed().to_le_bytes().to_vec())) },
        Site { name: "wrath world-login seed (ProofSeed::default)", width: 4, direct: true, call: Box::new(|s| measured(s, || <wow_srp::wrath_header::ProofSeed as Default>::default(), |p| p.seed().to_le_bytes().to_vec())) },
        Site { name: "integrity salt (get_salt_value)", width: 16, direct: true, call: Box::new(|s| measured(s, wow_srp::integrity::get_salt_value, |v| v.to_vec())) },
        Site { name: "PIN salt (get_pin_salt)", width: 16, direct: true, call: Box::new(|s| measured(s, wow_srp::pin::get_pin_salt, |v| v.to_vec())) },
        Site { name: "PIN grid seed (get_pin_grid_seed)", width: 4, direct: true, call: Box::new(|s| measured(s, wow_srp::pin::get_pin_grid_seed, |v| v.to_le_bytes().to_vec())) },
        Site { name: "matrix-card seed (get_matrix_card_seed)", width: 8, direct: true, call: Box::new(|s| measured(s, wow_srp::matrix_card::get_matrix_card_seed, |v| v.to_le_bytes().to_vec())) },
    ]
}

/// Calls the site; a failure while SETTING UP the objects the site needs (e.g. the honest login that
/// precedes a reconnect) comes back as Err("setup: ...") and is not C15's business.
fn call_site(site: &Site, script: &[u8]) -> Result<(Vec<u8>, usize, Vec<Draw>), String> {
    match mc::util::catch(|| (site.call)(script)) {
        Ok(r) => r,
        Err(m) => Err(m),
    }
}

fn viol(report: &Report, site: &str, class: &str, replay: serde_json::Value, msg: String) {
    report.violation(Violation { signature: format!("C15|{}|{class}", site.split(' ').take(4).collect::<Vec<_>>().join("-")), scenario: "rng-environment".into(), replay: json!({"site": site, "case": replay}), detail: json!({ "message": msg }) });
}

fn counter_script(start: u8, n: usize) -> Vec<u8> {
    let mut v: Vec<u8> = (0..n).map(|i| start.wrapping_add(i as u8).wrapping_mul(3).wrapping_add(1)).collect();
    if n == 32 {
        // as a 256-bit integer the answer stays below 2^255 < N: an ordinary private key under any range policy
        v[31] &= 0x7F;
    }
    v
}

pub fn run(tier: Tier, seed: u64) -> i32 {
    let report = Report::new("C15", tier, seed, "model_checking");
    let ss = sites();
    let mut evals = 0u64;
    let mut uncontrolled: Vec<&str> = vec![];
    for (si, site) in ss.iter().enumerate() {
        let w = site.width;
        // ---- is the site under the harness's control at all? ----
        let probe1 = call_site(site, &counter_script(1, w));
        let probe2 = call_site(site, &counter_script(101, w));
        evals += 2;
        let (p1, p2) = match (probe1, probe2) {
            (Ok(a), Ok(b)) => (a, b),
            (Err(m), _) | (_, Err(m)) => {
                if m.starts_with("setup:") {
                    report.count("sites_skipped_because_their_setup_failed", 1);
                } else {
                    viol(&report, site.name, "panic", json!({"script": "counter"}), format!("the drawing call panicked: {m}"));
                }
                continue;
            }
        };
        let controlled = !p1.2.is_empty() && p1.1 > 0;
        if !controlled {
            // the site does not draw through the seam (e.g. another entropy source): not a violation by itself,
            // but freshness must then show in the values: repeated calls (identical setup) must not repeat
            uncontrolled.push(site.name);
            let p3 = call_site(site, &counter_script(55, w));
            evals += 1;
            let outs = [Some(p1.0.clone()), Some(p2.0.clone()), p3.ok().map(|x| x.0)];
            if outs[0] == outs[1] || outs[1] == outs[2] || outs[0] == outs[2] {
                viol(&report, site.name, "no-draw-and-value-repeats", json!({"values": outs.iter().map(|o| o.as_ref().map(|v| hex(v))).collect::<Vec<_>>()}),
                    "the call makes no RNG draw through the seam and produces the same value on repeated calls: the value is not freshly random per use".into());
            }
            continue;
        }
        // ---- (iii') one draw of at least the documented width per call ----
        let drawn: usize = p1.2.iter().map(|d| d.bytes.len()).sum();
        if drawn < w {
            viol(&report, site.name, "draw-narrower-than-value", json!({"drawn_bytes": drawn, "documented_width": w, "log": p1.2.iter().map(|d| format!("{}:{} {}B", d.file, d.line, d.bytes.len())).collect::<Vec<_>>()}), format!("the call drew {drawn} random bytes for a {w}-byte value"));
            continue;
        }
        if p1.0 == p2.0 {
            viol(&report, site.name, "value-independent-of-draw", json!({"output": hex(&p1.0)}), "two different RNG answers produced the same value".into());
            continue;
        }
        // ---- (i) histories: 1..4 calls on one or several objects, interleaved with another site, never repeat ----
        let other = &ss[(si + 7) % ss.len()];
        let mut seen: Vec<(Vec<u8>, String)> = vec![];
        let mut ok = true;
        for call in 0..4u8 {
            let script = counter_script(call.wrapping_mul(40).wrapping_add(7), w);
            match call_site(site, &script) {
                Ok((out, used, log)) => {
                    evals += 1;
                    if used == 0 || log.is_empty() {
                        viol(&report, site.name, "no-draw-on-later-call", json!({"call_index": call}), format!("call #{call} in a history made no RNG draw (value {})", hex(&out)));
                        ok = false;
                        break;
                    }
                    if let Some((_, prev)) = seen.iter().find(|(o, _)| *o == out) {
                        viol(&report, site.name, "value-repeats-across-calls", json!({"call_index": call, "same_as": prev, "value": hex(&out)}), format!("call #{call} produced the same value as {prev} although the RNG supplied different bytes"));
                        ok = false;
                        break;
                    }
                    seen.push((out, format!("call #{call}")));
                }
                Err(m) => {
                    viol(&report, site.name, "panic", json!({"call_index": call}), m);
                    ok = false;
                    break;
                }
            }
            // an unrelated site in between must not disturb anything
            let _ = call_site(other, &counter_script(200, other.width));
            evals += 1;
        }
        if !ok {
            continue;
        }
        // ---- (ii) every draw byte matters, every output byte varies ----
        // the base answer is all-zero; a site that refuses that answer and draws again (its value then comes from later
        // bytes) is measured around an ordinary base answer instead, and single answers it refuses are left out
        let mut zero = vec![0u8; w];
        if let Ok((_, u0, _)) = call_site(site, &zero) {
            if u0 != p1.1 {
                zero = counter_script(5, w);
                report.count("sites_that_draw_again_after_an_all_zero_answer", 1);
            }
        }
        let mut base_used = 0usize;
        let base = match call_site(site, &zero) {
            Ok(x) => {
                base_used = x.1;
                x.0
            }
            Err(m) => {
                // all-zero private keys are a legitimate draw; a crash here is C01/C19 business for a/b, but a crash elsewhere is a finding
                if !site.direct {
                    report.count("private_key_zero_script_crashes", 1);
                    Vec::new()
                } else {
                    viol(&report, site.name, "panic", json!({"script": "all-zero"}), m);
                    continue;
                }
            }
        };
        evals += 1;
        let mut outputs: Vec<(Vec<u8>, String)> = vec![(base.clone(), "all-zero".into())];
        let mut varies = vec![false; p1.0.len()];
        let mut dead_draw_bytes: Vec<usize> = vec![];
        for j in 0..w {
            for v in [0x01u8, 0x80, 0xFF] {
                let mut sc = zero.clone();
                sc[j] ^= v;
                match call_site(site, &sc) {
                    Ok((out, used_j, _)) => {
                        evals += 1;
                        if used_j != p1.1 {
                            continue; // this answer made the site draw again: nothing to learn about byte j from it
                        }
                        if !base.is_empty() {
                            if out == base && !dead_draw_bytes.contains(&j) {
                                dead_draw_bytes.push(j);
                            }
                            for (k, b) in out.iter().enumerate() {
                                if base.get(k) != Some(b) {
                                    varies[k] = true;
                                }
                            }
                        }
                        if let Some((_, prev)) = outputs.iter().find(|(o, _)| *o == out) {
                            if prev != "all-zero" || !dead_draw_bytes.contains(&j) {
                                viol(&report, site.name, "draw-bytes-collapse", json!({"script": hex(&sc), "same_as": prev}), format!("RNG answers that differ only in byte {j} produce the same value {}", hex(&out)));
                            }
                        }
                        outputs.push((out, format!("one-hot byte {j} = {v:#04x}")));
                    }
                    Err(m) => {
                        viol(&report, site.name, "panic", json!({"script": hex(&sc)}), m);
                    }
                }
            }
        }
        if !dead_draw_bytes.is_empty() {
            viol(&report, site.name, "draw-byte-ignored", json!({"draw_byte_positions": dead_draw_bytes}), format!("changing draw byte(s) {dead_draw_bytes:?} does not change the value: fewer than {w} random bytes reach it"));
        }
        if site.direct {
            let constant: Vec<usize> = varies.iter().enumerate().filter(|(_, v)| !**v).map(|(k, _)| k).collect();
            if !constant.is_empty() && !base.is_empty() {
                viol(&report, site.name, "constant-output-bytes", json!({"constant_positions": constant}), format!("output byte position(s) {constant:?} never vary over all one-hot RNG answers"));
            }
            // observation: is the value literally the drawn bytes?
            if p1.0 == counter_script(1, w) {
                report.count("sites_where_value_equals_drawn_bytes", 1);
            }
        }
        // injectivity over many RNG answers: a value that is a lossy function of its draw (masked, reduced,
        // truncated, folded) repeats although the draws differ
        {
            let n_scripts: u32 = if si >= 3 && si <= 6 { tier.pick(256, 2048) } else { tier.pick(2048, 16384) };
            let mut seen: std::collections::HashMap<Vec<u8>, Vec<u8>> = Default::default();
            let mut scripts: Vec<Vec<u8>> = (0..n_scripts).map(|i| refmodel::ctr_bytes(seed, &format!("c15-inj-{si}-{i}"), w)).collect();
            if w == 4 {
                // all values of each 16-bit half with the other half fixed
                for v in 0..=0xFFFFu32 {
                    if tier == Tier::Thorough || v % 16 == 5 {
                        scripts.push((v | 0xA5C3_0000).to_le_bytes().to_vec());
                        scripts.push(((v << 16) | 0x0000_3CA5).to_le_bytes().to_vec());
                    }
                }
            }
            // the degenerate answers and the VALUE the all-zero answer produced, fed back as an answer: a site that keeps an
            // older value when the draw "looks weak" maps both the weak draw and the older value itself to that older value
            if !site.direct && w == 32 {
                // private keys: 256 more answers below 2^248 (no policy has a reason to refuse those)
                for i in 0..256u32 {
                    let mut k = refmodel::ctr_bytes(seed, &format!("c15-low-{si}-{i}"), 32);
                    k[31] = 0;
                    scripts.push(k);
                }
            }
            scripts.push(vec![0u8; w]);
            scripts.push(vec![0xFFu8; w]);
            if base.len() == w {
                scripts.push(base.clone());
            }
            scripts.sort();
            scripts.dedup();
            let mut redrawn_random = 0u64;
            let n_all = scripts.len();
            for sc in &scripts {
                match call_site(site, sc) {
                    Ok((out, used, _)) => {
                        evals += 1;
                        if used != p1.1 {
                            // the site drew again for this answer (e.g. it refuses a degenerate draw and draws anew): its value comes
                            // from later bytes, which all scripts share, so it says nothing about injectivity
                            report.count("answers_after_which_the_site_drew_again", 1);
                            let degenerate = sc.iter().all(|b| *b == sc[0]) || *sc == base;
                            // private keys (seen through B / A): a range policy may refuse large values, but an ordinary value
                            // below 2^248 is acceptable to every policy (nonzero, > 1, < N, < N-1, < 2^255)
                            let ordinary_key = !site.direct && sc.len() == 32 && sc[31] == 0 && sc[8..31].iter().any(|b| *b != 0);
                            if ((site.direct && sc.len() >= 4) || ordinary_key) && !degenerate {
                                redrawn_random += 1;
                            }
                            continue;
                        }
                        if let Some(prev) = seen.get(&out) {
                            if prev != sc {
                                viol(&report, site.name, "different-draws-same-value", json!({"draw_1": hex(prev), "draw_2": hex(sc), "value": hex(&out)}), format!("two different {w}-byte RNG answers give the same value {}: the value carries less than its draw", hex(&out)));
                                break;
                            }
                        }
                        seen.insert(out, sc.clone());
                    }
                    Err(m) => {
                        if site.direct && !m.starts_with("setup:") {
                            viol(&report, site.name, "panic", json!({"script": hex(sc)}), m);
                        }
                        break;
                    }
                }
            }
            // a site whose value is the drawn bytes may refuse a handful of special answers (all zero, ...), not a
            // measurable share of ordinary ones: then some values (a byte value, a range) can never come out
            if redrawn_random > 0 {
                viol(&report, site.name, "ordinary-answers-refused", json!({"refused": redrawn_random, "of": n_all}), format!("{redrawn_random} of {n_all} ordinary (counter-mode) RNG answers made the site draw again: part of the value space is never produced"));
            }
        }
        match call_site(site, &vec![0xFFu8; w]) {
            Err(m) => {
                if site.direct {
                    viol(&report, site.name, "panic", json!({"script": "all-0xFF"}), m);
                }
            }
            Ok((ff, ff_used, _)) => {
                // degenerate RNG answers are still answers: all-zero, all-ones and a counter pattern must give
                // three different values (a "keep the old value if the draw looks weak" shortcut shows here); a site
                // that draws AGAIN after a degenerate answer takes its value from later bytes and is not judged here
                if !base.is_empty() && base_used == p1.1 && ff_used == p1.1 && (ff == base || ff == p1.0 || base == p1.0) {
                    viol(&report, site.name, "degenerate-draw-not-used", json!({"all_zero": hex(&base), "all_ones": hex(&ff), "counter": hex(&p1.0)}), "the values produced for an all-zero, an all-ones and a counter RNG answer are not pairwise different".into());
                }
            }
        }
        evals += 1;
        // sites that REPLACE an earlier value (challenge refresh): an all-zero / all-ones answer must still replace it
        if site.name.contains("refresh after") {
            for sc in [vec![0u8; w], vec![0xFFu8; w]] {
                if let (Ok((v1, u1, _)), Ok((v2, _, _))) = (call_site(site, &sc), call_site(site, &counter_script(9, w))) {
                    evals += 2;
                    if u1 != p1.1 {
                        continue;
                    }
                    // same setup both times, so the value BEFORE the refresh is the same; two different answers must give two different values
                    if v1 == v2 {
                        viol(&report, site.name, "degenerate-draw-not-used", json!({"script": hex(&sc), "value": hex(&v1)}), "the refreshed challenge is the same for a degenerate and for a counter RNG answer".into());
                    }
                }
            }
        }
        report.count("sites_checked_under_script", 1);
    }

    // ---- one history through ALL sites with pairwise different RNG answers: no two values may coincide
    //      (a value copied from another site's buffer, or two values cut from one draw, shows up here) ----
    {
        let mut seen: Vec<(Vec<u8>, &str)> = vec![];
        for round in 0..2u8 {
            for (i, site) in ss.iter().enumerate() {
                let script: Vec<u8> = refmodel::ctr_bytes(seed, &format!("c15-all-sites-{round}-{i}"), site.width);
                if let Ok((out, used, _)) = call_site(site, &script) {
                    evals += 1;
                    if used == 0 || out.len() < 8 {
                        continue; // 32-bit values may legitimately collide with parts of others; uncontrolled sites are judged above
                    }
                    if let Some((_, other)) = seen.iter().find(|(o, _)| *o == out || (o.len() > out.len() && o.windows(out.len()).any(|w| w == &out[..])) || (out.len() > o.len() && out.windows(o.len()).any(|w| w == &o[..]))) {
                        viol(&report, site.name, "value-shared-with-another-site", json!({"other_site": other, "value": hex(&out)}), format!("the value equals (or is contained in) the value produced by '{other}' although the RNG answered differently for the two calls"));
                    }
                    seen.push((out, site.name));
                }
            }
        }
    }

    // ---- matrix card digits (rejection sampling: scripted prefix then deterministic tail) ----
    let mut card_cases = 0u64;
    let shapes = [(4u8, 5u8, 2u8), (1, 1, 1), (8, 10, 2), (15, 17, 1), (10, 10, 3), (13, 17, 5), (16, 15, 8), (3, 85, 255)];
    for &(w, h, d) in &shapes {
        let cells = w as usize * h as usize * d as usize;
        let mut cell_values: Vec<std::collections::BTreeSet<u8>> = vec![Default::default(); cells];
        let mut scripts: Vec<Vec<u8>> = vec![vec![], vec![0u8; 64], vec![0xFF; 64], counter_script(1, 255), counter_script(77, 255)];
        for i in 0..tier.pick(24, 200) {
            scripts.push(refmodel::ctr_bytes(seed, &format!("card-script-{i}"), 4 * cells + 16));
        }
        let mut prev: Vec<Vec<u8>> = vec![];
        for sc in &scripts {
            let (r, used, _log) = with_script(sc, || wow_srp::matrix_card::MatrixCard::new(d, h, w));
            card_cases += 1;
            match r {
                Ok(card) => {
                    if card.data().len() != cells {
                        viol(&report, "matrix card digits", "card-size", json!({"w": w, "h": h, "d": d}), format!("{} digits for a {w}x{h}x{d} card", card.data().len()));
                    }
                    if let Some(bad) = card.data().iter().find(|x| **x > 9) {
                        viol(&report, "matrix card digits", "digit-out-of-range", json!({"w": w, "h": h, "d": d, "script": hex(&sc[..sc.len().min(32)])}), format!("card digit {bad} is outside 0..=9"));
                    }
                    if used == 0 {
                        uncontrolled.push("matrix card digits");
                    } else if (used as f64) * 8.0 < (cells as f64) * 3.3219 {
                        // a card of `cells` decimal digits carries cells*log2(10) bits; it cannot be fresh in every digit
                        // if fewer random bits than that were drawn for it
                        viol(&report, "matrix card digits", "draw-narrower-than-value", json!({"w": w, "h": h, "d": d, "random_bytes_drawn": used, "digits": cells}), format!("only {used} random bytes were drawn for a card of {cells} decimal digits ({:.0} bits needed)", cells as f64 * 3.3219));
                    }
                    for (i, x) in card.data().iter().enumerate() {
                        cell_values[i].insert(*x);
                    }
                    prev.push(card.data().to_vec());
                }
                Err(m) => viol(&report, "matrix card digits", "panic", json!({"w": w, "h": h, "d": d}), m),
            }
        }
        // no digit position is a copy of ANOTHER position under every script (block-wise generation that re-uses a block)
        // over all positions and scripts of a card with at least 400 generated digits, each of the ten digit values occurs
        // (a legitimate generator misses one with probability 10 * 0.9^400 < 1e-17; a generator whose range lost its top or
        // bottom value - digits 0..=8, 1..=9 - never produces it)
        {
            let mut hist = [0u64; 256];
            for c in &prev {
                for d in c {
                    hist[*d as usize] += 1;
                }
            }
            let total: u64 = hist.iter().sum();
            let missing: Vec<usize> = (0..10).filter(|v| hist[*v] == 0).collect();
            if total >= 400 && !missing.is_empty() {
                viol(&report, "matrix card digits", "digit-value-never-generated", json!({"w": w, "h": h, "d": d, "digits_generated": total, "never_seen": missing}), format!("over {total} generated card digits the value(s) {missing:?} never occur"));
            }
        }
        if cells >= 2 && prev.len() >= 8 {
            // signature of a position = its digits over all scripts; equal signatures = one is a copy of the other
            let mut sigs: std::collections::HashMap<Vec<u8>, usize> = Default::default();
            let mut dup: Vec<(usize, usize)> = vec![];
            for i in 0..cells {
                let sig: Vec<u8> = prev.iter().filter(|c| c.len() == cells).map(|c| c[i]).collect();
                if let Some(&j) = sigs.get(&sig) {
                    dup.push((j, i));
                } else {
                    sigs.insert(sig, i);
                }
            }
            // with >= 29 scripts the chance that two independent positions agree everywhere is 10^-29 per pair
            if !dup.is_empty() && prev.len() >= 24 {
                viol(&report, "matrix card digits", "position-copies-another-position", json!({"w": w, "h": h, "d": d, "pairs": &dup[..dup.len().min(8)], "positions_affected": dup.len()}), format!("{} digit position(s) carry exactly the digits of an earlier position under every one of {} RNG scripts (e.g. positions {:?})", dup.len(), prev.len(), dup[0]));
            }
        }
        // no digit position is a copy of its neighbour under every script
        if cells >= 2 {
            let copies: Vec<usize> = (1..cells).filter(|&i| prev.iter().all(|c| c.len() == cells && c[i] == c[i - 1])).collect();
            if !copies.is_empty() && prev.len() >= 8 {
                viol(&report, "matrix card digits", "cell-copies-neighbour", json!({"w": w, "h": h, "d": d, "positions": &copies[..copies.len().min(10)]}), format!("{} digit position(s) always equal their left neighbour", copies.len()));
            }
        }
        let stuck: Vec<usize> = cell_values.iter().enumerate().filter(|(_, s)| s.len() < 2).map(|(i, _)| i).collect();
        if !stuck.is_empty() && cells > 0 {
            viol(&report, "matrix card digits", "cell-never-varies", json!({"w": w, "h": h, "d": d, "cells": &stuck[..stuck.len().min(10)]}), format!("{} card cell(s) have the same digit under every RNG script", stuck.len()));
        }
    }
    report.count("matrix_card_cases", card_cases);
    evals += card_cases;

    // ---- supplementary, LABELLED SAMPLING (not deciding): free-running pass with the real ThreadRng on two OS threads ----
    let free = |f: &(dyn Fn() -> Vec<u8> + Sync)| -> Vec<Vec<u8>> {
        let a = std::thread::scope(|s| {
            let h1 = s.spawn(|| (0..32).map(|_| f()).collect::<Vec<_>>());
            let h2 = s.spawn(|| (0..32).map(|_| f()).collect::<Vec<_>>());
            let mut v = h1.join().unwrap();
            v.extend(h2.join().unwrap());
            v
        });
        a
    };
    let free_sites: Vec<(&str, Box<dyn Fn() -> Vec<u8> + Sync>)> = vec![
        ("registration salt", Box::new(|| SrpVerifier::from_username_and_password(ns("a"), ns("a")).salt().to_vec())),
        ("server public key B", Box::new(|| SrpVerifier::from_database_values(ns("alice"), fixed_verifier(), SALT0).into_proof().server_public_key().to_vec())),
        ("vanilla seed", Box::new(|| wow_srp::vanilla_header::ProofSeed::new().seed().to_le_bytes().to_vec())),
        ("tbc seed", Box::new(|| wow_srp::tbc_header::ProofSeed::new().seed().to_le_bytes().to_vec())),
        ("wrath seed", Box::new(|| wow_srp::wrath_header::ProofSeed::new().seed().to_le_bytes().to_vec())),
        ("integrity salt", Box::new(|| wow_srp::integrity::get_salt_value().to_vec())),
        ("pin salt", Box::new(|| wow_srp::pin::get_pin_salt().to_vec())),
        ("pin grid seed", Box::new(|| wow_srp::pin::get_pin_grid_seed().to_le_bytes().to_vec())),
        ("matrix seed", Box::new(|| wow_srp::matrix_card::get_matrix_card_seed().to_le_bytes().to_vec())),
    ];
    let mut sampling = vec![];
    for (name, f) in &free_sites {
        let vals = free(f.as_ref());
        evals += vals.len() as u64;
        let width = vals[0].len();
        let mut constant_pos = vec![];
        for k in 0..width {
            if vals.iter().all(|v| v[k] == vals[0][k]) {
                constant_pos.push(k);
            }
        }
        let distinct = vals.iter().collect::<std::collections::BTreeSet<_>>().len();
        // thresholds: a byte position constant over 64 draws has probability 256^-63; a collision among 64 values of >= 8 bytes < 2^-52
        if !constant_pos.is_empty() {
            viol(&report, name, "free-running-constant-byte", json!({"positions": constant_pos, "draws": vals.len()}), format!("byte position(s) {constant_pos:?} identical over {} free-running draws on two threads", vals.len()));
        }
        if width >= 8 && distinct != vals.len() {
            viol(&report, name, "free-running-repeat", json!({"distinct": distinct, "draws": vals.len()}), format!("only {distinct} distinct values among {} free-running draws", vals.len()));
        }
        sampling.push(json!({"site": name, "draws": vals.len(), "distinct": distinct, "threads": 2}));
    }
    report.set("supplementary_sampling_pass_NOT_DECIDING", json!(sampling));
    uncontrolled.sort();
    uncontrolled.dedup();
    report.set("sites_not_drawing_through_the_seam", json!(uncontrolled));
    if report.get("sites_checked_under_script") == 0 {
        mc::util::machinery_error("C15: no site draws through the RNG seam - the harness owns no nondeterminism");
    }
    report.set("evaluations", json!(evals));
    report.set("distinct_nontrivial", json!(evals.saturating_sub(ss.len() as u64 * 2)));
    report.set("rule", json!("per drawing site: RNG answers from {counter scripts, all-zero, all-0xFF, one-hot (every draw byte position x {01,80,FF})}; call histories of 4 calls interleaved with an unrelated site; oracle: later calls draw again, values never repeat when the RNG supplied different bytes, every draw byte changes the value, every output byte varies, the draw is at least as wide as the value; distinct_nontrivial = executions under a non-default RNG answer"));
    report.set("states", json!(evals));
    report.set("transitions", json!(evals));
    report.set("traces_validated_against_impl", json!(evals));
    report.sample("rng-answer", json!({"site": "server challenge refresh after a REJECTED reconnect attempt", "script": "one-hot: 16 zero bytes except byte 9 = 0x80", "expected": "reconnect_challenge_data() differs from the all-zero answer's value and byte 9 varies"}));
    report.space("14 scripted drawing sites + matrix card digits; every draw-byte position of every site");
    report.assume("the statistical quality of rand::ThreadRng is trusted (out of this family); the free-running two-thread pass is sampling and only supplements");
    report.set("exhaustive", json!(false));
    report.cap_hit("RNG answers come from a finite alphabet per site; the statistical quality of the RNG is not decided");
    report.finish()
}
