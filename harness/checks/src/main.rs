//! vpcheck: bounded exhaustive checks of the wow_srp properties. See /verif/DESIGN.md.

mod bench;
mod c02;
mod c03_extra;
mod c04;
mod c05;
mod c06;
mod c07_c08;
mod c09;
mod c10;
mod c11;
mod c12;
mod c13;
mod c14;
mod c15;
mod c16;
mod c17;
mod c18;
mod c19;
mod ciphers;
mod common;
mod logins;
mod selftest;
mod wsearch;

use mc::report::Tier;
use std::path::PathBuf;

fn usage() -> ! {
    eprintln!("usage: vpcheck selftest <python-vectors.jsonl> <repo> | check <ID> [quick|thorough] | replay <file>");
    std::process::exit(2);
}

fn main() {
    let args: Vec<String> = std::env::args().collect();
    if args.len() < 2 {
        usage();
    }
    mc::util::install_quiet_panic_hook();
    match args[1].as_str() {
        "replay" => {
            if args.len() < 3 {
                usage();
            }
            std::process::exit(replay_file(&args[2]));
        }
        "bench" => bench::run(),
        "transcript" => {
            if args.len() < 4 {
                usage();
            }
            let tier = if args[2] == "thorough" { Tier::Thorough } else { Tier::Quick };
            let seed: u64 = std::env::var("VERIF_SEED").ok().and_then(|s| s.parse().ok()).unwrap_or(0);
            c19::write_transcript(tier, seed, &args[3]);
        }
        "witness-search" => c03_extra::witness_search(0),
        "witness-search-limb" => wsearch::run(),
        "selftest" => {
            if args.len() < 4 {
                usage();
            }
            match selftest::run(&PathBuf::from(&args[2]), &PathBuf::from(&args[3])) {
                Ok(msg) => println!("{msg}"),
                Err(e) => mc::util::machinery_error(&format!("reference model self-test failed: {e}")),
            }
        }
        "check" => {
            if args.len() < 3 {
                usage();
            }
            let tier = match args.get(3).map(|s| s.as_str()).or(std::env::var("VERIF_TIER").ok().as_deref()) {
                Some("thorough") => Tier::Thorough,
                _ => Tier::Quick,
            };
            let seed: u64 = std::env::var("VERIF_SEED").ok().and_then(|s| s.parse().ok()).unwrap_or(0);
            let id = args[2].clone();
            let code = match mc::util::catch(move || run_check(&id, tier, seed)) {
                Ok(c) => c,
                Err(m) => match mc::util::library_panic_location(&m) {
                    // a panic raised inside the library that no pass of the check expected or caught: no property
                    // allows a crash on the calls the checks make, so this is a verdict, not a harness problem
                    Some(loc) => {
                        let report = mc::report::Report::resume_aborted(&args[2], tier, seed, "model_checking", &format!("aborted by a library panic at {loc} that no pass caught"));
                        report.violation(mc::report::Violation {
                            signature: format!("{}|uncaught-library-panic|{}", args[2], loc),
                            scenario: "uncaught-library-panic".into(),
                            replay: serde_json::json!({"rerun": format!("./check.sh {} {}", args[2], tier.name()), "panic_location": loc}),
                            detail: serde_json::json!({"message": m, "location": loc, "note": "the library panicked in a pass that does not expect panics; the run stopped there; the coverage counters are those reached before the abort"}),
                        });
                        report.finish()
                    }
                    None => mc::util::machinery_error(&format!("the harness itself panicked while checking {}: {m}", args[2])),
                },
            };
            std::process::exit(code);
        }
        _ => usage(),
    }
}

fn run_check(id: &str, tier: Tier, seed: u64) -> i32 {
    match id {
                "C01" => logins::run(logins::Oracle::C01, tier, seed),
                "C02" => c02::run(tier, seed),
                "C03" => logins::run(logins::Oracle::C03, tier, seed),
                "C04" => c04::run(tier, seed),
                "C05" => c05::run(tier, seed),
                "C06" => c06::run(tier, seed),
                "C07" => c07_c08::run::<c07_c08::Vanilla>(tier, seed),
                "C08" => c07_c08::run::<c07_c08::Tbc>(tier, seed),
                "C09" => c09::run(tier, seed),
                "C10" => c10::run(tier, seed),
                "C11" => c11::run(tier, seed),
                "C12" => c12::run(tier, seed),
                "C13" => c13::run(tier, seed),
                "C14" => c14::run(tier, seed),
                "C15" => c15::run(tier, seed),
                "C16" => c16::run(tier, seed),
                "C17" => c17::run(tier, seed),
                "C19" => c19::run(tier, seed),
                "C18" => c18::run(tier, seed),
        other => {
            eprintln!("unknown property {other}");
            2
        }
    }
}

/// Per-case replay without the explorer, for the scenario kinds that have one. Runs the case twice
/// and insists on identical observations. Exit 1 = violation reproduced (both times), 0 = the case
/// no longer violates, 3 = this scenario kind has no per-case replayer (use replay.sh's coarse mode),
/// 2 = the two runs differ (nondeterminism).
fn replay_file(path: &str) -> i32 {
    let text = std::fs::read_to_string(path).unwrap_or_else(|e| mc::util::machinery_error(&format!("{path}: {e}")));
    let v: serde_json::Value = serde_json::from_str(&text).unwrap_or_else(|e| mc::util::machinery_error(&format!("{path}: {e}")));
    let pid = v["property"].as_str().unwrap_or("").to_string();
    let scenario = v["scenario"].as_str().unwrap_or("").to_string();
    let r = v["replay"].clone();
    let once = || -> Option<Vec<String>> {
        let report = mc::report::Report::new(&pid, Tier::Quick, 0, "model_checking");
        let direct: Option<Result<String, String>> = match (pid.as_str(), scenario.as_str()) {
            ("C04", "PublicKey::from_le_bytes") => {
                c04::check_key(&report, &mc::util::unhex_n::<32>(r["key_le"].as_str()?), "replay");
                None
            }
            ("C13", _) => {
                let s = match r["repeat_char"].as_str() {
                    Some(c) => c.repeat(r["times"].as_u64()? as usize),
                    None => String::from_utf8(mc::util::unhex(r["input_utf8_hex"].as_str()?)).ok()?,
                };
                c13::check_full(&report, &s);
                None
            }
            ("C16", "pin-verify") if r["presented"].is_string() => {
                c16::check_verify(&report, r["pin"].as_u64()? as u32, r["grid_seed"].as_u64()? as u32, &mc::util::unhex_n::<16>(r["server_salt"].as_str()?), &mc::util::unhex_n::<16>(r["client_salt"].as_str()?), &mc::util::unhex_n::<20>(r["presented"].as_str()?));
                None
            }
            ("C16", _) if r["pin"].is_u64() => {
                c16::check_hash(&report, r["pin"].as_u64()? as u32, r["grid_seed"].as_u64()? as u32, &mc::util::unhex_n::<16>(r["server_salt"].as_str()?), &mc::util::unhex_n::<16>(r["client_salt"].as_str()?));
                None
            }
            ("C01", "login-exchange") => {
                logins::replay(logins::Oracle::C01, &report, &r);
                None
            }
            ("C03", "login-exchange") => {
                logins::replay(logins::Oracle::C03, &report, &r);
                None
            }
            ("C02", "confusable-credentials") => Some(c02::replay_confusable(&r)?),
            ("C02", _) if r["choices"].is_array() || r["altered"].is_string() => Some(c02::replay(&r)),
            ("C06", sc) => {
                if !c06::replay(&report, sc, &r) {
                    return None;
                }
                None
            }
            ("C17", _) => {
                if !c17::replay(&report, &r) {
                    return None;
                }
                None
            }
            ("C10", _) => Some(c10::replay(&r)?),
            ("C05", "reconnect-history") => Some(c05::replay(&r)),
            ("C07", _) if r["actions"].is_array() => Some(c07_c08::replay::<c07_c08::Vanilla>(&r)),
            ("C08", _) if r["actions"].is_array() => Some(c07_c08::replay::<c07_c08::Tbc>(&r)),
            _ => return None,
        };
        let mut obs: Vec<String> = report.violations_snapshot().into_iter().map(|(s, d)| format!("VIOLATION {s}: {d}")).collect();
        if let Some(d) = direct {
            obs.push(match d {
                Ok(o) => format!("ok: {o}"),
                Err(m) => format!("VIOLATION: {m}"),
            });
        }
        Some(obs)
    };
    let (a, b) = (once(), once());
    match (a, b) {
        (Some(a), Some(b)) => {
            for l in &a {
                println!("{l}");
            }
            if a != b {
                println!("MACHINERY-ERROR: two replays of the same case observed different things");
                return 2;
            }
            if a.iter().any(|l| l.starts_with("VIOLATION")) {
                println!("REPRODUCED (per-case replay, twice, identical observations)");
                1
            } else {
                println!("the recorded case does not violate the property on the current tree");
                0
            }
        }
        _ => 3,
    }
}
