//! C02: wrong credentials or any altered handshake value are always rejected.
//! E2: the four-message login with an adversary on the wire; every choice point's option 0 is
//! "leave alone". Oracle: each party accepts iff the presented proof equals the reference proof
//! determined by that party's own view.

use crate::common::*;
use mc::choices::{explore, Chooser};
use mc::report::{Report, Tier, Violation};
use mc::util::catch;
use refmodel::big::U;
use refmodel::srp;
use serde_json::json;
use std::collections::HashMap;
use std::sync::Mutex;
use wow_srp::client::SrpClientChallenge;
use wow_srp::server::SrpVerifier;
use wow_srp::verif_hooks;
use wow_srp::{PublicKey, GENERATOR, LARGE_SAFE_PRIME_LITTLE_ENDIAN};

struct Session {
    name: String,
    user: String,
    pass: String,
    salt: [u8; 32],
    b: [u8; 32],
    a: [u8; 32],
    /// typed-credential variants: (user, pass, must_be_accepted)
    variants: Vec<(String, String, bool)>,
    v: U,
    b_pub: [u8; 32],
    server_memo: Mutex<HashMap<[u8; 32], Option<([u8; 40], [u8; 20])>>>,
    client_memo: Mutex<HashMap<(usize, [u8; 32], [u8; 32], u8, [u8; 32]), Option<([u8; 32], [u8; 40], [u8; 20])>>>,
}

fn change_one_char(s: &str) -> String {
    let mut b = s.as_bytes().to_vec();
    let l = b.len() - 1;
    b[l] = if b[l].to_ascii_uppercase() == b'Q' { b'R' } else { b'Q' };
    String::from_utf8(b).unwrap()
}

fn session(name: &str, user: &str, pass: &str, seed: u64) -> Session {
    let salt = refmodel::ctr_array::<32>(seed, &format!("c02-salt-{name}"));
    let b = ordinary_key(seed, &format!("c02-b-{name}"));
    let a = ordinary_key(seed, &format!("c02-a-{name}"));
    session_from(name, user, pass, salt, b, a)
}

fn session_from(name: &str, user: &str, pass: &str, salt: [u8; 32], b: [u8; 32], a: [u8; 32]) -> Session {
    let n = srp::n_builtin();
    let (un, pn) = (refmodel::misc::normalize(user).unwrap(), refmodel::misc::normalize(pass).unwrap());
    let v = srp::verifier(&un, &pn, &salt, 7, &n);
    let b_pub = srp::server_public(&v, &U::from_le_bytes(&b), 7, &n).to_le_padded::<32>();
    let swapcase: String = user.chars().map(|c| if c.is_ascii_lowercase() { c.to_ascii_uppercase() } else { c.to_ascii_lowercase() }).collect();
    let mut variants = vec![
        (user.to_string(), pass.to_string(), true),
        (swapcase, pass.to_ascii_lowercase(), true),
        (user.to_string(), change_one_char(pass), false),
        (user.to_string(), if pass.len() < 16 { format!("{pass}x") } else { pass[..15].to_string() }, false),
        (change_one_char(user), pass.to_string(), false),
    ];
    // a variant that normalises to the registered pair is not a wrong credential
    for v in variants.iter_mut() {
        let same = refmodel::misc::normalize(&v.0).unwrap() == un && refmodel::misc::normalize(&v.1).unwrap() == pn;
        v.2 = same;
    }
    Session { name: name.into(), user: user.into(), pass: pass.into(), salt, b, a, variants, v, b_pub, server_memo: Mutex::new(HashMap::new()), client_memo: Mutex::new(HashMap::new()) }
}

impl Session {
    /// Reference server view: (K, M1) determined by stored v, salt, U, the A it received and the B it sent. None if S = 0.
    fn ref_server(&self, a_recv: &[u8; 32]) -> Option<([u8; 40], [u8; 20])> {
        if let Some(r) = self.server_memo.lock().unwrap().get(a_recv) {
            return *r;
        }
        let n = srp::n_builtin();
        let u = U::from_le_bytes(&srp::u_bytes(a_recv, &self.b_pub));
        let s = srp::server_s(&U::from_le_bytes(a_recv), &self.v, &u, &U::from_le_bytes(&self.b), &n).to_le_padded::<32>();
        let r = srp::interleave(&s).map(|k| {
            let un = refmodel::misc::normalize(&self.user).unwrap();
            (k, srp::m1(&un, &self.salt, a_recv, &self.b_pub, &k, 7, &srp::n_builtin_le()))
        });
        self.server_memo.lock().unwrap().insert(*a_recv, r);
        r
    }
    /// Reference client view: (A, K, M1) from the typed credentials and the (B, salt) it received. None if S = 0.
    fn ref_client(&self, variant: usize, b_recv: &[u8; 32], salt_recv: &[u8; 32], g: u8, n_le: &[u8; 32]) -> Option<([u8; 32], [u8; 40], [u8; 20])> {
        let key = (variant, *b_recv, *salt_recv, g, *n_le);
        if let Some(r) = self.client_memo.lock().unwrap().get(&key) {
            return *r;
        }
        let n = U::from_le_bytes(n_le);
        let (tu, tp, _) = &self.variants[variant];
        let (un, pn) = (refmodel::misc::normalize(tu).unwrap(), refmodel::misc::normalize(tp).unwrap());
        let aa = U::from_le_bytes(&self.a);
        let a_pub = srp::client_public(&aa, g, &n).to_le_padded::<32>();
        let x = U::from_le_bytes(&srp::x_bytes(&un, &pn, salt_recv));
        let u = U::from_le_bytes(&srp::u_bytes(&a_pub, b_recv));
        let s = srp::client_s(&U::from_le_bytes(b_recv), &x, &aa, &u, g, &n).to_le_padded::<32>();
        let r = srp::interleave(&s).map(|k| (a_pub, k, srp::m1(&un, salt_recv, &a_pub, b_recv, &k, g, n_le)));
        self.client_memo.lock().unwrap().insert(key, r);
        r
    }
}

fn flip<const N: usize>(x: &[u8; N], bit: usize) -> [u8; N] {
    let mut y = *x;
    y[bit / 8] ^= 1 << (bit % 8);
    y
}

/// One execution of the exchange with the adversary's choices. Ok(label) | Err(violation).
fn exchange(s: &Session, ch: &mut Chooser) -> Result<String, String> {
    let mut script = Vec::with_capacity(112);
    script.extend_from_slice(&s.salt);
    script.extend_from_slice(&s.b);
    script.extend_from_slice(&s.a);
    script.extend_from_slice(&[0xC5; 16]);
    verif_hooks::install_script(script);
    let r = exchange_inner(s, ch);
    let _ = verif_hooks::finish();
    r
}

fn exchange_inner(s: &Session, ch: &mut Chooser) -> Result<String, String> {
    let verifier = catch(|| SrpVerifier::from_username_and_password(ns(&s.user), ns(&s.pass))).map_err(|m| format!("register panicked: {m}"))?;
    if *verifier.salt() != s.salt {
        mc::util::machinery_error("C02: registration salt is not the scripted draw");
    }
    let proof = catch(move || verifier.into_proof()).map_err(|m| format!("into_proof panicked: {m}"))?;
    let b_sent = *proof.server_public_key();
    if b_sent != s.b_pub {
        return Err(format!("server public key {} differs from the reference (3v + g^b) mod N = {} (see C03)", hex(&b_sent), hex(&s.b_pub)));
    }
    // choice 1: what the user types
    let variant = ch.pick(s.variants.len(), "typed-credentials");
    let (tu, tp, same_account) = &s.variants[variant];
    // choice 2: server -> client (B, salt)
    // ... or the generator the client is told: the eight single-bit changes of 7, and 0 and 1
    const G_ALT: [u8; 10] = [6, 5, 3, 15, 23, 39, 71, 135, 0, 1];
    // ... or the modulus the client is told: a few single-bit changes of N (bit 0 makes it even)
    const N_BITS: [usize; 7] = [0, 1, 7, 8, 64, 128, 255];
    // ... or a modulus whose most significant 1, 2, 8 or 16 bytes are zero (N reduced modulo a power of two: odd, and
    // an ordinary 32-byte field on the wire; the proofs hash the field, not the number)
    const N_SHORT: [usize; 4] = [31, 30, 24, 16];
    let c2 = ch.pick(1 + 256 + 256 + G_ALT.len() + N_BITS.len() + N_SHORT.len(), "wire-B-salt");
    let n_true = LARGE_SAFE_PRIME_LITTLE_ENDIAN;
    let (b_recv, salt_recv, g_recv, n_recv) = if c2 == 0 {
        (b_sent, s.salt, GENERATOR, n_true)
    } else if c2 <= 256 {
        (flip(&b_sent, c2 - 1), s.salt, GENERATOR, n_true)
    } else if c2 <= 512 {
        (b_sent, flip(&s.salt, c2 - 257), GENERATOR, n_true)
    } else if c2 <= 512 + G_ALT.len() {
        (b_sent, s.salt, G_ALT[c2 - 513], n_true)
    } else if c2 <= 512 + G_ALT.len() + N_BITS.len() {
        (b_sent, s.salt, GENERATOR, flip(&n_true, N_BITS[c2 - 513 - G_ALT.len()]))
    } else {
        let keep = N_SHORT[c2 - 513 - G_ALT.len() - N_BITS.len()];
        let mut n = n_true;
        n[keep..].fill(0);
        (b_sent, s.salt, GENERATOR, n)
    };
    if srp::client_public(&U::from_le_bytes(&s.a), g_recv, &U::from_le_bytes(&n_recv)).is_zero() {
        return Ok("client-key-would-be-zero".into()); // g = 0: the documented refusal of the client's own key (C04)
    }
    let bk = match PublicKey::from_le_bytes(b_recv) {
        Ok(k) => k,
        Err(_) => return Ok("client-refuses-B".into()), // only possible for 0 / N: a refusal
    };
    let (tun, tpn) = (ns(tu), ns(tp));
    let client = catch(move || SrpClientChallenge::new(tun, tpn, g_recv, n_recv, bk, salt_recv)).map_err(|m| format!("SrpClientChallenge::new panicked: {m}"))?;
    let a_sent = *client.client_public_key();
    let m1_sent = *client.client_proof();
    let rc = s.ref_client(variant, &b_recv, &salt_recv, g_recv, &n_recv);
    if let Some((ra, _rk, rm1)) = rc {
        if a_sent != ra || m1_sent != rm1 {
            return Err(format!("client values differ from the reference for its own view (A {} vs {}, M1 {} vs {}) (see C03)", hex(&a_sent), hex(&ra), hex(&m1_sent), hex(&rm1)));
        }
    }
    // choice 3: client -> server (A, M1)
    // A + N is a different, valid key congruent to A (when it still fits in 32 bytes)
    let a_plus_n = {
        let s = U::from_le_bytes(&a_sent).add(&srp::n_builtin());
        if s.bits() <= 256 { Some(s.to_le_padded::<32>()) } else { None }
    };
    let c3 = ch.pick(1 + 256 + 160 + usize::from(a_plus_n.is_some()), "wire-A-M1");
    let (a_recv, m1_recv) = if c3 == 0 {
        (a_sent, m1_sent)
    } else if c3 <= 256 {
        (flip(&a_sent, c3 - 1), m1_sent)
    } else if c3 <= 416 {
        (a_sent, flip(&m1_sent, c3 - 257))
    } else {
        (a_plus_n.unwrap(), m1_sent)
    };
    let ak = match PublicKey::from_le_bytes(a_recv) {
        Ok(k) => k,
        Err(_) => return Ok("server-refuses-A".into()),
    };
    let rs = match s.ref_server(&a_recv) {
        Some(x) => x,
        None => return Ok("degenerate-S-zero".into()),
    };
    let want_server_ok = m1_recv == rs.1;
    let untouched = c2 == 0 && c3 == 0;
    if untouched && *same_account && !want_server_ok {
        return Err("reference model: an honest exchange would be refused (harness inconsistency)".into());
    }
    if !*same_account && want_server_ok {
        return Err("reference model says a wrong credential produces the right proof (hash collision?!)".into());
    }
    let res = catch(move || proof.into_server(ak, m1_recv)).map_err(|m| format!("into_server panicked: {m}"))?;
    let (server, m2_sent) = match res {
        Ok(x) => {
            if !want_server_ok {
                return Err(format!(
                    "server ACCEPTED proof {} although the proof determined by its own view (v, salt, U, A received, B sent) is {} [typed={:?}/{:?} wire: B/salt choice {c2}, A/M1 choice {c3}]",
                    hex(&m1_recv), hex(&rs.1), tu, tp
                ));
            }
            x
        }
        Err(e) => {
            if want_server_ok {
                return Err(format!("server REFUSED proof {} which equals the proof determined by its own view", hex(&m1_recv)));
            }
            if e.client_proof != m1_recv || e.server_proof != rs.1 {
                return Err(format!("server's error carries client_proof={} server_proof={}, expected presented {} and reference {}", hex(&e.client_proof), hex(&e.server_proof), hex(&m1_recv), hex(&rs.1)));
            }
            return Ok("server-rejects".into());
        }
    };
    if *server.session_key() != rs.0 {
        return Err(format!("accepted session has K {} but the reference for the server's view is {}", hex(server.session_key()), hex(&rs.0)));
    }
    let want_m2 = srp::m2(&a_recv, &rs.1, &rs.0);
    if m2_sent != want_m2 {
        return Err(format!("server proof M2 {} != H(A|M1|K) = {}", hex(&m2_sent), hex(&want_m2)));
    }
    // choice 4: server -> client M2
    let c4 = ch.pick(1 + 160, "wire-M2");
    let m2_recv = if c4 == 0 { m2_sent } else { flip(&m2_sent, c4 - 1) };
    let (_, ck, cm1) = rc.ok_or_else(|| "client view degenerate but server accepted".to_string())?;
    let client_expected = srp::m2(&a_sent, &cm1, &ck);
    let want_client_ok = m2_recv == client_expected;
    let res = catch(move || client.verify_server_proof(m2_recv)).map_err(|m| format!("verify_server_proof panicked: {m}"))?;
    match res {
        Ok(c) => {
            if !want_client_ok {
                return Err(format!("client ACCEPTED server proof {} although H(A|M1|K) for its own values is {} [M2 choice {c4}]", hex(&m2_recv), hex(&client_expected)));
            }
            if *c.session_key() != ck {
                return Err("client session key differs from the reference".into());
            }
            Ok("both-accept".into())
        }
        Err(e) => {
            if want_client_ok {
                return Err(format!("client REFUSED server proof {} which equals H(A|M1|K) for its own values", hex(&m2_recv)));
            }
            // the error carries both proofs (the client's own computation and the presented one)
            let pair = [e.client_proof, e.server_proof];
            if !(pair.contains(&m2_recv) && pair.contains(&client_expected)) {
                return Err(format!("client's error carries {} / {}, expected the presented {} and its own {}", hex(&e.client_proof), hex(&e.server_proof), hex(&m2_recv), hex(&client_expected)));
            }
            Ok("client-rejects".into())
        }
    }
}

/// Honest exchange up to the proofs, then every structured alteration of M1 against clones of the
/// real SrpProof and of M2 against clones of the real SrpClientChallenge.
fn multi_bit(s: &Session, full: bool) -> Result<u64, (String, serde_json::Value, String)> {
    use rayon::prelude::*;
    let mut script = Vec::with_capacity(112);
    script.extend_from_slice(&s.salt);
    script.extend_from_slice(&s.b);
    script.extend_from_slice(&s.a);
    let (setup, _, _) = with_script(&script, || {
        let verifier = SrpVerifier::from_username_and_password(ns(&s.user), ns(&s.pass));
        let proof = verifier.into_proof();
        let bk = PublicKey::from_le_bytes(*proof.server_public_key()).unwrap();
        let client = SrpClientChallenge::new(ns(&s.user), ns(&s.pass), GENERATOR, LARGE_SAFE_PRIME_LITTLE_ENDIAN, bk, *proof.salt());
        (proof, client)
    });
    let (proof, client) = setup.map_err(|m| ("panic".to_string(), json!({"session": s.name}), format!("honest setup panicked: {m}")))?;
    let a_pub = *client.client_public_key();
    let m1 = *client.client_proof();
    let rs = s.ref_server(&a_pub).ok_or(("value-mismatch".to_string(), json!({}), "degenerate session".to_string()))?;
    if rs.1 != m1 {
        return Err(("value-mismatch".into(), json!({"session": s.name}), "client M1 differs from the reference (see C03)".into()));
    }
    let m2 = srp::m2(&a_pub, &m1, &rs.0);
    let replay = |which: &str, presented: &[u8; 20]| json!({"session": s.name, "registered": [s.user, s.pass], "salt": hex(&s.salt), "b": hex(&s.b), "a": hex(&s.a), "altered": which, "presented": hex(presented)});
    // server side
    let alts = altered_proofs(&m1, full);
    let bad = alts.par_iter().find_map_any(|alt| {
        let ak = match PublicKey::from_le_bytes(a_pub) {
            Ok(k) => k,
            Err(e) => return Some(("value-mismatch".to_string(), replay("A", &alt), format!("the honest client key is refused: {e}"))),
        };
        let p = proof.clone();
        let alt = *alt;
        let (r, _, _) = with_script(&[0x11; 16], move || p.into_server(ak, alt).is_ok());
        match r {
            Ok(false) => None,
            Ok(true) => Some(("server-accepts-wrong-proof".to_string(), replay("M1", &alt), format!("server ACCEPTED proof {} which differs from the reference {} in {} bit(s)", hex(&alt), hex(&m1), alt.iter().zip(m1.iter()).map(|(x, y)| (x ^ y).count_ones()).sum::<u32>()))),
            Err(m) => Some(("panic".to_string(), replay("M1", &alt), format!("into_server panicked: {m}"))),
        }
    });
    if let Some(b) = bad {
        return Err(b);
    }
    // the unaltered proof is still accepted by a clone (guards the harness)
    let ak = match PublicKey::from_le_bytes(a_pub) {
        Ok(k) => k,
        Err(e) => return Err(("server-refuses-right-proof".into(), replay("M1", &m1), format!("the honest client key is refused: {e}"))),
    };
    let pc = proof.clone();
    let (ok, _, _) = with_script(&[0x11; 16], move || pc.into_server(ak, m1).is_ok());
    if ok != Ok(true) {
        return Err(("server-refuses-right-proof".into(), replay("M1", &m1), "the honest proof is refused".into()));
    }
    // client side
    let alts2 = altered_proofs(&m2, full);
    let bad = alts2.par_iter().find_map_any(|alt| {
        let c = client.clone();
        let alt = *alt;
        match catch(move || c.verify_server_proof(alt).is_ok()) {
            Ok(false) => None,
            Ok(true) => Some(("client-accepts-wrong-proof".to_string(), replay("M2", &alt), format!("client ACCEPTED server proof {} which differs from H(A|M1|K) = {}", hex(&alt), hex(&m2)))),
            Err(m) => Some(("panic".to_string(), replay("M2", &alt), format!("verify_server_proof panicked: {m}"))),
        }
    });
    if let Some(b) = bad {
        return Err(b);
    }
    if catch(|| client.clone().verify_server_proof(m2).is_ok()) != Ok(true) {
        return Err(("client-refuses-right-proof".into(), replay("M2", &m2), "the honest server proof is refused".into()));
    }
    Ok((alts.len() + alts2.len() + 2) as u64)
}

pub fn run(tier: Tier, seed: u64) -> i32 {
    let report = Report::new("C02", tier, seed, "model_checking");
    unusual_first_use();
    let specs: Vec<(&str, &str)> = if tier == Tier::Thorough {
        creds(true)
    } else {
        vec![("A", "A"), ("alice", "password123"), ("0123456789abcdef", "fedcba9876543210"), ("A:", "B"), ("MiXeD cAsE", "PaSsWoRd"), (" ", " ")]
    };
    let n_sessions_b1 = tier.pick(specs.len(), specs.len() * 4);
    let mut total = 0u64;
    let mut outcome_totals: std::collections::BTreeMap<String, u64> = Default::default();
    let mut run_plan = |s: &Session, bound: usize, report: &Report| {
        let (st, outcomes, viols) = explore(Some(bound), 4, |ch| exchange(s, ch));
        for (o, n) in outcomes {
            *outcome_totals.entry(o).or_insert(0) += n;
        }
        report.count("choice_points", st.choice_points);
        report.count(&format!("executions_deviation_bound_{bound}"), st.executions);
        for (choices, msg) in viols {
            let class = if msg.contains("server ACCEPTED") {
                "server-accepts-wrong-proof"
            } else if msg.contains("server REFUSED") {
                "server-refuses-right-proof"
            } else if msg.contains("client ACCEPTED") {
                "client-accepts-wrong-proof"
            } else if msg.contains("client REFUSED") {
                "client-refuses-right-proof"
            } else if msg.contains("error carries") {
                "error-does-not-carry-both-proofs"
            } else if msg.contains("panicked") {
                "panic"
            } else {
                "value-mismatch"
            };
            report.violation(Violation {
                signature: format!("C02|{class}"),
                scenario: "login-with-adversary".into(),
                replay: json!({"session": s.name, "registered": [s.user, s.pass], "salt": hex(&s.salt), "b": hex(&s.b), "a": hex(&s.a), "choices": choices,
                    "choice_points": ["typed-credentials (0 same,1 case variant,2 one char,3 length,4 username)", "B bit 1..256 / salt bit 257..512 / 513..522 = generator told to the client: 6 5 3 15 23 39 71 135 0 1 / 523..529 = modulus told to the client with bit 0 1 7 8 64 128 255 changed / 530..533 = modulus with only its low 31 30 24 16 bytes kept (high bytes zero)", "A bit 1..256 / M1 bit 257..416 / 417 = A replaced by A+N", "M2 bit 1..160"]}),
                detail: json!({ "message": msg }),
            });
        }
        st.executions
    };
    for i in 0..n_sessions_b1 {
        let (u, p) = specs[i % specs.len()];
        let s = session(&format!("s{i}"), u, p, seed + (i / specs.len()) as u64 * 1000);
        total += run_plan(&s, 1, &report);
    }
    // sessions whose shared secret S has a rare byte shape (leading zero bytes, 00 xx 00 ...): the interleaved key is
    // taken over a shortened S there, and the proofs each side must accept are the ones the definition gives
    {
        let ws = crate::logins::load_witnesses();
        let mut n_w = 0u64;
        for (class, case) in ws.iter().filter(|(c, _)| c.starts_with("S-")) {
            if !login_inputs_taken_as_is(&case.salt, &case.b, &case.a) {
                continue;
            }
            let s = session_from(&format!("witness-{class}"), &case.reg_user, &case.reg_pass, case.salt, case.b, case.a);
            total += run_plan(&s, if n_w < tier.pick(3, 100) { 1 } else { 0 }, &report);
            n_w += 1;
        }
        report.count("sessions_from_rare_S_shape_witnesses", n_w);
        report.require("sessions_from_rare_S_shape_witnesses");
    }
    // sessions whose private keys are tiny (1, 2) or huge (N-1, all ones): shortcuts for "trivial" exponents live there
    {
        let salt = refmodel::ctr_array::<32>(seed, "c02-special-salt");
        let ordinary = ordinary_key(seed, "c02-special-key");
        let mut n_sp = 0u64;
        for (i, (b, a)) in [(le32_from_u64(1), ordinary), (ordinary, le32_from_u64(1)), (le32_from_u64(2), le32_from_u64(2)), (n_plus(-1), ordinary), (ordinary, [0xFF; 32]), (le32_from_u64(1), le32_from_u64(1))].into_iter().enumerate() {
            if !login_inputs_taken_as_is(&salt, &b, &a) {
                continue;
            }
            let s = session_from(&format!("special-keys-{i}"), "alice", "password123", salt, b, a);
            total += run_plan(&s, 1, &report);
            n_sp += 1;
        }
        report.count("sessions_with_special_private_keys", n_sp);
    }
    // deviation bound 2: all pairs of alterations at different points
    let n_b2 = tier.pick(1usize, 4usize);
    for i in 0..n_b2 {
        let (u, p) = specs[(i * 2 + 1) % specs.len()];
        let s = session(&format!("pair{i}"), u, p, seed + 77 + i as u64);
        total += run_plan(&s, 2, &report);
    }
    // multi-bit alterations of M1 (server) and M2 (client): a comparison that folds, truncates or
    // word-compares the 20 bytes accepts patterns that no single-bit change reveals
    let n_multi = tier.pick(2usize, 6usize);
    let mut multi_cases = 0u64;
    for i in 0..n_multi {
        let (u, p) = specs[(i * 3) % specs.len()];
        let s = session(&format!("multi{i}"), u, p, seed + 500 + i as u64);
        let r = multi_bit(&s, tier == Tier::Thorough);
        match r {
            Ok(n) => multi_cases += n,
            Err((class, replay, msg)) => report.violation(Violation { signature: format!("C02|{class}"), scenario: "multi-bit-proof-alterations".into(), replay, detail: json!({ "message": msg }) }),
        }
    }
    report.count("multi_bit_alteration_cases", multi_cases);
    total += multi_cases;
    // confusable credentials: typed pairs that a too-generous normalisation would fold onto the registered pair
    // (blank runs collapsed, blanks trimmed or dropped, a character doubled or dropped, user and password swapped);
    // whatever the reference normalisation keeps apart is "another password or username" and must be refused
    {
        let regs: Vec<(&str, &str)> = vec![("alice", "open sesame"), ("a  b", "c  d"), (" x", "y "), ("bob", "pass  word 1"), ("A", "A"), ("q", "qq"), ("user name", "  "), ("dot.", ".dot"), ("0", "00"), ("gm{eu}", "pass{word"), ("a`b", "x~y|z"), ("[brackets]", "^caret@"), ("1!", "2\"3#")];
        let mut n_conf = 0u64;
        let mut n_same = 0u64;
        for (ri, (ru, rp)) in regs.iter().enumerate() {
            let confusable = |s: &str| -> Vec<String> {
                let mut v: Vec<String> = vec![
                    s.to_string(),
                    format!("{s} "),
                    format!(" {s}"),
                    s.trim().to_string(),
                    s.trim_start().to_string(),
                    s.trim_end().to_string(),
                    s.replace("  ", " "),
                    s.replace(' ', "  "),
                    s.replace(' ', ""),
                    s.replace(' ', "_"),
                    format!("{s}{}", s.chars().last().unwrap()),
                    s[..s.len() - 1].to_string(),
                    s.replace('.', ""),
                    s.replace('0', ""),
                    s.to_ascii_uppercase(),
                    // padding and line endings a constructor might strip "to be helpful"
                    format!("{s}\0"),
                    format!("\0{s}"),
                    format!("{s}\n"),
                    format!("{s}\r\n"),
                    format!("{s}\t"),
                ];
                // one character replaced by the one that differs in the ASCII case bit (0x20) or in the lowest bit:
                // upper-casing by bit tricks folds '{' onto '[', '~' onto '^', '`' onto '@', '1' onto a control character
                for (i, b) in s.bytes().enumerate() {
                    for m in [0x20u8, 0x01] {
                        let c = b ^ m;
                        if (0x20..=0x7E).contains(&c) {
                            let mut t = s.as_bytes().to_vec();
                            t[i] = c;
                            v.push(String::from_utf8(t).unwrap());
                        }
                    }
                }
                // a character replaced by a non-ASCII one whose code point ends in the same byte (U+01xx, U+20xx): a check
                // made after narrowing the character to a byte lets it through as the ASCII character
                for (i, ch) in s.char_indices() {
                    for hi in [0x0100u32, 0x2000, 0x1_0000] {
                        if let Some(c2) = char::from_u32(hi + ch as u32) {
                            let mut t = String::new();
                            t.push_str(&s[..i]);
                            t.push(c2);
                            t.push_str(&s[i + ch.len_utf8()..]);
                            v.push(t);
                        }
                    }
                }
                v.retain(|x| !x.is_empty() && x.chars().count() <= 16);
                v.sort();
                v.dedup();
                v
            };
            let (run_, rpn) = (refmodel::misc::normalize(ru).unwrap(), refmodel::misc::normalize(rp).unwrap());
            let mut typed: Vec<(String, String)> = vec![(rp.to_string(), ru.to_string())];
            for tu in confusable(ru) {
                typed.push((tu, rp.to_string()));
            }
            for tp in confusable(rp) {
                typed.push((ru.to_string(), tp));
            }
            for (ti, (tu, tp)) in typed.iter().enumerate() {
                let (ntu, ntp) = (refmodel::misc::normalize(tu), refmodel::misc::normalize(tp));
                if ntu.is_err() || ntp.is_err() {
                    // not a permitted credential at all: no constructor may turn it into one that logs in
                    use wow_srp::normalized_string::NormalizedString as NS;
                    use std::convert::TryFrom;
                    let built: Vec<(NS, NS)> = [
                        (NS::new(tu.as_str()).ok(), NS::new(tp.as_str()).ok()),
                        (NS::from_string(tu.clone()).ok(), NS::from_string(tp.clone()).ok()),
                        (NS::from_str(tu.as_str()).ok(), NS::from_str(tp.as_str()).ok()),
                        (NS::try_from(tu.clone()).ok(), NS::try_from(tp.clone()).ok()),
                        (NS::try_from(tu.as_str()).ok(), NS::try_from(tp.as_str()).ok()),
                    ]
                    .into_iter()
                    .filter_map(|(a, b)| Some((a?, b?)))
                    .collect();
                    for (a, b) in built {
                        if a.as_ref().as_bytes() == &run_[..] && b.as_ref().as_bytes() == &rpn[..] {
                            report.violation(Violation { signature: "C02|server-accepts-confusable-credentials".into(), scenario: "confusable-credentials".into(), replay: json!({"registered": [ru, rp], "typed": [tu, tp]}), detail: json!({"message": format!("the typed pair {tu:?} / {tp:?} is not a permitted credential, yet the library turns it into the registered pair {ru:?} / {rp:?}: a client typing it is logged in")}) });
                        }
                    }
                    n_conf += 1;
                    continue;
                }
                let same = ntu.unwrap() == run_ && ntp.unwrap() == rpn;
                let li = LoginInput {
                    reg_user: ru,
                    reg_pass: rp,
                    typed_user: tu,
                    typed_pass: tp,
                    salt: refmodel::ctr_array::<32>(seed, &format!("c02-conf-salt-{ri}")),
                    b: ordinary_key(seed, &format!("c02-conf-b-{ri}-{ti}")),
                    a: ordinary_key(seed, &format!("c02-conf-a-{ri}-{ti}")),
                    storage_roundtrip: ti % 2 == 1,
                };
                let r = real_login(&li);
                let replay = json!({"registered": [ru, rp], "typed": [tu, tp], "salt": hex(&li.salt), "b": hex(&li.b), "a": hex(&li.a)});
                match (same, r) {
                    (true, Ok(_)) => n_same += 1,
                    (false, Err(LoginFail::Refused("into_server", _))) => n_conf += 1,
                    (false, Ok(_)) => report.violation(Violation { signature: "C02|server-accepts-confusable-credentials".into(), scenario: "confusable-credentials".into(), replay, detail: json!({"message": format!("the server accepted a client that typed {tu:?} / {tp:?} for the account registered as {ru:?} / {rp:?}: these are different credentials")}) }),
                    (true, Err(e)) => report.violation(Violation { signature: "C02|right-credentials-refused".into(), scenario: "confusable-credentials".into(), replay, detail: json!({"message": format!("typed credentials equal to the registered ones up to letter case were refused: {e:?}")}) }),
                    (false, Err(LoginFail::Rng(m))) => mc::util::machinery_error(&format!("C02 confusable credentials: {m}")),
                    (_, Err(LoginFail::Redrawn)) => {}
                    (false, Err(e)) => report.violation(Violation { signature: "C02|wrong-credentials-not-refused-by-the-server".into(), scenario: "confusable-credentials".into(), replay, detail: json!({"message": format!("a client with different credentials did not end in the server's refusal but in {e:?}")}) }),
                }
            }
        }
        report.count("confusable_credential_logins_refused", n_conf);
        report.count("confusable_credential_logins_same_account", n_same);
        report.require("confusable_credential_logins_refused");
        total += n_conf + n_same;
    }
    for (o, n) in &outcome_totals {
        report.count(&format!("outcome_{o}"), *n);
    }
    report.require("outcome_both-accept");
    report.require("outcome_server-rejects");
    report.require("outcome_client-rejects");
    report.set("distinct_outcomes", json!(outcome_totals.len()));
    report.set("evaluations", json!(total));
    report.set("distinct_nontrivial", json!(total - outcome_totals.get("both-accept").copied().unwrap_or(0)));
    report.set("rule", json!("per session (credentials, salt, b, a fixed by the RNG script) every execution with at most d deviations from 'leave alone' at the four choice points {typed credentials: 5 variants; B/salt: 512 single-bit changes; A/M1: 416; M2: 160}; distinct_nontrivial = executions that must end in a refusal"));
    report.set("states", json!(report.get("choice_points")));
    report.set("transitions", json!(report.get("choice_points")));
    report.set("traces_validated_against_impl", json!(total));
    report.sample("execution", json!({"typed": "case-only variant", "wire": "untouched", "expected": "both accept (a case difference is not a wrong credential)"}));
    report.sample("execution", json!({"typed": "same", "wire": "M1 bit 159 flipped", "expected": "Err(MatchProofsError{client_proof: presented, server_proof: reference M1}), no SrpServer"}));
    report.sample("execution", json!({"typed": "same", "wire": "M2 bit 0 flipped", "expected": "server accepted; client returns Err carrying both proofs, no SrpClient"}));
    report.space(&format!("{n_multi} sessions with every structured multi-bit alteration of M1 and M2 (all pairs of bit flips in the thorough tier; byte replacements, truncations, rotations, word-cancelling flips)"));
    report.space(&format!("{n_sessions_b1} sessions with every single deviation (1,094 executions each); {n_b2} session(s) with every pair of deviations at different points"));
    report.set("exhaustive", json!(false));
    report.cap_hit("deviation bound 1 for most sessions, 2 for a few; session alphabet finite");
    report.assume("the oracle is an exact equality test against the reference proofs, so an accidental hash match cannot cause a false alarm");
    report.finish()
}

/// Replay of one recorded execution (no explorer): the stored choice sequence is fed to the real exchange.
pub fn replay(r: &serde_json::Value) -> Result<String, String> {
    let g = |k: &str| r[k].as_str().unwrap_or_else(|| mc::util::machinery_error("C02 replay: field missing"));
    let s = session_from(g("session"), r["registered"][0].as_str().unwrap(), r["registered"][1].as_str().unwrap(), mc::util::unhex_n::<32>(g("salt")), mc::util::unhex_n::<32>(g("b")), mc::util::unhex_n::<32>(g("a")));
    if r["choices"].is_array() {
        let choices: Vec<u32> = r["choices"].as_array().unwrap().iter().map(|c| c.as_u64().unwrap() as u32).collect();
        exchange(&s, &mut Chooser::replay(&choices))
    } else {
        multi_bit(&s, true).map(|n| format!("{n} alterations refused")).map_err(|e| e.2)
    }
}

/// Replay of one confusable-credentials case: the typed pair against the account registered as recorded.
/// None = the record lacks the inputs (coarse replay is used instead).
pub fn replay_confusable(r: &serde_json::Value) -> Option<Result<String, String>> {
    let g = |v: &serde_json::Value| v.as_str().map(|s| s.to_string());
    let (ru, rp) = (g(&r["registered"][0])?, g(&r["registered"][1])?);
    let (tu, tp) = (g(&r["typed"][0])?, g(&r["typed"][1])?);
    let (run_, rpn) = (refmodel::misc::normalize(&ru).ok()?, refmodel::misc::normalize(&rp).ok()?);
    let (ntu, ntp) = (refmodel::misc::normalize(&tu), refmodel::misc::normalize(&tp));
    if ntu.is_err() || ntp.is_err() {
        use wow_srp::normalized_string::NormalizedString as NS;
        use std::convert::TryFrom;
        for (a, b) in [
            (NS::new(tu.as_str()).ok(), NS::new(tp.as_str()).ok()),
            (NS::from_string(tu.clone()).ok(), NS::from_string(tp.clone()).ok()),
            (NS::from_str(tu.as_str()).ok(), NS::from_str(tp.as_str()).ok()),
            (NS::try_from(tu.clone()).ok(), NS::try_from(tp.clone()).ok()),
            (NS::try_from(tu.as_str()).ok(), NS::try_from(tp.as_str()).ok()),
        ] {
            if let (Some(a), Some(b)) = (a, b) {
                if a.as_ref().as_bytes() == &run_[..] && b.as_ref().as_bytes() == &rpn[..] {
                    return Some(Err(format!("the typed pair {tu:?} / {tp:?} is not a permitted credential, yet the library turns it into the registered pair {ru:?} / {rp:?}")));
                }
            }
        }
        return Some(Ok("the library does not turn the non-permitted typed pair into the registered one".into()));
    }
    let same = ntu.unwrap() == run_ && ntp.unwrap() == rpn;
    let li = LoginInput { reg_user: &ru, reg_pass: &rp, typed_user: &tu, typed_pass: &tp, salt: mc::util::unhex_n::<32>(r["salt"].as_str()?), b: mc::util::unhex_n::<32>(r["b"].as_str()?), a: mc::util::unhex_n::<32>(r["a"].as_str()?), storage_roundtrip: false };
    Some(match (same, real_login(&li)) {
        (true, Ok(_)) => Ok("same credentials up to letter case: accepted".into()),
        (false, Err(LoginFail::Refused("into_server", _))) => Ok("different credentials: refused by the server".into()),
        (false, Ok(_)) => Err(format!("the server accepted a client that typed {tu:?} / {tp:?} for the account registered as {ru:?} / {rp:?}")),
        (_, Err(LoginFail::Redrawn)) => Ok("skipped: the library draws again for a degenerate scripted value".into()),
        (_, Err(e)) => Err(format!("unexpected outcome {e:?}")),
    })
}
