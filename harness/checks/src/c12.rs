//! C12: send/receive directions are independent; split/clone/unsplit lose nothing.
//! E1 over operation interleavings with a differential oracle (two separate single-direction
//! objects) and the reference model; E3 over key pairs for Vanilla unsplit; E4 (loom) is run as a
//! separate binary and its result merged into the evidence.

use crate::ciphers;
use crate::common::*;
use mc::bfs::bfs;
use mc::report::{Report, Tier, Violation};
use rayon::prelude::*;
use refmodel::cipher::{dec_step, enc_step, wrath_stream, Dir};
use serde_json::json;
use std::hash::Hash;
use std::sync::atomic::{AtomicU64, Ordering};

trait Mod: Sync {
    type Comb: Clone + Eq + Hash + Send + Sync + std::fmt::Debug;
    type Enc: Clone + Eq + Hash + Send + Sync + std::fmt::Debug;
    type Dec: Clone + Eq + Hash + Send + Sync + std::fmt::Debug;
    const NAME: &'static str;
    const HAS_UNSPLIT: bool;
    fn new(key: &[u8; 40]) -> Self::Comb;
    fn split(c: Self::Comb) -> (Self::Enc, Self::Dec);
    fn unsplit(e: Self::Enc, d: Self::Dec) -> Result<Self::Comb, String>;
    fn c_enc(c: &mut Self::Comb, d: &mut [u8]);
    fn c_dec(c: &mut Self::Comb, d: &mut [u8]);
    fn h_enc(e: &mut Self::Enc, d: &mut [u8]);
    fn h_dec(e: &mut Self::Dec, d: &mut [u8]);
    /// reference ciphertext for plaintext starting at stream state; returns expected output
    fn ref_enc(r: &RefKeys, st: &mut RefDir, d: &mut [u8]);
    fn ref_dec(r: &RefKeys, st: &mut RefDir, d: &mut [u8]);
}

/// Per-key reference material: recurrence key or the first keystream bytes of both directions.
struct RefKeys {
    rec_key: Vec<u8>,
    ks_enc: Vec<u8>,
    ks_dec: Vec<u8>,
}
#[derive(Clone, Debug, PartialEq, Eq, Hash, Default)]
struct RefDir {
    n: u32,
    prev: u8,
}

macro_rules! rec_mod {
    ($t:ident, $m:ident, $name:expr, $ctor:path, $unsplit:expr, $has:expr) => {
        struct $t;
        impl Mod for $t {
            type Comb = wow_srp::$m::HeaderCrypto;
            type Enc = wow_srp::$m::EncrypterHalf;
            type Dec = wow_srp::$m::DecrypterHalf;
            const NAME: &'static str = $name;
            const HAS_UNSPLIT: bool = $has;
            fn new(key: &[u8; 40]) -> Self::Comb {
                $ctor(key)
            }
            fn split(c: Self::Comb) -> (Self::Enc, Self::Dec) {
                c.split()
            }
            fn unsplit(e: Self::Enc, d: Self::Dec) -> Result<Self::Comb, String> {
                $unsplit(e, d)
            }
            fn c_enc(c: &mut Self::Comb, d: &mut [u8]) {
                c.encrypt(d)
            }
            fn c_dec(c: &mut Self::Comb, d: &mut [u8]) {
                c.decrypt(d)
            }
            fn h_enc(e: &mut Self::Enc, d: &mut [u8]) {
                e.encrypt(d)
            }
            fn h_dec(e: &mut Self::Dec, d: &mut [u8]) {
                e.decrypt(d)
            }
            fn ref_enc(r: &RefKeys, st: &mut RefDir, d: &mut [u8]) {
                for b in d {
                    let (c, _, p) = enc_step(&r.rec_key, st.n as usize % r.rec_key.len(), st.prev, *b);
                    *b = c;
                    st.n += 1;
                    st.prev = p;
                }
            }
            fn ref_dec(r: &RefKeys, st: &mut RefDir, d: &mut [u8]) {
                for b in d {
                    let (x, _, p) = dec_step(&r.rec_key, st.n as usize % r.rec_key.len(), st.prev, *b);
                    *b = x;
                    st.n += 1;
                    st.prev = p;
                }
            }
        }
    };
}
rec_mod!(VanillaM, vanilla_header, "vanilla", ciphers::vanilla, |e: wow_srp::vanilla_header::EncrypterHalf, d| e.unsplit(d).map_err(|e| e.to_string()), true);
rec_mod!(TbcM, tbc_header, "tbc", ciphers::tbc, |_e, _d| Err("no unsplit in this module".to_string()), false);

macro_rules! wrath_mod {
    ($t:ident, $comb:ident, $enc:ident, $dec:ident, $name:expr, $ctor:path) => {
        struct $t;
        impl Mod for $t {
            type Comb = wow_srp::wrath_header::$comb;
            type Enc = wow_srp::wrath_header::$enc;
            type Dec = wow_srp::wrath_header::$dec;
            const NAME: &'static str = $name;
            const HAS_UNSPLIT: bool = false;
            fn new(key: &[u8; 40]) -> Self::Comb {
                $ctor(key)
            }
            fn split(c: Self::Comb) -> (Self::Enc, Self::Dec) {
                c.split()
            }
            fn unsplit(_e: Self::Enc, _d: Self::Dec) -> Result<Self::Comb, String> {
                Err("no unsplit in this module".into())
            }
            fn c_enc(c: &mut Self::Comb, d: &mut [u8]) {
                c.encrypt(d)
            }
            fn c_dec(c: &mut Self::Comb, d: &mut [u8]) {
                c.decrypt(d)
            }
            fn h_enc(e: &mut Self::Enc, d: &mut [u8]) {
                e.encrypt(d)
            }
            fn h_dec(e: &mut Self::Dec, d: &mut [u8]) {
                e.decrypt(d)
            }
            fn ref_enc(r: &RefKeys, st: &mut RefDir, d: &mut [u8]) {
                for b in d {
                    *b ^= r.ks_enc[st.n as usize];
                    st.n += 1;
                }
            }
            fn ref_dec(r: &RefKeys, st: &mut RefDir, d: &mut [u8]) {
                for b in d {
                    *b ^= r.ks_dec[st.n as usize];
                    st.n += 1;
                }
            }
        }
    };
}
wrath_mod!(WrathClientM, ClientCrypto, ClientEncrypterHalf, ClientDecrypterHalf, "wrath-client", ciphers::wrath_client);
wrath_mod!(WrathServerM, ServerCrypto, ServerEncrypterHalf, ServerDecrypterHalf, "wrath-server", ciphers::wrath_server);

fn ref_keys(name: &str, key: &[u8; 40]) -> RefKeys {
    let ks = |d: Dir| {
        let mut r = wrath_stream(key, d);
        (0..4096).map(|_| r.next_byte()).collect::<Vec<u8>>()
    };
    match name {
        "vanilla" => RefKeys { rec_key: key.to_vec(), ks_enc: vec![], ks_dec: vec![] },
        "tbc" => RefKeys { rec_key: refmodel::hash::hmac_sha1(&refmodel::cipher::TBC_SEED, key).to_vec(), ks_enc: vec![], ks_dec: vec![] },
        "wrath-client" => RefKeys { rec_key: vec![], ks_enc: ks(Dir::ClientToServer), ks_dec: ks(Dir::ServerToClient) },
        _ => RefKeys { rec_key: vec![], ks_enc: ks(Dir::ServerToClient), ks_dec: ks(Dir::ClientToServer) },
    }
}

#[derive(Clone, PartialEq, Eq, Hash, Debug)]
enum Conn<C, E, D> {
    Combined(C),
    Split(E, D),
}

#[derive(Clone, Copy, Debug, PartialEq, Eq)]
enum Act {
    Enc(usize, u8),
    Dec(usize, u8),
    Split,
    Unsplit,
    CloneContinue,
}

fn content(pattern: u8, offset: u32, len: usize) -> Vec<u8> {
    (0..len).map(|i| ((offset as usize + i) as u8).wrapping_mul(if pattern == 0 { 1 } else { 167 }).wrapping_add(pattern.wrapping_mul(0x5B))).collect()
}

fn explore_mod<M: Mod>(report: &Report, key: &[u8; 40], lens: &[usize], patterns: &[u8], depth: usize) {
    let rk = ref_keys(M::NAME, key);
    let mut actions = vec![];
    for &l in lens {
        for &p in patterns {
            actions.push(Act::Enc(l, p));
            actions.push(Act::Dec(l, p));
        }
    }
    actions.push(Act::Split);
    actions.push(Act::CloneContinue);
    if M::HAS_UNSPLIT {
        actions.push(Act::Unsplit);
    }
    // state: connection under test, two separate single-direction objects, reference stream states
    let conn: Conn<M::Comb, M::Enc, M::Dec> = Conn::Combined(M::new(key));
    let (solo_e, _) = M::split(M::new(key));
    let (_, solo_d) = M::split(M::new(key));
    let init = (conn, solo_e, solo_d, RefDir::default(), RefDir::default());
    let r = bfs(vec![init], &actions, Some(depth), |s, a| {
        let (conn, se, sd, re, rd) = s;
        let (mut conn, mut se, mut sd, mut re, mut rd) = (conn.clone(), se.clone(), sd.clone(), re.clone(), rd.clone());
        match *a {
            Act::Enc(l, p) => {
                let data = content(p, re.n, l);
                let mut a1 = data.clone();
                match &mut conn {
                    Conn::Combined(c) => M::c_enc(c, &mut a1),
                    Conn::Split(e, _) => M::h_enc(e, &mut a1),
                }
                let mut a2 = data.clone();
                M::h_enc(&mut se, &mut a2);
                let mut a3 = data.clone();
                M::ref_enc(&rk, &mut re, &mut a3);
                if a1 != a2 || a1 != a3 {
                    return Err(format!("encrypt of {} bytes at send offset {}: connection={} separate-object={} reference={}", l, re.n - l as u32, hex(&a1), hex(&a2), hex(&a3)));
                }
            }
            Act::Dec(l, p) => {
                let data = content(p ^ 0x3, rd.n, l);
                let mut a1 = data.clone();
                match &mut conn {
                    Conn::Combined(c) => M::c_dec(c, &mut a1),
                    Conn::Split(_, d) => M::h_dec(d, &mut a1),
                }
                let mut a2 = data.clone();
                M::h_dec(&mut sd, &mut a2);
                let mut a3 = data.clone();
                M::ref_dec(&rk, &mut rd, &mut a3);
                if a1 != a2 || a1 != a3 {
                    return Err(format!("decrypt of {} bytes at receive offset {}: connection={} separate-object={} reference={}", l, rd.n - l as u32, hex(&a1), hex(&a2), hex(&a3)));
                }
            }
            Act::Split => match conn {
                Conn::Combined(c) => {
                    let (e, d) = M::split(c);
                    conn = Conn::Split(e, d);
                }
                Conn::Split(..) => return Ok(None),
            },
            Act::Unsplit => match conn {
                Conn::Split(e, d) => match M::unsplit(e, d) {
                    Ok(c) => conn = Conn::Combined(c),
                    Err(e) => return Err(format!("unsplit of two halves of the same connection failed: {e}")),
                },
                Conn::Combined(_) => return Ok(None),
            },
            Act::CloneContinue => {
                let c2 = conn.clone();
                if c2 != conn {
                    return Err("clone differs from the original".into());
                }
                conn = c2;
            }
        }
        Ok(Some((conn, se, sd, re, rd)))
    });
    report.count("states", r.states);
    report.count("transitions", r.transitions);
    report.count(&format!("interleaving_states_{}", M::NAME), r.states);
    if let Some((p, m)) = r.violation {
        report.violation(Violation {
            signature: format!("C12|{}|interleaving|{}", M::NAME, if m.contains("unsplit") { "unsplit" } else if m.contains("clone") { "clone" } else if m.contains("decrypt") { "decrypt" } else { "encrypt" }),
            scenario: format!("{}::interleavings", M::NAME),
            replay: json!({"session_key": hex(key), "actions": p.iter().map(|a| format!("{a:?}")).collect::<Vec<_>>()}),
            detail: json!({ "message": m }),
        });
    }
}

fn unsplit_pairs(report: &Report, tier: Tier, seed: u64) {
    use wow_srp::vanilla_header::{DecrypterHalf, EncrypterHalf};
    let bases = key40s(seed, 1);
    let cases = AtomicU64::new(0);
    let accepted = AtomicU64::new(0);
    let refused = AtomicU64::new(0);
    let check = |k1: &[u8; 40], k2: &[u8; 40], adv_e: usize, adv_d: usize| {
        let (mut e, _): (EncrypterHalf, DecrypterHalf) = ciphers::vanilla(k1).split();
        let (_, mut d): (EncrypterHalf, DecrypterHalf) = ciphers::vanilla(k2).split();
        e.encrypt(&mut vec![0x11u8; adv_e]);
        d.decrypt(&mut vec![0x22u8; adv_d]);
        let same = k1 == k2;
        let p1 = e.is_pair_of(&d);
        let p2 = d.is_pair_of(&e);
        let (e_before, d_before) = (e.clone(), d.clone());
        let r = e.unsplit(d);
        cases.fetch_add(1, Ordering::Relaxed);
        let diff: Vec<usize> = (0..40).filter(|&i| k1[i] != k2[i]).collect();
        let fail = |class: &str, msg: String| {
            report.violation(Violation {
                signature: format!("C12|vanilla|unsplit|{class}"),
                scenario: "vanilla::unsplit-pairs".into(),
                replay: json!({"key_encrypter": hex(k1), "key_decrypter": hex(k2), "differing_positions": diff, "advance_enc": adv_e, "advance_dec": adv_d}),
                detail: json!({ "message": msg }),
            })
        };
        if p1 != same || p2 != same {
            fail("is_pair_of", format!("keys equal: {same}; encrypter.is_pair_of={p1} decrypter.is_pair_of={p2}"));
        }
        match r {
            Ok(mut c) => {
                accepted.fetch_add(1, Ordering::Relaxed);
                if !same {
                    fail("accepted-different-keys", format!("unsplit succeeded for keys differing at positions {diff:?}"));
                    return;
                }
                // continues both streams exactly where the halves were
                let (mut e2, mut d2) = (e_before, d_before);
                let mut x = [0x33u8; 50];
                let mut y = [0x33u8; 50];
                c.encrypt(&mut x);
                e2.encrypt(&mut y);
                let mut u = [0x44u8; 50];
                let mut v = [0x44u8; 50];
                c.decrypt(&mut u);
                d2.decrypt(&mut v);
                if x != y || u != v {
                    fail("rejoined-object-lost-state", "re-joined object does not continue the streams where the halves were".into());
                }
            }
            Err(_) => {
                refused.fetch_add(1, Ordering::Relaxed);
                if same {
                    fail("refused-same-key", "unsplit refused two halves that carry the same session key".into());
                }
            }
        }
    };
    let advs: Vec<(usize, usize)> = if tier == Tier::Thorough {
        (0..8).flat_map(|i| (0..8).map(move |j| (i * 11, j * 7 + 3))).collect()
    } else {
        vec![(0, 0), (5, 0), (0, 41), (39, 40)]
    };
    bases.par_iter().for_each(|k| {
        for &(ae, ad) in &advs {
            check(k, k, ae, ad);
        }
        // exactly one byte different: all 40 positions x all 255 other values
        for pos in 0..40 {
            for delta in 1..=255u8 {
                let mut k2 = *k;
                k2[pos] = k2[pos].wrapping_add(delta);
                check(k, &k2, 0, 0);
                if delta == 1 || delta == 0x80 {
                    check(&k2, k, 3, 77);
                }
            }
        }
        // exactly two bytes different: all position pairs; two bytes swapped; +1 / -1 (sum-cancelling)
        for p in 0..40 {
            for q in (p + 1)..40 {
                let mut k3 = *k;
                k3.swap(p, q);
                if k3 != *k {
                    check(k, &k3, 0, 0);
                }
                let mut k4 = *k;
                k4[p] = k4[p].wrapping_add(1);
                k4[q] = k4[q].wrapping_sub(1);
                check(k, &k4, 0, 0);
                for d in [1u8, 0x80, 0xFF] {
                    let mut k2 = *k;
                    k2[p] ^= d;
                    k2[q] ^= d;
                    check(k, &k2, 0, 0);
                }
            }
        }
        // unrelated
        check(k, &refmodel::ctr_array::<40>(seed, "unrelated"), 0, 0);
    });
    report.count("unsplit_pair_cases", cases.load(Ordering::Relaxed));
    report.require("unsplit_accepted");
    report.require("unsplit_refused");
    report.count("unsplit_accepted", accepted.load(Ordering::Relaxed));
    report.count("unsplit_refused", refused.load(Ordering::Relaxed));
}


/// Two Wrath client connections used alternately (and a half moved to another thread between the
/// 4-byte attempt and the fifth byte): per-connection state must live in the connection.
/// A large Wrath server header is decoded in two steps; between the steps the combined client object may be split,
/// cloned, or reached through its accessor - the half that completes the header must still hold what the first step
/// kept (size bytes), and the stream must stay in step afterwards.
fn wrath_split_between_the_two_steps(report: &Report, seed: u64) {
    use wow_srp::wrath_header::WrathServerAttempt;
    let mut cases = 0u64;
    for ki in 0..3u32 {
        let key = refmodel::ctr_array::<40>(seed, &format!("c12-mid-{ki}"));
        for before in 0..4u32 {
            for variant in 0..5u32 {
                let mut se = ciphers::wrath_server(&key).split().0;
                let mut cc = ciphers::wrath_client(&key);
                // some ordinary headers first (short and long), all through the combined object
                let mut ok = true;
                for i in 0..before {
                    let (size, opcode) = if i % 2 == 0 { (20 + i, 0x100 + i as u16) } else { (0x9000 + i * 0x1234, 0x200 + i as u16) };
                    let wire = se.encrypt_server_header(size, opcode).to_vec();
                    let h = match cc.attempt_decrypt_server_header([wire[0], wire[1], wire[2], wire[3]]) {
                        WrathServerAttempt::Header(h) => h,
                        WrathServerAttempt::AdditionalByteRequired => cc.decrypt_large_server_header(wire[4]),
                    };
                    ok &= (h.size, h.opcode) == (size, opcode);
                }
                let (size, opcode) = (0x12_3456 + ki * 0x10_0001 + before * 0x101, 0x3344u16.wrapping_add(variant as u16));
                let wire = se.encrypt_server_header(size, opcode).to_vec();
                let first = mc::util::catch(|| matches!(cc.attempt_decrypt_server_header([wire[0], wire[1], wire[2], wire[3]]), WrathServerAttempt::AdditionalByteRequired));
                if first != Ok(true) || wire.len() != 5 || !ok {
                    report.violation(Violation { signature: "C12|wrath-client|two-step|setup".into(), scenario: "split-between-steps".into(), replay: json!({"key": hex(&key), "headers_before": before}), detail: json!({"message": format!("a {size:#x}-byte header is not announced as needing a fifth byte, or earlier headers were decoded wrongly ({first:?})")}) });
                    continue;
                }
                let next = se.encrypt_server_header(77, 0x55AA).to_vec();
                let r = mc::util::catch(move || {
                    let (h, h2) = match variant {
                        0 => {
                            let (_e, mut d) = cc.split();
                            (d.decrypt_large_server_header(wire[4]), d.decrypt_server_header_or_panic(&next))
                        }
                        1 => {
                            let mut c2 = cc.clone();
                            drop(cc);
                            (c2.decrypt_large_server_header(wire[4]), c2.decrypter().decrypt_server_header_or_panic(&next))
                        }
                        2 => (cc.decrypter().decrypt_large_server_header(wire[4]), cc.decrypter().decrypt_server_header_or_panic(&next)),
                        3 => {
                            let (_e, d) = cc.split();
                            let mut d2 = d.clone();
                            drop(d);
                            (d2.decrypt_large_server_header(wire[4]), d2.decrypt_server_header_or_panic(&next))
                        }
                        _ => {
                            let (_e, d) = cc.split();
                            let mut d = std::thread::spawn(move || d).join().unwrap();
                            (d.decrypt_large_server_header(wire[4]), d.decrypt_server_header_or_panic(&next))
                        }
                    };
                    ((h.size, h.opcode), h2)
                });
                cases += 1;
                let what = ["split()", "clone of the combined object", "decrypter() accessor", "split() then clone of the half", "split() then the half moved to another thread"][variant as usize];
                match r {
                    Ok((got, got2)) => {
                        if got != (size, opcode) || got2 != (77, 0x55AA) {
                            report.violation(Violation { signature: "C12|wrath-client|two-step|state-lost-between-steps".into(), scenario: "split-between-steps".into(), replay: json!({"key": hex(&key), "headers_before": before, "between_the_steps": what, "size": size, "opcode": opcode}), detail: json!({"message": format!("after attempt_decrypt_server_header asked for a fifth byte and then {what}, the header completes as size={:#x} opcode={:#x} (sent {size:#x}/{opcode:#x}), the next header as {:?} (sent 0x4d/0x55aa)", got.0, got.1, got2)}) });
                        }
                    }
                    Err(m) => report.violation(Violation { signature: "C12|wrath-client|two-step|panic".into(), scenario: "split-between-steps".into(), replay: json!({"key": hex(&key), "headers_before": before, "between_the_steps": what}), detail: json!({"message": format!("panicked: {m}")}) }),
                }
            }
        }
    }
    report.count("wrath_two_step_split_clone_cases", cases);
    report.require("wrath_two_step_split_clone_cases");
}

trait NextHeader {
    fn decrypt_server_header_or_panic(&mut self, wire: &[u8]) -> (u32, u16);
}
impl NextHeader for wow_srp::wrath_header::ClientDecrypterHalf {
    fn decrypt_server_header_or_panic(&mut self, wire: &[u8]) -> (u32, u16) {
        match self.attempt_decrypt_server_header([wire[0], wire[1], wire[2], wire[3]]) {
            wow_srp::wrath_header::WrathServerAttempt::Header(h) => (h.size, h.opcode),
            wow_srp::wrath_header::WrathServerAttempt::AdditionalByteRequired => (u32::MAX, 0),
        }
    }
}

fn wrath_two_connections(report: &Report, tier: Tier, seed: u64) {
    use wow_srp::wrath_header::{ClientDecrypterHalf, ServerEncrypterHalf, WrathServerAttempt};
    #[derive(Clone, PartialEq, Eq, Hash, Debug)]
    struct Conn {
        se: ServerEncrypterHalf,
        cd: ClientDecrypterHalf,
        /// fifth byte still to be supplied, and the header the server sent
        pending: Option<(u8, u32, u16)>,
        n: u32,
    }
    #[derive(Clone, Copy, Debug)]
    enum A {
        Start(usize, bool),
        Complete(usize, bool),
        /// continue on clones of the connection's objects, drop the originals
        CloneConn(usize),
    }
    let k1 = refmodel::ctr_array::<40>(seed, "c12-two-1");
    let k2 = refmodel::ctr_array::<40>(seed, "c12-two-2");
    for (ka, kb) in [(k1, k2), (k1, k1)] {
        let mk = |k: &[u8; 40]| Conn { se: ciphers::wrath_server(k).split().0, cd: ciphers::wrath_client(k).split().1, pending: None, n: 0 };
        let init = (mk(&ka), mk(&kb));
        let mut actions = vec![];
        for c in 0..2 {
            for long in [false, true] {
                actions.push(A::Start(c, long));
            }
            actions.push(A::Complete(c, false));
            actions.push(A::Complete(c, true));
            actions.push(A::CloneConn(c));
        }
        let depth = tier.pick(6usize, 8usize);
        let r = bfs(vec![init], &actions, Some(depth), |s, a| {
            let mut st = s.clone();
            match *a {
                A::Start(c, long) => {
                    let conn = if c == 0 { &mut st.0 } else { &mut st.1 };
                    if conn.pending.is_some() {
                        return Ok(None);
                    }
                    let size: u32 = if long { 0x8000 + conn.n * 0x10101 % 0x7F0000 } else { 13 + conn.n };
                    let opcode: u16 = 0x1EE + conn.n as u16 * 0x101;
                    let wire = conn.se.encrypt_server_header(size, opcode).to_vec();
                    conn.n += 1;
                    match conn.cd.attempt_decrypt_server_header([wire[0], wire[1], wire[2], wire[3]]) {
                        WrathServerAttempt::Header(h) => {
                            if wire.len() != 4 || (h.size, h.opcode) != (size, opcode) {
                                return Err(format!("connection {c}: short header size={size:#x} opcode={opcode:#x} decoded as size={:#x} opcode={:#x}", h.size, h.opcode));
                            }
                        }
                        WrathServerAttempt::AdditionalByteRequired => {
                            if wire.len() != 5 {
                                return Err(format!("connection {c}: a 4-byte header asks for a fifth byte"));
                            }
                            conn.pending = Some((wire[4], size, opcode));
                        }
                    }
                }
                A::CloneConn(c) => {
                    let conn = if c == 0 { &mut st.0 } else { &mut st.1 };
                    conn.cd = conn.cd.clone();
                    conn.se = conn.se.clone();
                }
                A::Complete(c, other_thread) => {
                    let conn = if c == 0 { &mut st.0 } else { &mut st.1 };
                    let (byte, size, opcode) = match conn.pending.take() {
                        Some(p) => p,
                        None => return Ok(None),
                    };
                    let h = if other_thread {
                        // the half is moved to another thread between the attempt and the fifth byte
                        let mut moved = conn.cd.clone();
                        let (h, back) = std::thread::scope(|sc| sc.spawn(move || { let h = moved.decrypt_large_server_header(byte); (h, moved) }).join().unwrap());
                        conn.cd = back;
                        h
                    } else {
                        conn.cd.decrypt_large_server_header(byte)
                    };
                    if (h.size, h.opcode) != (size, opcode) {
                        return Err(format!("connection {c}{}: long header size={size:#x} opcode={opcode:#x} completed as size={:#x} opcode={:#x}", if other_thread { " (completed on another thread)" } else { "" }, h.size, h.opcode));
                    }
                }
            }
            Ok(Some(st))
        });
        report.count("states", r.states);
        report.count("transitions", r.transitions);
        report.count("two_connection_states", r.states);
        if let Some((p, m)) = r.violation {
            report.violation(Violation {
                signature: "C12|wrath-client|two-connections|header-state-leaks-between-objects-or-threads".into(),
                scenario: "wrath::two-connections".into(),
                replay: json!({"key_a": hex(&ka), "key_b": hex(&kb), "actions": p.iter().map(|a| format!("{a:?}")).collect::<Vec<_>>()}),
                detail: json!({ "message": m }),
            });
        }
    }
}

/// Premise scan (never a verdict): no `static`, no interior mutability, no unsafe in the header modules.
fn premise_scan(report: &Report) {
    let mut findings = vec![];
    let mut files = 0;
    let src = mc::report::repo_root().join("src");
    for dir in ["vanilla_header", "tbc_header", "wrath_header", "wrath_header/inner_crypto"] {
        if let Ok(rd) = std::fs::read_dir(src.join(dir)) {
            for e in rd.flatten() {
                let p = e.path();
                if p.extension().map_or(false, |x| x == "rs") {
                    files += 1;
                    if let Ok(t) = std::fs::read_to_string(&p) {
                        for (i, l) in t.lines().enumerate() {
                            let lt = l.trim_start();
                            if lt.starts_with("//") {
                                continue;
                            }
                            for pat in ["static ", "thread_local!", "Cell<", "RefCell<", "Mutex<", "Atomic", "unsafe ", "lazy_static", "OnceLock", "OnceCell"] {
                                if lt.contains(pat) && !lt.contains("'static") {
                                    findings.push(format!("{}:{}: {}", p.display(), i + 1, pat.trim()));
                                }
                            }
                        }
                    }
                }
            }
        }
    }
    if let Ok(t) = std::fs::read_to_string(src.join("rc4.rs")) {
        files += 1;
        for (i, l) in t.lines().enumerate() {
            for pat in ["static ", "Cell<", "Atomic", "unsafe "] {
                if l.contains(pat) && !l.trim_start().starts_with("//") {
                    findings.push(format!("src/rc4.rs:{}: {}", i + 1, pat.trim()));
                }
            }
        }
    }
    report.set("premise_scan", json!({"files_scanned": files, "shared_state_constructs_found": findings, "meaning": "status of the ownership premise behind the schedules argument; informational, the differential exploration decides"}));
}

pub fn run(tier: Tier, seed: u64) -> i32 {
    let report = Report::new("C12", tier, seed, "model_checking");
    // position-dependent keys first (the counter-mode key, the ramp ...); the constant keys 00.. / FF.., under which the key
    // position is invisible, come last
    let keys: Vec<[u8; 40]> = key40s(seed, 1).into_iter().rev().collect();
    let nk = tier.pick(2usize, 4usize);
    // shallow & wide, then deep & narrow
    let plans: Vec<(Vec<usize>, Vec<u8>, usize)> = if tier == Tier::Thorough {
        vec![(vec![1, 4, 6], vec![0, 1], 7), (vec![1, 6], vec![0], 16), (vec![0, 6, 300], vec![0], 6)]
    } else {
        // third plan: zero-length and long (300-byte) calls in either direction between the structural actions
        vec![(vec![1, 4, 6], vec![0, 1], 5), (vec![1, 6], vec![0], 12), (vec![0, 6, 300], vec![0], 4)]
    };
    let jobs: Vec<(usize, usize)> = (0..nk).flat_map(|k| (0..plans.len()).map(move |p| (k, p))).collect();
    jobs.par_iter().for_each(|&(ki, pi)| {
        let key = &keys[ki];
        let (lens, pats, depth) = &plans[pi];
        explore_mod::<VanillaM>(&report, key, lens, pats, *depth);
        explore_mod::<TbcM>(&report, key, lens, pats, *depth);
        explore_mod::<WrathClientM>(&report, key, lens, pats, *depth);
        explore_mod::<WrathServerM>(&report, key, lens, pats, *depth);
    });
    unsplit_pairs(&report, tier, seed);
    wrath_two_connections(&report, tier, seed);
    wrath_split_between_the_two_steps(&report, seed);
    premise_scan(&report);

    // E4: loom schedules (separate binary; its JSON summary is merged here)
    let loom_bin_path = mc::report::build_root().join("default/release/loomcheck");
    let loom_bin = loom_bin_path.to_str().unwrap();
    match std::process::Command::new(loom_bin).arg(tier.name()).output() {
        Ok(out) => {
            let text = String::from_utf8_lossy(&out.stdout).to_string();
            let last = text.lines().rev().find(|l| l.starts_with('{')).unwrap_or("{}");
            let v: serde_json::Value = serde_json::from_str(last).unwrap_or(json!({}));
            if !out.status.success() || v["ok"] != json!(true) {
                if v["violation"].is_string() {
                    report.violation(Violation {
                        signature: format!("C12|loom|{}", v["harness"].as_str().unwrap_or("?")),
                        scenario: "loom::two-threads".into(),
                        replay: json!({"harness": v["harness"], "how": format!("run {loom_bin}")}),
                        detail: json!({"message": v["violation"], "stderr_tail": String::from_utf8_lossy(&out.stderr).lines().rev().take(5).collect::<Vec<_>>()}),
                    });
                } else {
                    mc::util::machinery_error(&format!("loomcheck did not complete: status {:?}: {}", out.status.code(), String::from_utf8_lossy(&out.stderr).lines().rev().take(8).collect::<Vec<_>>().join(" | ")));
                }
            } else {
                report.count("loom_schedules", v["schedules"].as_u64().unwrap_or(0));
                report.set("loom", v.clone());
                report.require("loom_schedules");
            }
        }
        Err(e) => mc::util::machinery_error(&format!("cannot run {loom_bin}: {e}")),
    }

    let t = report.get("transitions");
    report.set("traces_validated_against_impl", json!(t));
    report.set("evaluations", json!(t + report.get("unsplit_pair_cases") + report.get("loom_schedules")));
    report.set("distinct_nontrivial", json!(report.get("states")));
    report.set("rule", json!("BFS over (connection under test in combined or split mode, separate send-only object, separate receive-only object, reference stream states) with actions {encrypt chunk, decrypt chunk, split, clone, unsplit}; every transition compares the connection's bytes with the separate object and the reference model; distinct_nontrivial = distinct states"));
    report.sample("interleaving", json!({"module": "vanilla", "actions": ["Enc(6)", "Split", "Dec(1)", "Enc(1)", "Unsplit", "Dec(6)", "CloneContinue", "Enc(4)"], "oracle": "per direction bytes == separate single-direction object == reference recurrence"}));
    report.sample("unsplit", json!({"keys": "k and k with byte 39 incremented by 1", "expected": "is_pair_of false both ways, unsplit Err"}));
    report.set("exhaustive", json!(false));
    report.cap_hit(&format!("interleaving depth bounded: {:?}", plans.iter().map(|p| p.2).collect::<Vec<_>>()));
    report.space("all interleavings of {encrypt/decrypt chunks of length 1,4,6 x 2 contents, split, clone, unsplit} up to the stated depths for vanilla, tbc, wrath-client, wrath-server with exact dedup");
    report.space("two Wrath client connections (different and identical keys) used alternately through the typed header API, with the half optionally moved to another thread between the 4-byte attempt and the fifth byte, BFS with exact dedup");
    report.space("Vanilla unsplit: all 40x255 one-byte key differences, all position pairs x 3 two-byte differences, identical keys at 4..64 (enc,dec) stream positions, unrelated keys");
    report.assume("thread schedules: the halves own all their state (no statics/interior mutability - see premise_scan), so a real schedule is equivalent to a call-level interleaving; loom explores all schedules of 2 threads x 3 operations (five harnesses) and 3 threads x 2 operations (one harness) with scheduling points between library calls");
    report.finish()
}
