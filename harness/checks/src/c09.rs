//! C09: Wrath header streams = RC4-drop1024 under direction-specific HMAC keys.
//! Depth-bounded path search (RC4's state space cannot be closed) + complete chunking trees.

use crate::c07_c08::compositions;
use crate::ciphers;
use crate::common::*;
use mc::report::{Report, Tier, Violation};
use rayon::prelude::*;
use refmodel::cipher::{wrath_stream, Dir};
use serde_json::json;
use std::sync::atomic::{AtomicU64, Ordering};

fn viol(report: &Report, scenario: &str, class: &str, key: &[u8; 40], replay: serde_json::Value, msg: String) {
    report.violation(Violation {
        signature: format!("C09|{scenario}|{class}"),
        scenario: format!("wrath::{scenario}"),
        replay: json!({"session_key": hex(key), "case": replay}),
        detail: json!({ "message": msg }),
    });
}

pub fn run(tier: Tier, seed: u64) -> i32 {
    let report = Report::new("C09", tier, seed, "model_checking");
    let mut keys = key40s(seed, tier.pick(5, 40));
    for j in 0..tier.pick(8usize, 213usize) {
        keys.push(rotating_key((j * 37) as u8));
    }
    let n_deep = tier.pick(4usize, 8usize);
    let depth_deep: usize = tier.pick(1 << 21, 1 << 26);
    let depth_shallow: usize = tier.pick(70_000, 1 << 21);
    let states = AtomicU64::new(0);
    let trans = AtomicU64::new(0);
    let spec_mut = [AtomicU64::new(0), AtomicU64::new(0), AtomicU64::new(0)];

    keys.par_iter().enumerate().for_each(|(ki, key)| {
        let depth = if ki < n_deep { depth_deep } else { depth_shallow };
        let (mut ce, mut cd) = ciphers::wrath_client(key).split();
        let (mut se, mut sd) = ciphers::wrath_server(key).split();
        let mut r_c2s = wrath_stream(key, Dir::ClientToServer);
        let mut r_s2c = wrath_stream(key, Dir::ServerToClient);
        // first bytes of wrong specifications
        {
            let ks_c2s: Vec<u8> = { let mut r = r_c2s.clone(); (0..32).map(|_| r.next_byte()).collect() };
            let ks_s2c: Vec<u8> = { let mut r = r_s2c.clone(); (0..32).map(|_| r.next_byte()).collect() };
            let mut probe = [0u8; 32];
            ce.clone().encrypt(&mut probe);
            // (a) swapped constants
            if probe[..] != ks_s2c[..] { spec_mut[0].fetch_add(1, Ordering::Relaxed); }
            // (b) drop 1000 instead of 1024
            let mut r = refmodel::hash::Rc4::new(&refmodel::hash::hmac_sha1(&refmodel::cipher::WRATH_C2S, key));
            r.skip(1000);
            let w: Vec<u8> = (0..32).map(|_| r.next_byte()).collect();
            if probe[..] != w[..] { spec_mut[1].fetch_add(1, Ordering::Relaxed); }
            // (c) raw session key as RC4 key (no HMAC)
            let mut r = refmodel::hash::Rc4::new(key);
            r.skip(1024);
            let w: Vec<u8> = (0..32).map(|_| r.next_byte()).collect();
            if probe[..] != w[..] { spec_mut[2].fetch_add(1, Ordering::Relaxed); }
            if ks_c2s == ks_s2c {
                viol(&report, "directions", "shared-keystream", key, json!({}), "reference keystreams of the two directions coincide (harness problem?)".into());
            }
        }
        // path search: offsets 0..depth; plaintext = counter-mode bytes; call sizes cycle through an alphabet
        let sizes = [1usize, 1, 2, 3, 4, 5, 6, 1, 255, 256, 257, 1, 1024, 4, 5, 6];
        let mut off = 0usize;
        let mut si = 0usize;
        let plain_all = refmodel::ctr_bytes(seed, "c09-plain", 4096);
        let mut first_diff_dirs = false;
        while off < depth {
            let l = sizes[si % sizes.len()].min(depth - off);
            si += 1;
            let plain: Vec<u8> = (0..l).map(|i| plain_all[(off + i) % 4096]).collect();
            // client -> server
            let mut buf = plain.clone();
            ce.encrypt(&mut buf);
            let mut want = plain.clone();
            r_c2s.apply(&mut want);
            if buf != want {
                viol(&report, "client-encrypter", "keystream", key, json!({"offset": off, "len": l}), format!("ciphertext {} != reference {}", hex(&buf[..l.min(16)]), hex(&want[..l.min(16)])));
                return;
            }
            let wire_c2s = buf.clone();
            sd.decrypt(&mut buf);
            if buf != plain {
                viol(&report, "server-decrypter", "roundtrip", key, json!({"offset": off, "len": l}), "server did not recover the client's plaintext".into());
                return;
            }
            // server -> client
            let mut buf = plain.clone();
            se.encrypt(&mut buf);
            let mut want = plain.clone();
            r_s2c.apply(&mut want);
            if buf != want {
                viol(&report, "server-encrypter", "keystream", key, json!({"offset": off, "len": l}), format!("ciphertext {} != reference {}", hex(&buf[..l.min(16)]), hex(&want[..l.min(16)])));
                return;
            }
            if buf != wire_c2s {
                first_diff_dirs = true;
            }
            cd.decrypt(&mut buf);
            if buf != plain {
                viol(&report, "client-decrypter", "roundtrip", key, json!({"offset": off, "len": l}), "client did not recover the server's plaintext".into());
                return;
            }
            off += l;
        }
        if !first_diff_dirs {
            viol(&report, "directions", "shared-keystream", key, json!({"depth": depth}), "both directions produced identical ciphertext for the whole explored stream".into());
        }
        states.fetch_add(4 * (depth as u64 + 1), Ordering::Relaxed);
        trans.fetch_add(4 * depth as u64, Ordering::Relaxed);
        report.count(if ki < n_deep { "keys_deep" } else { "keys_shallow" }, 1);
        if report.wants_sample("key") {
            let mut r = wrath_stream(key, Dir::ClientToServer);
            let ks: Vec<u8> = (0..8).map(|_| r.next_byte()).collect();
            report.sample("key", json!({"session_key": hex(key), "depth_bytes": depth, "c2s_keystream_first8": hex(&ks)}));
        }
    });

    // chunking trees at wrap offsets
    let mut offsets: Vec<usize> = vec![0];
    offsets.extend(250..=262);
    offsets.extend(1020..=1030);
    if tier == Tier::Thorough {
        offsets.extend(65_530..=65_542);
    } else {
        offsets.extend([65_535, 65_536, 65_537]);
    }
    let comps = compositions(10);
    let call_sizes: &[usize] = &[0, 1, 2, 3, 4, 5, 6, 255, 256, 257, 1024, 65_535, 65_536, 65_537];
    let chunk_cases = AtomicU64::new(0);
    let ckeys: Vec<[u8; 40]> = keys.iter().take(tier.pick(2, 4)).cloned().collect();
    ckeys.par_iter().for_each(|key| {
        offsets.par_iter().for_each(|&start| {
            let (mut ce, _) = ciphers::wrath_client(key).split();
            let (_, mut sd) = ciphers::wrath_server(key).split();
            let (mut se, _) = ciphers::wrath_server(key).split();
            let (_, mut cd) = ciphers::wrath_client(key).split();
            let mut skip = vec![0u8; start];
            ce.encrypt(&mut skip);
            let mut skip = vec![0u8; start];
            sd.decrypt(&mut skip);
            let mut skip = vec![0u8; start];
            se.encrypt(&mut skip);
            let mut skip = vec![0u8; start];
            cd.decrypt(&mut skip);
            let data = refmodel::ctr_bytes(seed, &format!("c09-chunk-{start}"), 10);
            let mut n = 0u64;
            macro_rules! tree {
                ($obj:expr, $op:ident, $name:expr, $dir:expr) => {{
                    let mut r = wrath_stream(key, $dir);
                    r.skip(start);
                    let mut want = data.clone();
                    r.apply(&mut want);
                    // byte-wise run is the yardstick
                    let mut bytewise = $obj.clone();
                    let mut bw = data.clone();
                    for x in bw.iter_mut() {
                        let mut one = [*x];
                        bytewise.$op(&mut one);
                        *x = one[0];
                    }
                    if bw != want {
                        viol(&report, $name, "chunk-bytewise", key, json!({"start": start, "data": hex(&data)}), format!("bytewise {} != reference {}", hex(&bw), hex(&want)));
                    }
                    for comp in &comps {
                        for with_empty in [false, true] {
                            let mut o = $obj.clone();
                            let mut buf = data.clone();
                            let mut off = 0;
                            for &l in comp {
                                if with_empty {
                                    o.$op(&mut []);
                                }
                                o.$op(&mut buf[off..off + l]);
                                off += l;
                            }
                            if buf != want || !(o == bytewise || crate::ciphers::same_future(&o, &bytewise, 300, |x, d| x.$op(d))) {
                                viol(&report, $name, "chunk-composition", key, json!({"start": start, "data": hex(&data), "calls": comp, "empty_calls": with_empty}),
                                    format!("got {} want {} object_equal_to_bytewise={}", hex(&buf), hex(&want), o == bytewise));
                            }
                            n += 1;
                        }
                    }
                }};
            }
            tree!(ce, encrypt, "client-encrypter", Dir::ClientToServer);
            tree!(sd, decrypt, "server-decrypter", Dir::ClientToServer);
            tree!(se, encrypt, "server-encrypter", Dir::ServerToClient);
            tree!(cd, decrypt, "client-decrypter", Dir::ServerToClient);
            // every call size 0..=300 (and a few larger) for all four halves against the reference, followed by 32 more bytes
            let mut all_sizes: Vec<usize> = (0..=300).collect();
            all_sizes.extend([511, 512, 513, 767, 768, 769, 1000, 1023, 1025, 4096]);
            for &l in &all_sizes {
                let p: Vec<u8> = (0..l + 32).map(|j| (j as u8).wrapping_mul(41) ^ (l as u8)).collect();
                macro_rules! one_call {
                    ($obj:expr, $op:ident, $name:expr, $dir:expr) => {{
                        let mut o = $obj.clone();
                        let mut b = p.clone();
                        o.$op(&mut b[..l]);
                        o.$op(&mut b[l..]);
                        let mut r = wrath_stream(key, $dir);
                        r.skip(start);
                        let mut want = p.clone();
                        r.apply(&mut want);
                        if b != want {
                            viol(&report, $name, "call-length", key, json!({"start": start, "len": l}), format!("a single call of {l} bytes (or the 32 bytes after it) disagrees with the reference keystream"));
                        }
                        n += 1;
                    }};
                }
                one_call!(ce, encrypt, "client-encrypter", Dir::ClientToServer);
                one_call!(sd, decrypt, "server-decrypter", Dir::ClientToServer);
                one_call!(se, encrypt, "server-encrypter", Dir::ServerToClient);
                one_call!(cd, decrypt, "client-decrypter", Dir::ServerToClient);
            }
            // call-size alphabet: one call of L bytes vs reference, then object equality with a run in 1-KiB pieces
            for &l in call_sizes {
                let p = refmodel::ctr_bytes(seed, "c09-size", l);
                let mut o1 = ce.clone();
                let mut b1 = p.clone();
                o1.encrypt(&mut b1);
                let mut o2 = ce.clone();
                let mut b2 = p.clone();
                for c in b2.chunks_mut(1000) {
                    o2.encrypt(c);
                }
                let mut r = wrath_stream(key, Dir::ClientToServer);
                r.skip(start);
                let mut want = p.clone();
                r.apply(&mut want);
                if b1 != want || b2 != want || !(o1 == o2 || crate::ciphers::same_future(&o1, &o2, 300, |x, d| x.encrypt(d))) {
                    viol(&report, "client-encrypter", "call-size", key, json!({"start": start, "len": l}), format!("one call of {l} bytes disagrees with reference or with a chunked run (objects equal: {})", o1 == o2));
                }
                n += 1;
            }
            chunk_cases.fetch_add(n, Ordering::Relaxed);
        });
    });

    // combined (unsplit) objects, with a clone taken mid-stream that must continue exactly where the original is
    let comb_cases = AtomicU64::new(0);
    keys.par_iter().take(tier.pick(8, 64)).for_each(|key| {
        let mut cc = ciphers::wrath_client(key);
        let mut sc = ciphers::wrath_server(key);
        let mut r_c2s = wrath_stream(key, Dir::ClientToServer);
        let mut r_s2c = wrath_stream(key, Dir::ServerToClient);
        let total = tier.pick(70_000usize, 300_000usize);
        let mut off = 0usize;
        let mut step = 0usize;
        while off < total {
            let l = [1usize, 6, 4, 5, 255, 1024, 3, 4096][step % 8].min(total - off);
            step += 1;
            if step % 5 == 0 {
                // continue on clones, drop the originals
                cc = cc.clone();
                sc = sc.clone();
            }
            let plain: Vec<u8> = (0..l).map(|i| ((off + i) as u8).wrapping_mul(7)).collect();
            let mut a = plain.clone();
            cc.encrypt(&mut a);
            let mut want = plain.clone();
            r_c2s.apply(&mut want);
            let mut b = a.clone();
            sc.decrypt(&mut b);
            let mut c = plain.clone();
            sc.encrypt(&mut c);
            let mut want2 = plain.clone();
            r_s2c.apply(&mut want2);
            let mut d = c.clone();
            cc.decrypt(&mut d);
            if a != want || b != plain || c != want2 || d != plain {
                viol(&report, "combined-objects", "keystream", key, json!({"offset": off, "len": l, "after_clone_steps": step / 5}), "combined ClientCrypto/ServerCrypto (with clones taken mid-stream) disagree with the reference keystream or do not round-trip".into());
                return;
            }
            off += l;
        }
        comb_cases.fetch_add(4 * total as u64, Ordering::Relaxed);
    });
    states.fetch_add(comb_cases.load(Ordering::Relaxed), Ordering::Relaxed);
    trans.fetch_add(comb_cases.load(Ordering::Relaxed), Ordering::Relaxed);
    report.count("combined_object_stream_bytes", comb_cases.load(Ordering::Relaxed));

    // thorough: one connection far beyond 2^32 bytes per direction (any 8/16/24/32-bit byte counter would have wrapped)
    if tier == Tier::Thorough {
        let key = &keys[3];
        let dirs: Vec<u8> = vec![0, 1];
        dirs.par_iter().for_each(|&dir| {
            let total: u64 = (1u64 << 32) + (1 << 20);
            let block = 1usize << 20;
            let zeros = vec![0u8; block];
            let mut done = 0u64;
            if dir == 0 {
                let (mut ce, _) = ciphers::wrath_client(key).split();
                let (_, mut sd) = ciphers::wrath_server(key).split();
                let mut r = wrath_stream(key, Dir::ClientToServer);
                while done < total {
                    let mut a = zeros.clone();
                    ce.encrypt(&mut a);
                    let mut w = zeros.clone();
                    r.apply(&mut w);
                    let mut b = a.clone();
                    sd.decrypt(&mut b);
                    if a != w || b != zeros {
                        viol(&report, "very-long-stream", "keystream", key, json!({"direction": "client->server", "block_start": done}), "keystream or round trip wrong beyond the explored depth".into());
                        return;
                    }
                    done += block as u64;
                }
            } else {
                let (mut se, _) = ciphers::wrath_server(key).split();
                let (_, mut cd) = ciphers::wrath_client(key).split();
                let mut r = wrath_stream(key, Dir::ServerToClient);
                while done < total {
                    let mut a = zeros.clone();
                    se.encrypt(&mut a);
                    let mut w = zeros.clone();
                    r.apply(&mut w);
                    let mut b = a.clone();
                    cd.decrypt(&mut b);
                    if a != w || b != zeros {
                        viol(&report, "very-long-stream", "keystream", key, json!({"direction": "server->client", "block_start": done}), "keystream or round trip wrong beyond the explored depth".into());
                        return;
                    }
                    done += block as u64;
                }
            }
            states.fetch_add(2 * total, Ordering::Relaxed);
            trans.fetch_add(2 * total, Ordering::Relaxed);
        });
        report.set("very_long_stream_bytes_per_direction", json!((1u64 << 32) + (1 << 20)));
    }
    let st = states.load(Ordering::Relaxed);
    let tr = trans.load(Ordering::Relaxed);
    report.count("states", st);
    report.count("transitions", tr);
    report.count("chunk_cases", chunk_cases.load(Ordering::Relaxed));
    report.set("traces_validated_against_impl", json!(tr));
    report.set("evaluations", json!(tr + chunk_cases.load(Ordering::Relaxed)));
    report.set("distinct_nontrivial", json!(st));
    report.set("rule", json!("per key and half: the single keystream path offset 0..depth is walked on the real object with varying call sizes and compared byte for byte with the reference RC4-drop1024 (HMAC-SHA1 keyed); a state is (half, stream offset); distinct_nontrivial = distinct (key, half, offset) states visited"));
    report.set("exhaustive", json!(false));
    report.set("max_depth_bytes", json!(if tier == Tier::Thorough { (1u64 << 32) + (1 << 20) } else { depth_deep as u64 }));
    report.cap_hit(&format!("stream depth bounded: {} bytes for {} keys, {} bytes for the rest (RC4 state space 256!*2^16 cannot be closed)", depth_deep, n_deep, depth_shallow));
    for (i, name) in ["swapped-direction-constants", "drop-1000", "no-hmac"].iter().enumerate() {
        let d = spec_mut[i].load(Ordering::Relaxed);
        report.set(&format!("spec_mutant_{name}_disagreements"), json!(d));
        if d == 0 && report.violation_count() == 0 {
            mc::util::machinery_error(&format!("C09: exploration cannot distinguish the implementation from wrong specification '{name}'"));
        }
    }
    report.space(&format!("{} session keys; all four halves; client-encrypter<->server-decrypter and server-encrypter<->client-decrypter round trip at every explored offset", keys.len()));
    report.space("chunking: all 512 compositions (with/without empty calls) of a 10-byte stream at start offsets {0, 250..262, 1020..1030, 65530..65542 (thorough)} for all four halves, object equality (256-byte permutation + counters) with the byte-wise run; call sizes {0..6,255,256,257,1024,65535,65536,65537}");
    report.assume("depth-bounded: nothing is claimed beyond the explored stream depth or for session keys outside the alphabet");
    // ---- a second connection on the same thread whose session key looks like the first one's (words swapped, cancelling
    //      changes): its four streams must be those of ITS key ----
    {
        let base = keys[keys.len() / 2];
        let mut n_pairs = 0u64;
        for k2 in crate::c07_c08::colliding_keys(&base) {
            let (mut ce1, _) = ciphers::wrath_client(&base).split();
            let (mut se1, _) = ciphers::wrath_server(&base).split();
            ce1.encrypt(&mut [0u8; 16]);
            se1.encrypt(&mut [0u8; 16]);
            let (mut ce, mut cd) = ciphers::wrath_client(&k2).split();
            let (mut se, mut sd) = ciphers::wrath_server(&k2).split();
            let mut c2s = wrath_stream(&k2, Dir::ClientToServer);
            let mut s2c = wrath_stream(&k2, Dir::ServerToClient);
            let (mut a, mut b, mut c, mut d) = ([0u8; 40], [0u8; 40], [0u8; 40], [0u8; 40]);
            ce.encrypt(&mut a);
            sd.decrypt(&mut b);
            se.encrypt(&mut c);
            cd.decrypt(&mut d);
            let mut w1 = [0u8; 40];
            c2s.apply(&mut w1);
            let mut w2 = [0u8; 40];
            s2c.apply(&mut w2);
            n_pairs += 1;
            if a != w1 || b != w1 || c != w2 || d != w2 {
                viol(&report, "second-connection-on-the-thread", "keystream", &k2, json!({"first_connection_key": hex(&base)}), "a connection created after one with a look-alike session key does not produce the keystreams of ITS key".into());
                break;
            }
        }
        report.count("look_alike_key_pairs", n_pairs);
    }
    // ---- the header entry points consume the same two keystreams: a long walk of headers through every entry point ----
    // (typed, two-step, reader whole / one byte per call, writers), alternating 4- and 5-byte server headers so that the
    // single-byte step of a large header lands on every keystream position modulo 256
    {
        use std::io::Cursor;
        use wow_srp::wrath_header::WrathServerAttempt;
        struct OneByOne<'a>(&'a [u8], usize);
        impl std::io::Read for OneByOne<'_> {
            fn read(&mut self, buf: &mut [u8]) -> std::io::Result<usize> {
                if buf.is_empty() || self.1 >= self.0.len() {
                    return Ok(0);
                }
                buf[0] = self.0[self.1];
                self.1 += 1;
                Ok(1)
            }
        }
        struct Trickle(Vec<u8>);
        impl std::io::Write for Trickle {
            fn write(&mut self, b: &[u8]) -> std::io::Result<usize> {
                if b.is_empty() {
                    return Ok(0);
                }
                self.0.push(b[0]);
                Ok(1)
            }
            fn flush(&mut self) -> std::io::Result<()> {
                Ok(())
            }
        }
        let n_headers = tier.pick(1600usize, 20_000usize);
        let walked = AtomicU64::new(0);
        keys.par_iter().take(tier.pick(4, 16)).for_each(|key| {
            let (mut ce, mut cd) = ciphers::wrath_client(key).split();
            let (mut se, mut sd) = ciphers::wrath_server(key).split();
            let mut r_c2s = wrath_stream(key, Dir::ClientToServer);
            let mut r_s2c = wrath_stream(key, Dir::ServerToClient);
            for i in 0..n_headers {
                // server -> client
                let size: u32 = if i % 16 == 5 {
                    [0x7FFFu32, 0x8000, 0x8001, 0x7F_FFFF, 0, 1, 0xFFFF, 0x1_0000][(i / 16) % 8]
                } else if i % 3 == 1 {
                    0x8000 + (i as u32 * 7919) % 0x7F_0000
                } else {
                    (i as u32 * 31) % 0x8000
                };
                let opcode: u16 = (i as u16).wrapping_mul(257);
                let mut want = refmodel::cipher::wrath_server_header_plain(size, opcode);
                r_s2c.apply(&mut want);
                let wire = match i % 2 {
                    0 => mc::util::catch(|| se.encrypt_server_header(size, opcode).to_vec()),
                    _ => mc::util::catch(|| { let mut t = Trickle(vec![]); se.write_encrypted_server_header(&mut t, size, opcode).map(|_| t.0) }.unwrap_or_default()),
                };
                if wire.as_ref().ok() != Some(&want) {
                    viol(&report, "header-walk", "server-header-bytes", key, json!({"header_index": i, "size": size, "opcode": opcode}), format!("server header #{i} (size {size:#x}, opcode {opcode:#x}) goes out as {:?}, the keystream over the documented layout gives {}", wire.map(|w| hex(&w)), hex(&want)));
                    return;
                }
                let got = mc::util::catch(|| match i % 4 {
                    0 | 1 => match cd.attempt_decrypt_server_header([want[0], want[1], want[2], want[3]]) {
                        WrathServerAttempt::Header(h) => Some((h.size, h.opcode)),
                        WrathServerAttempt::AdditionalByteRequired => {
                            if want.len() == 5 {
                                // every other time the half is replaced by its clone between the two steps
                                if i % 8 >= 4 {
                                    cd = cd.clone();
                                }
                                let h = cd.decrypt_large_server_header(want[4]);
                                Some((h.size, h.opcode))
                            } else {
                                None
                            }
                        }
                    },
                    2 => cd.read_and_decrypt_server_header(Cursor::new(&want[..])).ok().map(|h| (h.size, h.opcode)),
                    _ => cd.read_and_decrypt_server_header(OneByOne(&want[..], 0)).ok().map(|h| (h.size, h.opcode)),
                });
                if got != Ok(Some((size, opcode))) {
                    viol(&report, "header-walk", "server-header-decode", key, json!({"header_index": i, "size": size, "opcode": opcode, "entry_point": i % 4}), format!("server header #{i} (size {size:#x}, opcode {opcode:#x}, {} bytes) decodes as {got:?}", want.len()));
                    return;
                }
                // client -> server
                let csize: u16 = (i as u16).wrapping_mul(40_503);
                let cop: u32 = (i as u32).wrapping_mul(2_654_435_761);
                let mut cwant = refmodel::cipher::client_header_plain(csize, cop).to_vec();
                r_c2s.apply(&mut cwant);
                let cwire = match i % 2 {
                    1 => mc::util::catch(|| ce.encrypt_client_header(csize, cop).to_vec()),
                    _ => mc::util::catch(|| { let mut t = Trickle(vec![]); ce.write_encrypted_client_header(&mut t, csize, cop).map(|_| t.0) }.unwrap_or_default()),
                };
                if cwire.as_ref().ok() != Some(&cwant) {
                    viol(&report, "header-walk", "client-header-bytes", key, json!({"header_index": i, "size": csize, "opcode": cop}), format!("client header #{i} goes out as {:?}, the keystream over the documented layout gives {}", cwire.map(|w| hex(&w)), hex(&cwant)));
                    return;
                }
                let cgot = mc::util::catch(|| match i % 3 {
                    0 => { let h = sd.decrypt_client_header([cwant[0], cwant[1], cwant[2], cwant[3], cwant[4], cwant[5]]); Some((h.size, h.opcode)) }
                    1 => sd.read_and_decrypt_client_header(Cursor::new(&cwant[..])).ok().map(|h| (h.size, h.opcode)),
                    _ => sd.read_and_decrypt_client_header(OneByOne(&cwant[..], 0)).ok().map(|h| (h.size, h.opcode)),
                });
                if cgot != Ok(Some((csize, cop))) {
                    viol(&report, "header-walk", "client-header-decode", key, json!({"header_index": i, "size": csize, "opcode": cop, "entry_point": i % 3}), format!("client header #{i} decodes as {cgot:?}"));
                    return;
                }
                walked.fetch_add(2, Ordering::Relaxed);
            }
        });
        report.count("headers_walked_through_all_entry_points", walked.load(Ordering::Relaxed));
        report.require("headers_walked_through_all_entry_points");
    }
    report.finish()
}
