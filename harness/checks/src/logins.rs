//! C01 and C03: the complete login exchange through the public typestate API under a scripted RNG.
//! C01's oracle is self-consistency (both sides accept, identical K, storage round trip is
//! invisible); C03's oracle is byte-exact agreement with the independent reference model.

use crate::common::*;
use mc::report::{Report, Tier, Violation};
use rayon::prelude::*;
use refmodel::srp;
use serde_json::json;
use std::sync::atomic::{AtomicU64, Ordering};

#[derive(Clone, Copy, PartialEq, Eq)]
pub enum Oracle {
    C01,
    C03,
}

fn pid(o: Oracle) -> &'static str {
    match o {
        Oracle::C01 => "C01",
        Oracle::C03 => "C03",
    }
}

#[derive(Clone)]
pub struct Case {
    pub layer: &'static str,
    pub reg_user: String,
    pub reg_pass: String,
    pub typed_user: String,
    pub typed_pass: String,
    pub salt: [u8; 32],
    pub b: [u8; 32],
    pub a: [u8; 32],
}

impl Case {
    fn input(&self, roundtrip: bool) -> LoginInput<'_> {
        LoginInput {
            reg_user: &self.reg_user,
            reg_pass: &self.reg_pass,
            typed_user: &self.typed_user,
            typed_pass: &self.typed_pass,
            salt: self.salt,
            b: self.b,
            a: self.a,
            storage_roundtrip: roundtrip,
        }
    }
    fn json(&self) -> serde_json::Value {
        json!({"layer": self.layer, "registered": [self.reg_user, self.reg_pass], "typed": [self.typed_user, self.typed_pass], "salt": hex(&self.salt), "b": hex(&self.b), "a": hex(&self.a)})
    }
}

pub struct Classes {
    pub s_low_zero: [AtomicU64; 4],
    pub s_high_zero: [AtomicU64; 3],
    pub pad_a: AtomicU64,
    pub pad_b: AtomicU64,
    pub pad_v: AtomicU64,
    pub base_negative: AtomicU64,
    pub base_nonnegative: AtomicU64,
    pub ref_logins: AtomicU64,
    pub real_logins: AtomicU64,
}
impl Classes {
    pub fn new() -> Self {
        Classes {
            s_low_zero: [AtomicU64::new(0), AtomicU64::new(0), AtomicU64::new(0), AtomicU64::new(0)],
            s_high_zero: [AtomicU64::new(0), AtomicU64::new(0), AtomicU64::new(0)],
            pad_a: AtomicU64::new(0),
            pad_b: AtomicU64::new(0),
            pad_v: AtomicU64::new(0),
            base_negative: AtomicU64::new(0),
            base_nonnegative: AtomicU64::new(0),
            ref_logins: AtomicU64::new(0),
            real_logins: AtomicU64::new(0),
        }
    }
    fn note(&self, l: &srp::Login) {
        self.ref_logins.fetch_add(1, Ordering::Relaxed);
        let low = l.s_server.iter().take_while(|b| **b == 0).count().min(3);
        self.s_low_zero[low].fetch_add(1, Ordering::Relaxed);
        let high = l.s_server.iter().rev().take_while(|b| **b == 0).count().min(2);
        self.s_high_zero[high].fetch_add(1, Ordering::Relaxed);
        if l.a_pub[31] == 0 {
            self.pad_a.fetch_add(1, Ordering::Relaxed);
        }
        if l.b_pub[31] == 0 {
            self.pad_b.fetch_add(1, Ordering::Relaxed);
        }
        if l.v[31] == 0 {
            self.pad_v.fetch_add(1, Ordering::Relaxed);
        }
        if l.base_negative {
            self.base_negative.fetch_add(1, Ordering::Relaxed);
        } else {
            self.base_nonnegative.fetch_add(1, Ordering::Relaxed);
        }
    }
}

fn viol(report: &Report, o: Oracle, class: &str, case: &Case, extra: serde_json::Value, msg: String) {
    report.violation(Violation {
        signature: format!("{}|login|{}|{}", pid(o), case.layer, class),
        scenario: "login-exchange".into(),
        replay: json!({"case": case.json(), "extra": extra}),
        detail: json!({ "message": msg }),
    });
}

/// Runs one case under the given oracle. `with_ref` forces the reference model (for class counting).
pub fn run_case(report: &Report, o: Oracle, cl: &Classes, case: &Case, with_ref: bool, roundtrip_too: bool) {
    // the degenerate exchanges (an own public key congruent 0 mod N, or S = 0) are excluded by the properties
    let direct = real_login(&case.input(false));
    cl.real_logins.fetch_add(1, Ordering::Relaxed);
    let rl = match direct {
        Ok((rl, _s, _c)) => rl,
        Err(f) => {
            let (class, msg) = match &f {
                LoginFail::Panic(stage, m) => (format!("panic-{stage}"), format!("{stage} panicked: {m}")),
                LoginFail::Refused(stage, m) => (format!("refused-{stage}"), format!("honest exchange refused at {stage}: {m}")),
                LoginFail::Rng(m) => mc::util::machinery_error(&format!("login harness does not own the RNG: {m}; case {}", case.json())),
                LoginFail::Redrawn => {
                    report.count("logins_skipped_library_draws_again_for_a_degenerate_value", 1);
                    return;
                }
            };
            // both oracles report an honest exchange that does not complete
            viol(report, o, &class, case, json!({}), msg);
            return;
        }
    };
    // C01: agreement and accessor fidelity
    if o == Oracle::C01 {
        if rl.k_server != rl.k_client {
            viol(report, o, "session-keys-differ", case, json!({}), format!("server K {} != client K {}", hex(&rl.k_server), hex(&rl.k_client)));
            return;
        }
        if rl.salt != case.salt {
            viol(report, o, "salt-accessor", case, json!({}), format!("salt() returned {} but the registration drew {}", hex(&rl.salt), hex(&case.salt)));
            return;
        }
        let un = refmodel::misc::normalize(&case.reg_user).unwrap();
        if rl.username_out.as_bytes() != &un[..] {
            viol(report, o, "username-accessor", case, json!({}), format!("username() returned {:?}", rl.username_out));
            return;
        }
        if roundtrip_too {
            match real_login(&case.input(true)) {
                Ok((r2, _, _)) => {
                    if r2.v != rl.v || r2.b_pub != rl.b_pub || r2.a_pub != rl.a_pub || r2.m1 != rl.m1 || r2.m2 != rl.m2 || r2.k_server != rl.k_server || r2.k_client != rl.k_client || r2.salt != rl.salt {
                        viol(report, o, "storage-roundtrip-changes-exchange", case, json!({}), "the exchange after export -> from_database_values differs from the direct one".into());
                    }
                }
                Err(f) => viol(report, o, "storage-roundtrip-fails", case, json!({}), format!("login after export -> from_database_values failed: {f:?}")),
            }
            cl.real_logins.fetch_add(1, Ordering::Relaxed);
        }
    }
    if o == Oracle::C03 || with_ref {
        let rf = ref_login(&case.input(false));
        cl.note(&rf);
        if rf.k.is_none() {
            return; // S = 0: excluded here, C14's business
        }
        if o == Oracle::C03 {
            let mut bad: Vec<String> = vec![];
            if rl.v != rf.v {
                bad.push(format!("verifier {} != {}", hex(&rl.v), hex(&rf.v)));
            }
            if rl.b_pub != rf.b_pub {
                bad.push(format!("B {} != {}", hex(&rl.b_pub), hex(&rf.b_pub)));
            }
            if rl.a_pub != rf.a_pub {
                bad.push(format!("A {} != {}", hex(&rl.a_pub), hex(&rf.a_pub)));
            }
            if Some(rl.k_server) != rf.k {
                bad.push(format!("server K {} != {}", hex(&rl.k_server), hex(&rf.k.unwrap())));
            }
            if Some(rl.k_client) != rf.k {
                bad.push(format!("client K {} != {}", hex(&rl.k_client), hex(&rf.k.unwrap())));
            }
            if Some(rl.m1) != rf.m1 {
                bad.push(format!("M1 {} != {}", hex(&rl.m1), hex(&rf.m1.unwrap())));
            }
            if Some(rl.m2) != rf.m2 {
                bad.push(format!("M2 {} != {}", hex(&rl.m2), hex(&rf.m2.unwrap())));
            }
            if !bad.is_empty() {
                let first = bad[0].split(' ').next().unwrap_or("value").to_string();
                viol(report, o, &format!("not-byte-exact-{first}"), case, json!({"s_low_zero_bytes": rf.s_server.iter().take_while(|b| **b == 0).count()}), bad.join("; "));
            }
        }
    }
}

fn mk(layer: &'static str, c: (&str, &str), typed: (&str, &str), salt: [u8; 32], b: [u8; 32], a: [u8; 32]) -> Case {
    Case { layer, reg_user: c.0.into(), reg_pass: c.1.into(), typed_user: typed.0.into(), typed_pass: typed.1.into(), salt, b, a }
}

pub fn witnesses_path() -> std::path::PathBuf {
    mc::report::verif_root().join("witnesses").join("login_witnesses.json")
}

/// Stored constructed rare-class logins; each is re-validated by the reference model before use.
pub fn load_witnesses() -> Vec<(String, Case)> {
    let text = match std::fs::read_to_string(witnesses_path()) {
        Ok(t) => t,
        Err(e) => mc::util::machinery_error(&format!("cannot read {}: {e}", witnesses_path().display())),
    };
    let v: serde_json::Value = serde_json::from_str(&text).unwrap_or_else(|e| mc::util::machinery_error(&format!("witness file: {e}")));
    let mut out = vec![];
    for w in v.as_array().unwrap_or(&vec![]) {
        let s = |k: &str| w[k].as_str().unwrap_or_else(|| mc::util::machinery_error("witness field missing")).to_string();
        let case = Case {
            layer: "witness",
            reg_user: s("user"),
            reg_pass: s("pass"),
            typed_user: s("user"),
            typed_pass: s("pass"),
            salt: mc::util::unhex_n::<32>(&s("salt")),
            b: mc::util::unhex_n::<32>(&s("b")),
            a: mc::util::unhex_n::<32>(&s("a")),
        };
        out.push((s("class"), case));
    }
    out
}

/// Does the reference login fall into the named class?
pub fn in_class(class: &str, l: &srp::Login) -> bool {
    let low = l.s_server.iter().take_while(|b| **b == 0).count();
    let high = l.s_server.iter().rev().take_while(|b| **b == 0).count();
    match class {
        "S-low-zero-1" => low == 1,
        "S-low-zero-2" => low == 2,
        "S-low-zero-3" => low == 3,
        // an odd run of low zero bytes followed one byte later by another zero: 00 xx 00 .. (pairwise stripping differs)
        "S-low-00-xx-00" => l.s_server[0] == 0 && l.s_server[1] != 0 && l.s_server[2] == 0,
        "S-low-00-00-00-xx-00" => low == 3 && l.s_server[4] == 0,
        "S-high-zero-1" => high == 1,
        "S-high-zero-2" => high == 2,
        "A-high-zero-1" => l.a_pub[31] == 0 && l.a_pub[30] != 0,
        "A-high-zero-2" => l.a_pub[31] == 0 && l.a_pub[30] == 0,
        "B-high-zero-1" => l.b_pub[31] == 0 && l.b_pub[30] != 0,
        "B-high-zero-2" => l.b_pub[31] == 0 && l.b_pub[30] == 0,
        "v-high-zero-1" => l.v[31] == 0 && l.v[30] != 0,
        "v-high-zero-2" => l.v[31] == 0 && l.v[30] == 0,
        // one 32-bit limb short (an honest login gets there once in 2^31): found by tools in wsearch.rs
        "v-high-zero-4" => l.v[28..].iter().all(|b| *b == 0),
        "A-high-zero-4" => l.a_pub[28..].iter().all(|b| *b == 0),
        "B-high-zero-4" => l.b_pub[28..].iter().all(|b| *b == 0),
        "B-below-2^222" => l.b_pub[28..].iter().all(|b| *b == 0) && l.b_pub[27] >> 6 == 0,
        "B-within-2^222-of-N" => {
            // 3v + g^b lies just below a multiple of N
            let d = srp::n_builtin().sub(&refmodel::big::U::from_le_bytes(&l.b_pub));
            d.bits() <= 222
        }
        "u-high-zero-4" => l.u[16..].iter().all(|b| *b == 0),
        "x-high-zero-4" => l.x[16..].iter().all(|b| *b == 0),
        "u-low-zero-2" => l.u[0] == 0 && l.u[1] == 0,
        "u-high-zero-2" => l.u[19] == 0 && l.u[18] == 0,
        "x-low-zero-2" => l.x[0] == 0 && l.x[1] == 0,
        "x-high-zero-2" => l.x[19] == 0 && l.x[18] == 0,
        "base-negative" => l.base_negative,
        "base-nonnegative" => !l.base_negative,
        _ => false,
    }
}

pub fn layer1_cases(tier: Tier, seed: u64) -> Vec<Case> {
    let full = tier == Tier::Thorough;
    let mut v = vec![];
    let cs = creds(full);
    let ss = salts(seed, full);
    let pks = private_keys(seed, full);
    for c in &cs {
        for s in &ss {
            for b in &pks {
                for a in &pks {
                    v.push(mk("alphabet-product", *c, *c, *s, *b, *a));
                }
            }
        }
    }
    // generated credential families: every length 1..=16 of one letter, digit endings, password containing the
    // username, double spaces, punctuation runs (strings an alphabet of hand-picked pairs would not contain)
    {
        let mut fam: Vec<(String, String)> = vec![];
        for l in 1..=16usize {
            fam.push(("u".repeat(l), "p".repeat(17 - l)));
            fam.push((format!("{}7", "n".repeat(l - 1)), format!("{}9", "w".repeat((l + 4) % 16))));
        }
        for (u, p) in [("bob", "bobbob"), ("bob", "xbobx"), ("a  b", "c  d"), ("  ", "   "), ("x", "x x x x x x x x"), ("Zz9", "Zz9!"), ("tab~", "`til`"), ("....", ",,,,"), ("user", "USER"), ("P", "u:P"), ("u:", "P"), ("0", "0"), ("00", "0"), ("1234567890123456", "1234567890123456"), ("bob ", "correct horse "), (" lead", " lead"), ("both ", " both ")] {
            fam.push((u.to_string(), p.to_string()));
        }
        let step = if full { 1 } else { 3 };
        for (i, (u, p)) in fam.iter().enumerate() {
            if i % step != 0 && !u.contains("  ") && !u.starts_with(' ') && !u.ends_with(' ') {
                continue; // (credentials with blank runs are always kept: normalisation shortcuts show there)
            }
            for (si, s) in ss.iter().enumerate() {
                if !full && si != 1 {
                    continue;
                }
                v.push(Case { layer: "credential-families", reg_user: u.clone(), reg_pass: p.clone(), typed_user: u.to_ascii_uppercase(), typed_pass: p.to_ascii_lowercase(), salt: *s, b: pks[7], a: pks[8] });
            }
        }
    }
    // special private keys on either side and on both: 0, 1, 2, N-1, N, N+1, all ones (shortcuts for "trivial" exponents,
    // keys replaced on one path only)
    {
        let mut special: Vec<[u8; 32]> = vec![[0u8; 32], le32_from_u64(1), le32_from_u64(2), n_plus(-1), n_plus(0), n_plus(1), [0xFF; 32]];
        // keys with all-zero 32- or 64-bit limbs below, between or above their non-zero limbs (limb-wise exponentiation
        // or conversion that skips zero limbs in the wrong place)
        for (from, to) in [(0usize, 8usize), (8, 16), (16, 24), (4, 8), (12, 20), (0, 24), (8, 32), (1, 31)] {
            let mut k = refmodel::ctr_array::<32>(seed, &format!("special-limb-{from}-{to}"));
            k[31] &= 0x7F;
            for x in k[from..to].iter_mut() {
                *x = 0;
            }
            special.push(k);
        }
        let other = { let mut k = refmodel::ctr_array::<32>(seed, "special-other"); k[31] &= 0x7F; k };
        for sp in &special {
            for (ci, c) in [("alice", "password123"), ("A", "A")].iter().enumerate() {
                let salt = ss[ci % ss.len()];
                v.push(Case { layer: "special-private-keys", reg_user: c.0.into(), reg_pass: c.1.into(), typed_user: c.0.to_ascii_uppercase(), typed_pass: c.1.to_ascii_lowercase(), salt, b: *sp, a: other });
                v.push(Case { layer: "special-private-keys", reg_user: c.0.into(), reg_pass: c.1.into(), typed_user: c.0.into(), typed_pass: c.1.into(), salt, b: other, a: *sp });
                v.push(Case { layer: "special-private-keys", reg_user: c.0.into(), reg_pass: c.1.into(), typed_user: c.0.into(), typed_pass: c.1.into(), salt, b: *sp, a: *sp });
            }
        }
    }
    // case variants: the client types any letter case of what was registered
    let (s0, b0, a0) = (ss[1], pks[7], pks[8]);
    for c in &creds(true) {
        for tu in case_variants(c.0) {
            for tp in case_variants(c.1).into_iter().take(if full { 64 } else { 4 }) {
                v.push(Case { layer: "case-variants", reg_user: c.0.into(), reg_pass: c.1.into(), typed_user: tu.clone(), typed_pass: tp, salt: s0, b: b0, a: a0 });
            }
        }
    }
    v
}

pub fn layer2_range_cases(r: u64) -> Vec<Case> {
    let mut v = vec![];
    let salt = [0x5Au8; 32];
    for a in 1..=r {
        for b in 1..=r {
            v.push(mk("small-key-range", ("alice", "password123"), ("alice", "password123"), salt, le32_from_u64(b), le32_from_u64(a)));
        }
    }
    v
}

pub fn layer2_script_case(seed: u64, i: u64) -> Case {
    // counter-mode RNG script: 96 bytes = salt | b | a
    let bytes = refmodel::ctr_bytes(seed, &format!("login-script-{i}"), 96);
    let mut salt = [0u8; 32];
    let mut b = [0u8; 32];
    let mut a = [0u8; 32];
    salt.copy_from_slice(&bytes[..32]);
    b.copy_from_slice(&bytes[32..64]);
    a.copy_from_slice(&bytes[64..]);
    // 63 of 64 scripts keep their private keys below 2^255 (no probe needed, see common::taken_as_is)
    if i % 64 != 0 {
        b[31] &= 0x7F;
        a[31] &= 0x7F;
    }
    let c = [("A", "A"), ("alice", "password123"), ("0123456789abcdef", "fedcba9876543210"), ("Z Z", "~")][(i % 4) as usize];
    mk("counter-mode-scripts", c, c, salt, b, a)
}

pub fn run(o: Oracle, tier: Tier, seed: u64) -> i32 {
    let report = Report::new(pid(o), tier, seed, "model_checking");
    unusual_first_use();
    let cl = Classes::new();

    // layer 3 first: constructed rare classes (cheap, most telling)
    let ws = load_witnesses();
    let mut classes_seen = std::collections::BTreeMap::new();
    for (class, case) in &ws {
        let rf = ref_login(&case.input(false));
        if !in_class(class, &rf) {
            mc::util::machinery_error(&format!("witness for class {class} no longer witnesses it (reference model disagrees): {}", case.json()));
        }
        *classes_seen.entry(class.clone()).or_insert(0u64) += 1;
        run_case(&report, o, &cl, case, true, true);
    }
    for need in ["u-low-zero-2", "u-high-zero-2", "x-low-zero-2", "x-high-zero-2", "S-low-zero-1", "S-low-zero-2", "S-low-zero-3", "S-high-zero-1", "S-high-zero-2", "A-high-zero-1", "B-high-zero-1", "v-high-zero-1", "base-negative", "base-nonnegative", "v-high-zero-4", "A-high-zero-4", "B-high-zero-4", "B-below-2^222", "B-within-2^222-of-N", "u-high-zero-4", "x-high-zero-4", "S-low-00-xx-00"] {
        if !classes_seen.contains_key(need) {
            mc::util::machinery_error(&format!("no stored witness for promised class {need}"));
        }
    }
    report.set("witness_classes", json!(classes_seen));
    report.count("witness_logins", ws.len() as u64);

    // layer 1
    let l1 = layer1_cases(tier, seed);
    l1.par_iter().for_each(|c| run_case(&report, o, &cl, c, false, true));
    report.count("alphabet_product_logins", l1.len() as u64);

    // layer 2: contiguous small keys and counter-mode scripts
    let r = match (o, tier) {
        (Oracle::C01, Tier::Quick) => 128,
        (Oracle::C01, Tier::Thorough) => 1024,
        (Oracle::C03, Tier::Quick) => 40,
        (Oracle::C03, Tier::Thorough) => 160,
    };
    let l2 = layer2_range_cases(r);
    l2.par_iter().for_each(|c| run_case(&report, o, &cl, c, false, false));
    report.count("small_key_range_logins", l2.len() as u64);
    let n_scripts: u64 = match (o, tier) {
        (Oracle::C01, Tier::Quick) => 1 << 18,
        (Oracle::C01, Tier::Thorough) => 1 << 24,
        (Oracle::C03, Tier::Quick) => 1 << 15,
        (Oracle::C03, Tier::Thorough) => 1 << 20,
    };
    (0..n_scripts).into_par_iter().for_each(|i| {
        let c = layer2_script_case(seed, i);
        run_case(&report, o, &cl, &c, false, false);
    });
    report.count("counter_mode_script_logins", n_scripts);

    // sequences of logins on ONE thread: anything cached between logins (per thread or per process) and
    // keyed too coarsely shows up when consecutive logins share part of their inputs
    let seqs = login_sequences(&report, o, &cl, tier, seed);
    report.count("login_sequences_on_one_thread", seqs);

    let real = cl.real_logins.load(Ordering::Relaxed);
    let refl = cl.ref_logins.load(Ordering::Relaxed);
    report.count("real_logins", real);
    report.count("reference_logins", refl);
    report.set(
        "classes_reached_where_reference_ran",
        json!({
            "S_low_zero_bytes_0_1_2_3plus": cl.s_low_zero.iter().map(|a| a.load(Ordering::Relaxed)).collect::<Vec<_>>(),
            "S_high_zero_bytes_0_1_2plus": cl.s_high_zero.iter().map(|a| a.load(Ordering::Relaxed)).collect::<Vec<_>>(),
            "A_needs_padding": cl.pad_a.load(Ordering::Relaxed),
            "B_needs_padding": cl.pad_b.load(Ordering::Relaxed),
            "v_needs_padding": cl.pad_v.load(Ordering::Relaxed),
            "B_minus_kv_negative": cl.base_negative.load(Ordering::Relaxed),
            "B_minus_kv_nonnegative": cl.base_nonnegative.load(Ordering::Relaxed),
        }),
    );
    if report.violation_count() == 0 && (cl.s_low_zero[1].load(Ordering::Relaxed) == 0 || cl.s_low_zero[2].load(Ordering::Relaxed) == 0 || cl.s_low_zero[3].load(Ordering::Relaxed) == 0 || cl.base_negative.load(Ordering::Relaxed) == 0) {
        mc::util::machinery_error("a promised rare class (S with 1/2/3 low zero bytes, negative base) was reached 0 times");
    }

    if o == Oracle::C03 {
        crate::c03_extra::seam_shapes(&report, tier, seed);
        crate::c03_extra::announced_groups(&report, tier, seed);
        crate::c03_extra::constants(&report);
        crate::c03_extra::steered_server_keys(&report, tier, seed);
    }

    let evals = real + report.get("seam_cases") + report.get("group_cases") + report.get("steered_server_key_cases");
    report.set("evaluations", json!(evals));
    report.set("distinct_nontrivial", json!(l1.len() as u64 + l2.len() as u64 + n_scripts + ws.len() as u64));
    report.set("rule", json!("logins are (registered credentials, typed credentials, salt, b, a) tuples enumerated from alphabet products, contiguous ranges and counter-mode RNG scripts (distinct by construction) plus constructed rare-class witnesses re-validated by the reference model; each is executed through the public typestate API with the RNG scripted; distinct_nontrivial = distinct login tuples"));
    report.set("states", json!(evals * 5));
    report.set("transitions", json!(evals * 4));
    report.set("traces_validated_against_impl", json!(evals));
    report.sample("login", l1[0].json());
    report.sample("login", ws[0].1.json());
    report.sample("login", layer2_script_case(seed, 0).json());
    report.space(&format!("alphabet product: {} credential pairs x {} salts x {}^2 private keys (direct and after storage round trip) + case variants of every credential", creds(tier == Tier::Thorough).len(), salts(seed, tier == Tier::Thorough).len(), private_keys(seed, tier == Tier::Thorough).len()));
    report.space(&format!("all (a, b) in [1, {r}]^2; {n_scripts} counter-mode RNG scripts; {} constructed rare-class witnesses", ws.len()));
    report.set("exhaustive", json!(false));
    report.cap_hit("the 2^256 key/salt space is represented by alphabets, ranges and constructed classes, not enumerated");
    report.assume("private keys, salts and credentials outside the stated alphabets, ranges and witnesses are not explored");
    report.count("cases_skipped_because_the_library_draws_again_for_a_degenerate_scripted_value", NOT_OWNED.load(Ordering::Relaxed));
    if o == Oracle::C01 {
        report.assume("byte-exactness against the reference model is C03's oracle; C01 decides acceptance, key agreement and storage round trip");
    }
    report.finish()
}

/// Replay of one recorded login case under the oracle of the property that reported it.
pub fn replay(o: Oracle, report: &Report, r: &serde_json::Value) {
    let c = &r["case"];
    let g = |v: &serde_json::Value| v.as_str().unwrap_or_else(|| mc::util::machinery_error("login replay: field missing")).to_string();
    let case = Case {
        layer: "replay",
        reg_user: g(&c["registered"][0]),
        reg_pass: g(&c["registered"][1]),
        typed_user: g(&c["typed"][0]),
        typed_pass: g(&c["typed"][1]),
        salt: mc::util::unhex_n::<32>(&g(&c["salt"])),
        b: mc::util::unhex_n::<32>(&g(&c["b"])),
        a: mc::util::unhex_n::<32>(&g(&c["a"])),
    };
    run_case(report, o, &Classes::new(), &case, true, true);
}

#[derive(Clone)]
enum Step {
    /// full login with the built-in group through the real server and the real client
    Builtin { user: &'static str, pass: &'static str, salt: u8 },
    /// real client only, against an announced group (g, index into common::moduli())
    Group { g: u8, modulus: usize },
}

/// Every sequence of 2 (quick) / 3 (thorough) logins over an alphabet of 8 built-in-group logins
/// ({alice,bob} x {pw1,pw2} x {salt1,salt2}) and 3 announced-group client logins, each sequence
/// executed back to back on one thread.
fn login_sequences(report: &Report, o: Oracle, cl: &Classes, tier: Tier, seed: u64) -> u64 {
    use mc::util::catch;
    use wow_srp::client::SrpClientChallenge;
    use wow_srp::PublicKey;
    let mut alphabet: Vec<Step> = vec![];
    for user in ["alice", "bob"] {
        for pass in ["password1", "password2"] {
            for salt in [1u8, 2] {
                alphabet.push(Step::Builtin { user, pass, salt });
            }
        }
    }
    // announced groups: (7, 2^255-19), (3, built-in N), (7, 2^127-1)
    alphabet.push(Step::Group { g: 7, modulus: 1 });
    alphabet.push(Step::Group { g: 3, modulus: 0 });
    alphabet.push(Step::Group { g: 7, modulus: 4 });
    let len = tier.pick(2usize, 3usize);
    let n = alphabet.len();
    let mods = moduli();
    let total = n.pow(len as u32);
    let mut seqs: Vec<Vec<Step>> = (0..total)
        .map(|idx| {
            let mut rest = idx;
            let mut seq = vec![];
            for _ in 0..len {
                seq.push(alphabet[rest % n].clone());
                rest /= n;
            }
            seq
        })
        .collect();
    // long sequences on one thread: hundreds of DIFFERENT accounts, salts and announced groups back to back, so that any
    // per-thread or global memo with a capacity (16 / 64 / 256 entries), or one keyed on part of its inputs, is overrun
    for (variant, steps) in [(0usize, tier.pick(400usize, 3000usize)), (1, tier.pick(300, 1500))] {
        let mut seq = vec![];
        for i in 0..steps {
            let acct = if variant == 0 { i % 301 } else { (i * 7) % 67 };
            let user: &'static str = Box::leak(format!("u{acct}").into_boxed_str());
            let pass: &'static str = Box::leak(format!("p{}x", acct % 13).into_boxed_str());
            if i % 5 == 3 {
                seq.push(Step::Group { g: [7u8, 3, 2, 7, 255, 5][i % 6], modulus: (i / 5) % mods.len() });
            } else {
                seq.push(Step::Builtin { user, pass, salt: (i % 251) as u8 });
            }
        }
        seqs.push(seq);
    }
    let total = seqs.iter().map(|s| s.len()).sum::<usize>();
    seqs.par_iter().enumerate().for_each(|(idx, seq)| {
        for (pos, step) in seq.iter().enumerate() {
            let tag = format!("seq-{idx}-{pos}");
            match step {
                Step::Builtin { user, pass, salt } => {
                    let case = Case {
                        layer: "login-sequence",
                        reg_user: user.to_string(),
                        reg_pass: pass.to_string(),
                        typed_user: user.to_string(),
                        typed_pass: pass.to_string(),
                        salt: [*salt; 32],
                        b: { let mut k = refmodel::ctr_array::<32>(seed, &format!("{tag}-b")); k[31] &= 0x7F; k },
                        a: { let mut k = refmodel::ctr_array::<32>(seed, &format!("{tag}-a")); k[31] &= 0x7F; k },
                    };
                    let before = report.violation_count();
                    run_case(report, o, cl, &case, false, false);
                    if report.violation_count() != before {
                        report.sample("failing-login-sequence", json!({"sequence_index": idx, "position": pos, "steps": seq.iter().take(pos + 1).skip(pos.saturating_sub(12)).map(step_json).collect::<Vec<_>>(), "steps_shown": "the last (up to) 13 steps up to the failing one"}));
                        return;
                    }
                }
                Step::Group { g, modulus } => {
                    let (mname, m) = &mods[*modulus];
                    let m_le = m.to_le_padded::<32>();
                    let a = ordinary_key(seed, &format!("{tag}-ga"));
                    let salt = [3u8; 32];
                    let bpub = le32_from_u64(1234567);
                    let bk = match PublicKey::from_le_bytes(bpub) {
                        Ok(k) => k,
                        Err(_) => continue, // a valid key refused is C04's business; this step only perturbs per-thread state
                    };
                    if srp::client_public(&refmodel::big::U::from_le_bytes(&a), *g, m).is_zero() {
                        continue; // A = g^a mod N' is 0 for this announced group (e.g. g a multiple of a tiny N'): the documented refusal, C04's business
                    }
                    let (r, _, _) = with_script(&a, || {
                        let c = SrpClientChallenge::new(ns("alice"), ns("password1"), *g, m_le, bk, salt);
                        (*c.client_public_key(), *c.client_proof())
                    });
                    if o == Oracle::C03 {
                        let aa = refmodel::big::U::from_le_bytes(&a);
                        let want_a = srp::client_public(&aa, *g, m).to_le_padded::<32>();
                        let x = refmodel::big::U::from_le_bytes(&srp::x_bytes(b"ALICE", b"PASSWORD1", &salt));
                        let u = refmodel::big::U::from_le_bytes(&srp::u_bytes(&want_a, &bpub));
                        let s = srp::client_s(&refmodel::big::U::from_le_bytes(&bpub), &x, &aa, &u, *g, m).to_le_padded::<32>();
                        if let Some(k) = srp::interleave(&s) {
                            let want_m1 = srp::m1(b"ALICE", &salt, &want_a, &bpub, &k, *g, &m_le);
                            match &r {
                                Ok((ap, m1)) => {
                                    if *ap != want_a || *m1 != want_m1 {
                                        report.violation(Violation {
                                            signature: "C03|login-sequence|announced-group-client-values".into(),
                                            scenario: "login-sequence".into(),
                                            replay: json!({"sequence_index": idx, "position": pos, "steps": seq.iter().take(pos + 1).skip(pos.saturating_sub(12)).map(step_json).collect::<Vec<_>>(), "steps_shown": "the last (up to) 13 steps up to the failing one", "seed": seed}),
                                            detail: json!({"message": format!("after the preceding logins on this thread the client's values for g={g}, modulus {mname} are A={} M1={}, reference A={} M1={}", hex(ap), hex(m1), hex(&want_a), hex(&want_m1))}),
                                        });
                                        return;
                                    }
                                }
                                Err(m) => {
                                    report.violation(Violation {
                                        signature: "C03|login-sequence|announced-group-panic".into(),
                                        scenario: "login-sequence".into(),
                                        replay: json!({"sequence_index": idx, "position": pos, "steps": seq.iter().take(pos + 1).skip(pos.saturating_sub(12)).map(step_json).collect::<Vec<_>>(), "steps_shown": "the last (up to) 13 steps up to the failing one"}),
                                        detail: json!({"message": format!("client panicked: {m}")}),
                                    });
                                    return;
                                }
                            }
                        }
                    }
                    let _ = catch(|| ());
                }
            }
        }
    });
    total as u64
}

fn step_json(s: &Step) -> serde_json::Value {
    match s {
        Step::Builtin { user, pass, salt } => json!({"builtin_group_login": [user, pass], "salt_byte": salt}),
        Step::Group { g, modulus } => json!({"announced_group_client_login": {"g": g, "modulus_index": modulus}}),
    }
}
