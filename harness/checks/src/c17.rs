//! C17: integrity hashes depend only on the concatenated files, salt and key. E3 sweeps.

use crate::common::hex;
use mc::report::{Report, Tier, Violation};
use rayon::prelude::*;
use refmodel::misc::{integrity, reconnect_integrity};
use serde_json::json;
use std::sync::atomic::{AtomicU64, Ordering};
use wow_srp::integrity::{login_integrity_check_generic, login_integrity_check_mac, login_integrity_check_windows, reconnect_integrity_check};

fn viol(report: &Report, class: &str, replay: serde_json::Value, msg: String) {
    report.violation(Violation { signature: format!("C17|{class}"), scenario: "integrity".into(), replay, detail: json!({ "message": msg }) });
}

/// all ways to cut `n` bytes into 5 consecutive (possibly empty) pieces: C(n+4, 4)
fn cuts(n: usize) -> Vec<[usize; 4]> {
    let mut v = vec![];
    for a in 0..=n {
        for b in a..=n {
            for c in b..=n {
                for d in c..=n {
                    v.push([a, b, c, d]);
                }
            }
        }
    }
    v
}

fn check_split(report: &Report, data: &[u8], c: [usize; 4], salt: &[u8; 16], key: &[u8; 32]) {
    let want = integrity(data, salt, key);
    let f = [&data[..c[0]], &data[c[0]..c[1]], &data[c[1]..c[2]], &data[c[2]..c[3]], &data[c[3]..]];
    let w = login_integrity_check_windows(f[0], f[1], f[2], f[3], f[4], salt, key);
    let m = login_integrity_check_mac(f[0], f[1], f[2], f[3], f[4], salt, key);
    let g = login_integrity_check_generic(data, salt, key);
    let rp = || json!({"data": hex(data), "cuts": c, "salt": hex(salt), "key": hex(key)});
    if w != want {
        viol(report, "windows-differs", rp(), format!("windows {} != reference {}", hex(&w), hex(&want)));
    }
    if m != want {
        viol(report, "mac-differs", rp(), format!("mac {} != reference {}", hex(&m), hex(&want)));
    }
    if g != want {
        viol(report, "generic-differs", rp(), format!("generic {} != reference {}", hex(&g), hex(&want)));
    }
}

pub fn run(tier: Tier, seed: u64) -> i32 {
    let report = Report::new("C17", tier, seed, "model_checking");
    let salt: [u8; 16] = refmodel::ctr_array::<16>(seed, "c17-salt");
    let key: [u8; 32] = refmodel::ctr_array::<32>(seed, "c17-key");
    let evals = AtomicU64::new(0);

    // (1) every distribution of byte strings of length n <= 12 over the five arguments
    let max_n = tier.pick(12usize, 20usize);
    for n in 0..=max_n {
        let cs = cuts(n);
        for pat in 0..3u8 {
            let data: Vec<u8> = match pat {
                0 => (0..n).map(|i| i as u8 + 1).collect(),
                1 => vec![0u8; n],
                _ => refmodel::ctr_bytes(seed, "c17-data", n),
            };
            cs.par_iter().for_each(|c| check_split(&report, &data, *c, &salt, &key));
            evals.fetch_add(cs.len() as u64, Ordering::Relaxed);
        }
    }
    report.space(&format!("every one of the C(n+4,4) ways to distribute byte strings of every length n <= {max_n} (3 contents each) over the five file arguments, Windows and Mac, against the single-buffer function and the reference"));

    // (2) block-edge lengths with all 4-tuples of cut points from {0,1,63,64,65,n-1,n}
    let lens: Vec<usize> = vec![55, 56, 63, 64, 65, 119, 127, 128, 129, 192, 1000, 4096, 65_535, 65_536, 65_537, 200_000];
    lens.par_iter().for_each(|&n| {
        let data = refmodel::ctr_bytes(seed, "c17-edge", n);
        let mut pts: Vec<usize> = vec![0, 1, 63, 64, 65, n - 1, n].into_iter().filter(|p| *p <= n).collect();
        pts.sort();
        pts.dedup();
        let mut k = 0u64;
        for &a in &pts {
            for &b in &pts {
                for &c in &pts {
                    for &d in &pts {
                        if a <= b && b <= c && c <= d {
                            check_split(&report, &data, [a, b, c, d], &salt, &key);
                            k += 1;
                        }
                    }
                }
            }
        }
        evals.fetch_add(k, Ordering::Relaxed);
    });
    report.space("lengths {55,56,63,64,65,119,127,128,129,1000} with all ordered 4-tuples of cut points from {0,1,63,64,65,n-1,n}");

    // (2b) every total length 0..=300 with three uneven distributions
    (0..=300usize).collect::<Vec<_>>().par_iter().for_each(|&n| {
        let data = refmodel::ctr_bytes(seed, "c17-len", n);
        for c in [[n / 7, n / 3, n / 2, n - n / 5], [0, 0, n, n], [n.min(1), n.min(2), n.min(3), n]] {
            check_split(&report, &data, c, &salt, &key);
        }
        evals.fetch_add(3, Ordering::Relaxed);
    });

    // (2c) multi-megabyte inputs (block-wise feeding with a dropped remainder only shows above the block size)
    {
        let big: Vec<usize> = if tier == Tier::Thorough { vec![(1 << 20) + 1, (1 << 22) + 1, 5_000_000, (1 << 24) + 7, 40_000_003, (1 << 32) + 3] } else { vec![(1 << 20) + 1, (1 << 22) + 1, 5_000_000, (1 << 24) + 7] };
        big.par_iter().for_each(|&n| {
            let data: Vec<u8> = (0..n).map(|i| (i as u32).wrapping_mul(2_654_435_761).to_le_bytes()[3]).collect();
            for (ci, c) in [[0, 0, 0, 0], [n, n, n, n], [1, 2, 3, n - 1], [n / 5, 2 * (n / 5), 3 * (n / 5), 4 * (n / 5)]].into_iter().enumerate() {
                if n > (1 << 31) && (ci == 1 || ci == 2) {
                    continue; // above 2^32 bytes (a length held in 32 bits wraps): two splits are enough, each costs ~1 minute
                }
                check_split(&report, &data, c, &salt, &key);
            }
            // the last byte matters
            let mut d2 = data.clone();
            *d2.last_mut().unwrap() ^= 1;
            if login_integrity_check_generic(&d2, &salt, &key) == login_integrity_check_generic(&data, &salt, &key)
                || login_integrity_check_windows(&d2, &[], &[], &[], &[], &salt, &key) == login_integrity_check_windows(&data, &[], &[], &[], &[], &salt, &key)
                || login_integrity_check_mac(&[], &[], &[], &[], &d2, &salt, &key) == login_integrity_check_mac(&[], &[], &[], &[], &data, &salt, &key)
            {
                viol(&report, "file-byte-sensitivity", json!({"length": n, "changed": "last byte"}), format!("changing the last byte of a {n}-byte input does not change the result"));
            }
            evals.fetch_add(4, Ordering::Relaxed);
        });
    }

    // (2d) the SAME buffers, changed in place between two calls on one thread (a launcher re-checks files it has just
    //      patched): a result remembered by buffer address / length / part of the salt would be stale
    {
        let mut bufs: [Vec<u8>; 5] = [refmodel::ctr_bytes(seed, "ip0", 40), refmodel::ctr_bytes(seed, "ip1", 3), vec![], refmodel::ctr_bytes(seed, "ip3", 70_000), refmodel::ctr_bytes(seed, "ip4", 17)];
        let mut s_ip = salt;
        let mut k_ip = key;
        let mut n_ip = 0u64;
        for step in 0..160usize {
            // one in-place change per step: a byte of one file, a byte of the salt (any position), a byte of the key
            match step % 4 {
                0 | 1 => {
                    let fi = [0usize, 1, 3, 4][(step / 4) % 4];
                    let l = bufs[fi].len();
                    bufs[fi][(step * 7919) % l] ^= 1 + (step as u8 % 7);
                }
                2 => s_ip[(step / 4) % 16] ^= 0x40,
                _ => k_ip[(step / 4) % 32] ^= 0x04,
            }
            let all: Vec<u8> = bufs.iter().flatten().copied().collect();
            let want = integrity(&all, &s_ip, &k_ip);
            let w = login_integrity_check_windows(&bufs[0], &bufs[1], &bufs[2], &bufs[3], &bufs[4], &s_ip, &k_ip);
            let m = login_integrity_check_mac(&bufs[0], &bufs[1], &bufs[2], &bufs[3], &bufs[4], &s_ip, &k_ip);
            let g = login_integrity_check_generic(&all, &s_ip, &k_ip);
            n_ip += 3;
            if w != want || m != want || g != want {
                viol(&report, "stale-result-after-in-place-change", json!({"step": step, "changed": (["file byte", "file byte", "salt byte", "key byte"][step % 4])}), format!("after changing the same buffers in place (step {step}) windows {} mac {} generic {} reference {}", hex(&w), hex(&m), hex(&g), hex(&want)));
                break;
            }
        }
        evals.fetch_add(n_ip, Ordering::Relaxed);
        report.count("in_place_change_calls", n_ip);
    }

    // (2e) file contents a "helpful" reader would normalise: byte order marks, magic numbers, line endings, padding -
    //      each as prefix and as suffix of each of the five files (the files are opaque bytes)
    {
        let marks: [&[u8]; 14] = [&[0xEF, 0xBB, 0xBF], &[0xFF, 0xFE], &[0xFE, 0xFF], b"MZ", &[0x7F, b'E', b'L', b'F'], &[0xCF, 0xFA, 0xED, 0xFE], &[0xCA, 0xFE, 0xBA, 0xBE], b"<?xml", b"\r\n", b"\n", &[0], &[0, 0, 0, 0], b" ", &[0x1A]];
        let body = refmodel::ctr_bytes(seed, "c17-marks", 23);
        let mut n_m = 0u64;
        for mk in marks {
            for pos in 0..5usize {
                for suffix in [false, true] {
                    let mut files: [Vec<u8>; 5] = [body[..5].to_vec(), body[5..9].to_vec(), body[9..14].to_vec(), body[14..20].to_vec(), body[20..].to_vec()];
                    if suffix {
                        files[pos].extend_from_slice(mk);
                    } else {
                        let mut v = mk.to_vec();
                        v.extend_from_slice(&files[pos]);
                        files[pos] = v;
                    }
                    let all: Vec<u8> = files.iter().flatten().copied().collect();
                    let want = integrity(&all, &salt, &key);
                    let w = login_integrity_check_windows(&files[0], &files[1], &files[2], &files[3], &files[4], &salt, &key);
                    let m = login_integrity_check_mac(&files[0], &files[1], &files[2], &files[3], &files[4], &salt, &key);
                    let g = login_integrity_check_generic(&all, &salt, &key);
                    n_m += 3;
                    if w != want || m != want || g != want {
                        viol(&report, "marked-file-content", json!({"mark": hex(mk), "file": pos, "as_suffix": suffix}), format!("file {pos} {} {}: windows {} mac {} generic {} reference {}", if suffix { "ends with" } else { "starts with" }, hex(mk), hex(&w), hex(&m), hex(&g), hex(&want)));
                    }
                }
            }
        }
        evals.fetch_add(n_m, Ordering::Relaxed);
        report.count("marked_content_calls", n_m);
    }

    // (3) sensitivity: every single-byte change of every file, the salt and the key changes the result (and still equals the reference)
    let files: [Vec<u8>; 5] = [
        refmodel::ctr_bytes(seed, "f0", 7),
        refmodel::ctr_bytes(seed, "f1", 5),
        vec![],
        refmodel::ctr_bytes(seed, "f3", 9),
        refmodel::ctr_bytes(seed, "f4", 3),
    ];
    let all: Vec<u8> = files.iter().flatten().copied().collect();
    let base = login_integrity_check_windows(&files[0], &files[1], &files[2], &files[3], &files[4], &salt, &key);
    let mut sens = 0u64;
    for fi in 0..5 {
        for bi in 0..files[fi].len() {
            for delta in [1u8, 0x80, 0xFF] {
                let mut f2 = files.clone();
                f2[fi][bi] ^= delta;
                let all2: Vec<u8> = f2.iter().flatten().copied().collect();
                let w = login_integrity_check_windows(&f2[0], &f2[1], &f2[2], &f2[3], &f2[4], &salt, &key);
                let m = login_integrity_check_mac(&f2[0], &f2[1], &f2[2], &f2[3], &f2[4], &salt, &key);
                let want = integrity(&all2, &salt, &key);
                if w == base || w != want || m != want {
                    viol(&report, "file-byte-sensitivity", json!({"file": fi, "byte": bi, "delta": delta}), format!("changing byte {bi} of file {fi}: windows {} mac {} reference {} (unchanged-tree value {})", hex(&w), hex(&m), hex(&want), hex(&base)));
                }
                sens += 1;
            }
        }
    }
    for bi in 0..16 {
        for delta in [1u8, 0x80, 0xFF] {
            let mut s2 = salt;
            s2[bi] ^= delta;
            for (name, got) in [
                ("windows", login_integrity_check_windows(&files[0], &files[1], &files[2], &files[3], &files[4], &s2, &key)),
                ("mac", login_integrity_check_mac(&files[0], &files[1], &files[2], &files[3], &files[4], &s2, &key)),
                ("generic", login_integrity_check_generic(&all, &s2, &key)),
            ] {
                if got == base || got != integrity(&all, &s2, &key) {
                    viol(&report, "salt-byte-sensitivity", json!({"function": name, "salt_byte": bi, "delta": delta}), format!("{name} with salt byte {bi} changed: {}", hex(&got)));
                }
                sens += 1;
            }
        }
    }
    for bi in 0..32 {
        for delta in [1u8, 0x80, 0xFF] {
            let mut k2 = key;
            k2[bi] ^= delta;
            for (name, got) in [
                ("windows", login_integrity_check_windows(&files[0], &files[1], &files[2], &files[3], &files[4], &salt, &k2)),
                ("mac", login_integrity_check_mac(&files[0], &files[1], &files[2], &files[3], &files[4], &salt, &k2)),
                ("generic", login_integrity_check_generic(&all, &salt, &k2)),
            ] {
                if got == base || got != integrity(&all, &salt, &k2) {
                    viol(&report, "key-byte-sensitivity", json!({"function": name, "key_byte": bi, "delta": delta}), format!("{name} with key byte {bi} changed: {}", hex(&got)));
                }
                sens += 1;
            }
        }
    }
    // argument order matters: permuting two different files changes the hash (and equals the reference of the permuted concatenation)
    for i in 0..5 {
        for j in (i + 1)..5 {
            if files[i] == files[j] {
                continue;
            }
            let mut f2 = files.clone();
            f2.swap(i, j);
            let all2: Vec<u8> = f2.iter().flatten().copied().collect();
            if all2 == all {
                continue;
            }
            let w = login_integrity_check_windows(&f2[0], &f2[1], &f2[2], &f2[3], &f2[4], &salt, &key);
            let m = login_integrity_check_mac(&f2[0], &f2[1], &f2[2], &f2[3], &f2[4], &salt, &key);
            let want = integrity(&all2, &salt, &key);
            if w != want || m != want || w == base {
                viol(&report, "argument-order", json!({"swapped": [i, j]}), format!("swapping files {i} and {j}: windows {} mac {} reference {}", hex(&w), hex(&m), hex(&want)));
            }
            sens += 1;
        }
    }
    // empty files in every position
    for mask in 0..32u32 {
        let f2: Vec<Vec<u8>> = (0..5).map(|i| if mask >> i & 1 == 1 { vec![] } else { refmodel::ctr_bytes(seed, &format!("e{i}"), 4 + i) }).collect();
        let all2: Vec<u8> = f2.iter().flatten().copied().collect();
        let w = login_integrity_check_windows(&f2[0], &f2[1], &f2[2], &f2[3], &f2[4], &salt, &key);
        let m = login_integrity_check_mac(&f2[0], &f2[1], &f2[2], &f2[3], &f2[4], &salt, &key);
        let want = integrity(&all2, &salt, &key);
        if w != want || m != want {
            viol(&report, "empty-files", json!({"empty_mask": mask}), format!("windows {} mac {} reference {}", hex(&w), hex(&m), hex(&want)));
        }
        sens += 1;
    }
    // salts / keys with zero bytes at every position, all-zero and all-ones salt and key (HMAC key handling)
    for bi in 0..16 {
        let mut s2 = salt;
        s2[bi] = 0;
        for fcut in [[0usize, 0, 0, 0], [1, 3, 3, 9], [24, 24, 24, 24]] {
            check_split(&report, &all, fcut, &s2, &key);
            sens += 1;
        }
    }
    for bi in 0..32 {
        let mut k2 = key;
        k2[bi] = 0;
        check_split(&report, &all, [2, 5, 5, 11], &salt, &k2);
        let mut k3 = key;
        k3[bi] |= 0x80;
        check_split(&report, &all, [2, 5, 5, 11], &salt, &k3);
        sens += 2;
    }
    for (s2, k2) in [([0u8; 16], [0u8; 32]), ([0xFF; 16], [0xFF; 32]), ([0u8; 16], key), (salt, [0u8; 32])] {
        check_split(&report, &all, [7, 12, 12, 21], &s2, &k2);
        sens += 1;
    }
    report.count("sensitivity_cases", sens);

    // (4) reconnect check = SHA1(salt | 20 zero bytes)
    let mut rc = 0u64;
    let mut salts: Vec<[u8; 16]> = vec![[0; 16], [0xFF; 16], salt];
    for lane in 0..16 {
        for v in [1u8, 0x80, 0xFF] {
            let mut s = [0u8; 16];
            s[lane] = v;
            salts.push(s);
        }
    }
    for i in 0..tier.pick(200, 5000) {
        salts.push(refmodel::ctr_array::<16>(seed, &format!("rc-{i}")));
    }
    for s in &salts {
        let got = reconnect_integrity_check(s);
        if got != reconnect_integrity(s) {
            viol(&report, "reconnect", json!({"salt": hex(s)}), format!("got {} want {}", hex(&got), hex(&reconnect_integrity(s))));
        }
        rc += 1;
    }
    report.count("reconnect_cases", rc);

    let total = evals.load(Ordering::Relaxed) * 3 + sens + rc;
    report.count("split_cases", evals.load(Ordering::Relaxed));
    report.set("evaluations", json!(total));
    report.set("distinct_nontrivial", json!(evals.load(Ordering::Relaxed)));
    report.set("rule", json!("(content, cut-point 4-tuple) pairs enumerated completely per length; each evaluated through the Windows, Mac and single-buffer functions; distinct_nontrivial = distinct (content, distribution) cases"));
    report.set("states", json!(total + 1));
    report.set("transitions", json!(total));
    report.set("traces_validated_against_impl", json!(total));
    report.sample("split", json!({"data": "0102030405", "cuts": [0, 2, 2, 5], "files": ["", "0102", "", "030405", ""], "expected": "same 20 bytes as the single-buffer function and SHA1(key | HMAC-SHA1(salt, data))"}));
    report.assume("file contents: three patterns per length; not the whole content space");
    report.set("exhaustive", json!(false));
    report.cap_hit("all distributions per length are closed; contents, salts and keys are patterns");
    report.finish()
}

/// Replay of one recorded split case.
pub fn replay(report: &Report, r: &serde_json::Value) -> bool {
    match (r["data"].as_str(), r["cuts"].as_array(), r["salt"].as_str(), r["key"].as_str()) {
        (Some(d), Some(c), Some(s), Some(k)) if c.len() == 4 => {
            let cuts = [c[0].as_u64().unwrap() as usize, c[1].as_u64().unwrap() as usize, c[2].as_u64().unwrap() as usize, c[3].as_u64().unwrap() as usize];
            check_split(report, &mc::util::unhex(d), cuts, &mc::util::unhex_n::<16>(s), &mc::util::unhex_n::<32>(k));
            true
        }
        _ => false,
    }
}
