//! C06: world-login proof is accepted iff name, session key and both seeds match. E3 sweeps over
//! the three expansion modules with the server's seed set through the RNG seam.

use crate::common::*;
use mc::report::{Report, Tier, Violation};
use mc::util::catch;
use rayon::prelude::*;
use refmodel::srp::world_proof;
use serde_json::json;
use std::sync::atomic::{AtomicU64, Ordering};
use wow_srp::error::MatchProofsError;
use wow_srp::normalized_string::NormalizedString;

const SEEDS: [u32; 11] = [0, 1, 0xFF, 0x100, 0x0102_0304, 0x0403_0201, 0x7FFF_FFFF, 0x8000_0000, 0xDEAD_BEEF, 0xFFFF_FFFE, 0xFFFF_FFFF];

trait World: Sync {
    const NAME: &'static str;
    /// ProofSeed::new() under the current RNG script; returns (seed(), client proof for `server_seed`)
    fn client(user: &NormalizedString, key: [u8; 40], server_seed: u32) -> (u32, [u8; 20]);
    /// ProofSeed::new() under the current RNG script; returns (seed(), Ok(()) | Err(both proofs))
    fn server(user: &NormalizedString, key: [u8; 40], proof: [u8; 20], client_seed: u32) -> (u32, Result<(), MatchProofsError>);
}
macro_rules! world {
    ($t:ident, $m:ident, $n:expr) => {
        struct $t;
        impl World for $t {
            const NAME: &'static str = $n;
            fn client(user: &NormalizedString, key: [u8; 40], server_seed: u32) -> (u32, [u8; 20]) {
                let s = wow_srp::$m::ProofSeed::new();
                let seed = s.seed();
                let (p, _c) = s.into_client_header_crypto(user, key, server_seed);
                (seed, p)
            }
            fn server(user: &NormalizedString, key: [u8; 40], proof: [u8; 20], client_seed: u32) -> (u32, Result<(), MatchProofsError>) {
                let s = wow_srp::$m::ProofSeed::new();
                let seed = s.seed();
                (seed, s.into_server_header_crypto(user, key, proof, client_seed).map(|_| ()))
            }
        }
    };
}
world!(V, vanilla_header, "vanilla");
world!(T, tbc_header, "tbc");
world!(W, wrath_header, "wrath");

struct Ctr {
    cases: AtomicU64,
    accepted: AtomicU64,
    rejected: AtomicU64,
}

fn viol(report: &Report, module: &str, class: &str, replay: serde_json::Value, msg: String) {
    report.violation(Violation { signature: format!("C06|{module}|{class}"), scenario: format!("{module}::world-login"), replay, detail: json!({ "message": msg }) });
}

/// One server-side decision. `own_seed` is scripted into ProofSeed::new().
fn server_case<M: World>(report: &Report, ctr: &Ctr, user: &str, key: &[u8; 40], own_seed: u32, presented: [u8; 20], claimed_client_seed: u32, what: &str) {
    let u = ns(user);
    let (r, used, _log) = with_script(&own_seed.to_le_bytes(), || M::server(&u, *key, presented, claimed_client_seed));
    ctr.cases.fetch_add(1, Ordering::Relaxed);
    let rp = || json!({"username": user, "session_key": hex(key), "server_seed": own_seed, "client_seed": claimed_client_seed, "presented_proof": hex(&presented), "variation": what});
    let (seed_reported, res) = match r {
        Ok(x) => x,
        Err(m) => {
            viol(report, M::NAME, "server-panic", rp(), format!("into_server_header_crypto panicked: {m}"));
            return;
        }
    };
    let _ = used; // draw width is C15's business
    // the seed reported by the accessor is the one used in the computation: judge with the REPORTED seed
    let reference = world_proof(&refmodel::misc::normalize(user).unwrap(), claimed_client_seed, seed_reported, key);
    let want_ok = presented == reference;
    match res {
        Ok(()) => {
            ctr.accepted.fetch_add(1, Ordering::Relaxed);
            if !want_ok {
                viol(report, M::NAME, "server-accepts-wrong-proof", rp(), format!("accepted {} but SHA1(U|0|client_seed|server_seed|K) with the reported seed {seed_reported:#x} is {}", hex(&presented), hex(&reference)));
            }
        }
        Err(e) => {
            ctr.rejected.fetch_add(1, Ordering::Relaxed);
            if want_ok {
                viol(report, M::NAME, "server-rejects-right-proof", rp(), format!("rejected the proof that equals the definition for its own reported seed {seed_reported:#x}"));
            } else if e.client_proof != presented || e.server_proof != reference {
                viol(report, M::NAME, "error-does-not-carry-both-proofs", rp(), format!("error carries client_proof={} server_proof={}, expected presented={} and reference={}", hex(&e.client_proof), hex(&e.server_proof), hex(&presented), hex(&reference)));
            }
        }
    }
}

fn module<M: World>(report: &Report, ctr: &Ctr, tier: Tier, seed: u64) {
    let users: Vec<&str> = vec!["A", "alice", "0123456789ABCDEF", "A:", " ", "~~~~", "bob ", " lead", "a  b", "pass|zone", "@a[z`{~", "0123456789abcde", "o'brien\"\\", "account{1}xy", "{|}~{|}~{|}~{|}~", "abcdefg{hijklmn|"];
    let mut keys = key40s(seed, tier.pick(3, 9));
    keys.push(rotating_key(77));
    let jobs: Vec<(usize, usize)> = (0..users.len()).flat_map(|u| (0..keys.len()).map(move |k| (u, k))).collect();
    jobs.par_iter().for_each(|&(ui, ki)| {
        let user = users[ui];
        let key = &keys[ki];
        let un = refmodel::misc::normalize(user).unwrap();
        for &cs in &SEEDS {
            for &ss in &SEEDS {
                // client side: ProofSeed::new() draws cs; proof must be the definition and seed() the draw
                // (the name object comes from each of the five constructors in turn, and is a clone every other time)
                let u = {
                    use std::convert::TryFrom;
                    use wow_srp::normalized_string::NormalizedString as NS;
                    let k = (cs as usize).wrapping_add(ss as usize).wrapping_add(ui) % 5;
                    let built = match k {
                        0 => NS::new(user),
                        1 => NS::from_str(user),
                        2 => NS::from_string(user.to_string()),
                        3 => NS::try_from(user),
                        _ => NS::try_from(user.to_string()),
                    };
                    match built {
                        Ok(n) => if (cs ^ ss) & 1 == 1 { n.clone() } else { n },
                        Err(e) => {
                            viol(report, M::NAME, "permitted-name-refused", json!({"username": user, "constructor": k}), format!("a permitted account name is refused by constructor #{k}: {e}"));
                            continue;
                        }
                    }
                };
                let (r, used, _) = with_script(&cs.to_le_bytes(), || M::client(&u, *key, ss));
                ctr.cases.fetch_add(1, Ordering::Relaxed);
                let (cseed, proof) = match r {
                    Ok(x) => x,
                    Err(m) => {
                        viol(report, M::NAME, "client-panic", json!({"username": user, "session_key": hex(key), "client_seed": cs, "server_seed": ss}), format!("into_client_header_crypto panicked: {m}"));
                        continue;
                    }
                };
                let _ = used;
                let want = world_proof(&un, cseed, ss, key);
                if proof != want {
                    viol(report, M::NAME, "client-proof-differs-from-definition", json!({"username": user, "session_key": hex(key), "client_seed_reported": cseed, "server_seed": ss}),
                        format!("client proof {} != SHA1(U|0000|client_seed LE|server_seed LE|K) = {} (seed() = {cseed:#x}, scripted draw {cs:#x})", hex(&proof), hex(&want)));
                    continue;
                }
                // server accepts the honest proof
                server_case::<M>(report, ctr, user, key, ss, proof, cseed, "honest");
                // deviations (a subset per seed pair keeps the product manageable; all of them for the boundary pairs)
                let full = true;
                // swapped seeds (only a deviation when they differ)
                if cs != ss {
                    server_case::<M>(report, ctr, user, key, cseed, proof, ss, "swapped-seeds");
                }
                server_case::<M>(report, ctr, user, key, ss, proof, cseed.wrapping_add(1), "client-seed+1");
                server_case::<M>(report, ctr, user, key, ss, proof, cseed.wrapping_sub(1), "client-seed-1");
                server_case::<M>(report, ctr, user, key, ss.wrapping_add(1), proof, cseed, "server-seed+1");
                server_case::<M>(report, ctr, user, key, ss.wrapping_sub(1), proof, cseed, "server-seed-1");
                server_case::<M>(report, ctr, user, key, ss, proof, cseed.swap_bytes(), "client-seed-byte-swapped");
                if (cs == 0xFFFF_FFFF || cs == 0 || cs == 0xDEAD_BEEF) && (ss == 0xFFFF_FFFF || ss == 0 || ss == 0x0102_0304) {
                    for bit in 0..32 {
                        server_case::<M>(report, ctr, user, key, ss, proof, cseed ^ (1 << bit), "client-seed-bit-flipped");
                        server_case::<M>(report, ctr, user, key, ss ^ (1 << bit), proof, cseed, "server-seed-bit-flipped");
                    }
                }
                if full {
                    for alt in ["B", "alicf", "0123456789ABCDEG", "A;", "a", "ALICE"] {
                        if alt.len() <= 16 {
                            server_case::<M>(report, ctr, alt, key, ss, proof, cseed, "other-or-case-variant-username");
                        }
                    }
                    server_case::<M>(report, ctr, &user.to_ascii_lowercase(), key, ss, proof, cseed, "case-variant-username");
                    for pos in 0..40 {
                        let mut k2 = *key;
                        k2[pos] ^= 1 << (pos % 8);
                        server_case::<M>(report, ctr, user, &k2, ss, proof, cseed, "session-key-byte-changed");
                    }
                    for bit in 0..160 {
                        let mut p2 = proof;
                        p2[bit / 8] ^= 1 << (bit % 8);
                        server_case::<M>(report, ctr, user, key, ss, p2, cseed, "proof-bit-flipped");
                    }
                    if cs == 0xDEAD_BEEF && ss == 0x0102_0304 {
                        for p2 in altered_proofs(&proof, tier == Tier::Thorough && ui == 0 && ki == 0) {
                            server_case::<M>(report, ctr, user, key, ss, p2, cseed, "proof-multi-bit-altered");
                        }
                    }
                }
            }
        }
    });
}

pub fn run(tier: Tier, seed: u64) -> i32 {
    let report = Report::new("C06", tier, seed, "model_checking");
    let ctr = Ctr { cases: AtomicU64::new(0), accepted: AtomicU64::new(0), rejected: AtomicU64::new(0) };
    module::<V>(&report, &ctr, tier, seed);
    module::<T>(&report, &ctr, tier, seed);
    module::<W>(&report, &ctr, tier, seed);

    // the three modules agree with each other (differential) on every client proof of a compact product
    let mut diff = 0u64;
    for user in ["A", "MiXeD", "0123456789abcdef"] {
        for key in key40s(seed, 2) {
            for &cs in &SEEDS {
                for &ss in &SEEDS {
                    let u = ns(user);
                    let a = with_script(&cs.to_le_bytes(), || V::client(&u, key, ss)).0;
                    let b = with_script(&cs.to_le_bytes(), || T::client(&u, key, ss)).0;
                    let c = with_script(&cs.to_le_bytes(), || W::client(&u, key, ss)).0;
                    diff += 1;
                    if a != b || a != c {
                        viol(&report, "all", "modules-disagree", json!({"username": user, "session_key": hex(&key), "client_seed": cs, "server_seed": ss}), format!("vanilla {a:?} tbc {b:?} wrath {c:?}"));
                    }
                }
            }
        }
    }
    report.count("module_differential_cases", diff);

    // thorough: all 2^32 client seeds for one fixed session per module (server side, honest proof must be
    // accepted only for the right seed: presented proof is for seed 0xDEADBEEF)
    if tier == Tier::Thorough {
        let key = refmodel::ctr_array::<40>(seed, "c06-sweep-key");
        let un = refmodel::misc::normalize("A").unwrap();
        let proof = world_proof(&un, 0xDEAD_BEEF, 0x0102_0304, &key);
        let accepted = AtomicU64::new(0);
        (0..4096u32).into_par_iter().for_each(|hi| {
            let u = ns("A");
            let mut acc = 0u64;
            for lo in 0..(1u32 << 20) {
                let cs = (hi << 20) | lo;
                // one module per third of the space keeps the cost at 2^32 server decisions
                let r = match cs % 3 {
                    0 => with_script(&0x0102_0304u32.to_le_bytes(), || V::server(&u, key, proof, cs)).0,
                    1 => with_script(&0x0102_0304u32.to_le_bytes(), || T::server(&u, key, proof, cs)).0,
                    _ => with_script(&0x0102_0304u32.to_le_bytes(), || W::server(&u, key, proof, cs)).0,
                };
                match r {
                    Ok((_, Ok(()))) => {
                        acc += 1;
                        if cs != 0xDEAD_BEEF {
                            viol(&report, "sweep", "server-accepts-wrong-client-seed", json!({"client_seed": cs}), format!("proof for client seed 0xDEADBEEF accepted with claimed client seed {cs:#x}"));
                        }
                    }
                    Ok((_, Err(_))) => {
                        if cs == 0xDEAD_BEEF {
                            viol(&report, "sweep", "server-rejects-right-proof", json!({"client_seed": cs}), "right seed rejected".into());
                        }
                    }
                    Err(m) => viol(&report, "sweep", "server-panic", json!({"client_seed": cs}), m),
                }
            }
            accepted.fetch_add(acc, Ordering::Relaxed);
        });
        report.count("client_seed_sweep_cases", 1u64 << 32);
        report.count("client_seed_sweep_accepted", accepted.load(Ordering::Relaxed));
        report.space("all 2^32 claimed client seeds against one fixed proof (modules interleaved by seed mod 3)");
    }

    report.count("cases", ctr.cases.load(Ordering::Relaxed));
    report.require("server_accepted");
    report.require("server_rejected");
    report.count("server_accepted", ctr.accepted.load(Ordering::Relaxed));
    report.count("server_rejected", ctr.rejected.load(Ordering::Relaxed));
    let total = ctr.cases.load(Ordering::Relaxed) + diff + report.get("client_seed_sweep_cases");
    report.set("evaluations", json!(total));
    report.set("distinct_nontrivial", json!(ctr.rejected.load(Ordering::Relaxed)));
    report.set("rule", json!("sessions = usernames x session keys x all ordered pairs of 11 boundary seeds, per module; per session the honest proof plus one deviation each (swapped seeds, seeds +-1, byte-swapped seed, other/case-variant username, each of 40 key bytes, each of 160 proof bits); distinct_nontrivial = decisions that had to be rejections"));
    report.set("states", json!(total + 1));
    report.set("transitions", json!(total));
    report.set("traces_validated_against_impl", json!(total));
    report.sample("case", json!({"module": "wrath", "username": "A", "client_seed": "0xDEADBEEF", "server_seed": "0x01020304", "variation": "swapped-seeds", "expected": "Err carrying presented proof and SHA1(U|0|client|server|K)"}));
    report.space("3 modules x 16 usernames x session keys x 121 seed pairs; server's own seed scripted through the RNG seam and read back through seed()");
    report.assume("usernames and session keys come from alphabets");
    report.set("exhaustive", json!(false));
    report.cap_hit("usernames and session keys come from alphabets; the seed-pair and deviation dimensions are closed completely");
    report.finish()
}

/// Replay of one recorded server-side decision in the module named in the scenario.
pub fn replay(report: &Report, scenario: &str, r: &serde_json::Value) -> bool {
    let (user, key, ss, cs, proof) = match (r["username"].as_str(), r["session_key"].as_str(), r["server_seed"].as_u64(), r["client_seed"].as_u64(), r["presented_proof"].as_str()) {
        (Some(u), Some(k), Some(s), Some(c), Some(p)) => (u, mc::util::unhex_n::<40>(k), s as u32, c as u32, mc::util::unhex_n::<20>(p)),
        _ => return false,
    };
    let ctr = Ctr { cases: AtomicU64::new(0), accepted: AtomicU64::new(0), rejected: AtomicU64::new(0) };
    match scenario.split("::").next().unwrap_or("") {
        "vanilla" => server_case::<V>(report, &ctr, user, &key, ss, proof, cs, "replay"),
        "tbc" => server_case::<T>(report, &ctr, user, &key, ss, proof, cs, "replay"),
        "wrath" => server_case::<W>(report, &ctr, user, &key, ss, proof, cs, "replay"),
        _ => return false,
    }
    true
}
