//! C11: all header entry points agree; failed reads leave the cipher untouched; failing writers
//! are reported. E2 over the complete reader/writer answer trees + E3 value sweeps.

use crate::ciphers;
use crate::common::*;
use mc::choices::{explore, Chooser};
use mc::report::{Report, Tier, Violation};
use mc::util::catch;
use rayon::prelude::*;
use refmodel::cipher::{self, Dir, Recurrence};
use serde_json::json;
use std::cell::RefCell;
use std::io::{self, ErrorKind, Read, Write};
use std::sync::atomic::{AtomicU64, Ordering};

type Hdr = (u32, u32);

const ERR_KINDS: [ErrorKind; 8] = [
    ErrorKind::WouldBlock,
    ErrorKind::TimedOut,
    ErrorKind::ConnectionReset,
    ErrorKind::ConnectionAborted,
    ErrorKind::BrokenPipe,
    ErrorKind::UnexpectedEof,
    ErrorKind::InvalidData,
    ErrorKind::Other,
];
const MAX_INTERRUPTS: u32 = 3;

/// Reader whose every answer is a choice point. Option 0 = deliver everything requested.
struct ChoiceReader<'a> {
    data: &'a [u8],
    pos: usize,
    ch: &'a RefCell<Chooser>,
    interrupts: u32,
    /// (offset at which the failure was injected, what)
    failed: Option<(usize, String)>,
    calls: u32,
}
impl Read for ChoiceReader<'_> {
    fn read(&mut self, buf: &mut [u8]) -> io::Result<usize> {
        self.calls += 1;
        if buf.is_empty() {
            return Ok(0);
        }
        if let Some((_, what)) = &self.failed {
            // An end of stream stays one. An injected error was transient (a non-blocking stream that has
            // data again, a timeout that passed): the reader delivers from then on, so a wrapper that
            // retries past an error other than `Interrupted` returns Ok and is seen to have swallowed it.
            if what.starts_with("eof") {
                return Err(io::Error::new(ErrorKind::Other, "read after end of stream"));
            }
            let req = buf.len().min(self.data.len() - self.pos);
            buf[..req].copy_from_slice(&self.data[self.pos..self.pos + req]);
            self.pos += req;
            return Ok(req);
        }
        let avail = self.data.len() - self.pos;
        let req = buf.len().min(avail);
        if req == 0 {
            self.failed = Some((self.pos, "eof(no more data)".into()));
            return Ok(0);
        }
        // options: [full] [partial 1..req-1] [interrupt?] [eof] [8 error kinds]
        let n_partial = req - 1;
        let has_int = self.interrupts < MAX_INTERRUPTS;
        let n = 1 + n_partial + usize::from(has_int) + 1 + ERR_KINDS.len();
        let c = self.ch.borrow_mut().pick(n, "read");
        if c == 0 {
            buf[..req].copy_from_slice(&self.data[self.pos..self.pos + req]);
            self.pos += req;
            return Ok(req);
        }
        if c <= n_partial {
            buf[..c].copy_from_slice(&self.data[self.pos..self.pos + c]);
            self.pos += c;
            return Ok(c);
        }
        let mut c = c - n_partial - 1;
        if has_int {
            if c == 0 {
                self.interrupts += 1;
                return Err(io::Error::new(ErrorKind::Interrupted, "injected interruption"));
            }
            c -= 1;
        }
        if c == 0 {
            self.failed = Some((self.pos, "eof".into()));
            return Ok(0);
        }
        let k = ERR_KINDS[c - 1];
        self.failed = Some((self.pos, format!("{k:?}")));
        Err(io::Error::new(k, "injected failure"))
    }
}

struct ChoiceWriter<'a> {
    sink: Vec<u8>,
    ch: &'a RefCell<Chooser>,
    interrupts: u32,
    failed: Option<(usize, String)>,
}
impl Write for ChoiceWriter<'_> {
    fn write(&mut self, buf: &[u8]) -> io::Result<usize> {
        if buf.is_empty() {
            return Ok(0);
        }
        if let Some((_, what)) = &self.failed {
            // as for the reader: an injected error was transient, the writer accepts everything afterwards
            if what == "write-zero" {
                return Err(io::Error::new(ErrorKind::Other, "write after injected failure"));
            }
            self.sink.extend_from_slice(buf);
            return Ok(buf.len());
        }
        let n_partial = buf.len() - 1;
        let has_int = self.interrupts < MAX_INTERRUPTS;
        let n = 1 + n_partial + usize::from(has_int) + 1 + ERR_KINDS.len();
        let c = self.ch.borrow_mut().pick(n, "write");
        if c == 0 {
            self.sink.extend_from_slice(buf);
            return Ok(buf.len());
        }
        if c <= n_partial {
            self.sink.extend_from_slice(&buf[..c]);
            return Ok(c);
        }
        let mut c = c - n_partial - 1;
        if has_int {
            if c == 0 {
                self.interrupts += 1;
                return Err(io::Error::new(ErrorKind::Interrupted, "injected interruption"));
            }
            c -= 1;
        }
        if c == 0 {
            self.failed = Some((self.sink.len(), "write-zero".into()));
            return Ok(0);
        }
        let k = ERR_KINDS[c - 1];
        self.failed = Some((self.sink.len(), format!("{k:?}")));
        Err(io::Error::new(k, "injected failure"))
    }
    fn flush(&mut self) -> io::Result<()> {
        Ok(())
    }
}

#[derive(Clone, Copy, PartialEq, Eq, Debug)]
enum Kind {
    Server4,
    Client6,
    WrathServer,
}
impl Kind {
    fn parse(self, b: &[u8]) -> Hdr {
        match self {
            Kind::Server4 => parse_server4(b),
            Kind::Client6 => parse_client6(b),
            Kind::WrathServer => parse_wrath_server(b),
        }
    }
    fn layout(self, size: u32, op: u32) -> Vec<u8> {
        match self {
            Kind::Server4 => layout_server4(size, op),
            Kind::Client6 => layout_client6(size, op),
            Kind::WrathServer => layout_wrath_server(size, op),
        }
    }
    fn headers(self) -> Vec<(u32, u32)> {
        match self {
            Kind::Server4 => vec![(13, 0x1EE), (0xFFFF, 0xFF01)],
            Kind::Client6 => vec![(13, 0x1EE), (0xFFFF, 0xFF00_FF01)],
            Kind::WrathServer => vec![(13, 0x1EE), (0x7FFF, 0xFFFF), (0x8000, 0x1234), (0x7FFFFF, 0xFFFF)],
        }
    }
}

/// "Interrupt storm": k interruptions before every delivery; `one_by_one` delivers a single byte per
/// successful call. A wrapper must treat any number of interruptions as "changes nothing".
struct StormReader<'a> {
    data: &'a [u8],
    pos: usize,
    k: u32,
    pending: u32,
    one_by_one: bool,
}
impl Read for StormReader<'_> {
    fn read(&mut self, buf: &mut [u8]) -> io::Result<usize> {
        if buf.is_empty() {
            return Ok(0);
        }
        if self.pending > 0 {
            self.pending -= 1;
            return Err(io::Error::new(ErrorKind::Interrupted, "storm"));
        }
        self.pending = self.k;
        let n = if self.one_by_one { 1 } else { buf.len() }.min(self.data.len() - self.pos);
        buf[..n].copy_from_slice(&self.data[self.pos..self.pos + n]);
        self.pos += n;
        Ok(n)
    }
}
struct StormWriter {
    sink: Vec<u8>,
    k: u32,
    pending: u32,
    one_by_one: bool,
}
impl Write for StormWriter {
    fn write(&mut self, buf: &[u8]) -> io::Result<usize> {
        if buf.is_empty() {
            return Ok(0);
        }
        if self.pending > 0 {
            self.pending -= 1;
            return Err(io::Error::new(ErrorKind::Interrupted, "storm"));
        }
        self.pending = self.k;
        let n = if self.one_by_one { 1 } else { buf.len() };
        self.sink.extend_from_slice(&buf[..n]);
        Ok(n)
    }
    fn flush(&mut self) -> io::Result<()> {
        Ok(())
    }
}
const STORMS: [u32; 9] = [1, 2, 3, 4, 5, 8, 16, 100, 1000];

/// Operations of one (module, role, header kind, subject) combination on a subject type S.
struct DecOps<S> {
    name: String,
    /// plaintext header length(s): fixed, or 4/5 for the Wrath server header
    typed: Box<dyn Fn(&mut S, &[u8]) -> Hdr + Sync>,
    read: Box<dyn Fn(&mut S, &mut dyn Read) -> io::Result<Hdr> + Sync>,
    raw: Box<dyn Fn(&mut S, &mut [u8]) + Sync>,
    kind: Kind,
    /// Wrath only: first stage on 4 bytes (for the "fails at the fifth byte" state), and completion
    attempt4: Option<Box<dyn Fn(&mut S, [u8; 4]) + Sync>>,
    complete5: Option<Box<dyn Fn(&mut S, u8) -> Hdr + Sync>>,
}
struct EncOps<S> {
    name: String,
    typed: Box<dyn Fn(&mut S, u32, u32) -> Vec<u8> + Sync>,
    write: Box<dyn Fn(&mut S, &mut dyn Write, u32, u32) -> io::Result<()> + Sync>,
    raw: Box<dyn Fn(&mut S, &mut [u8]) + Sync>,
    kind: Kind,
}

fn parse_server4(b: &[u8]) -> Hdr {
    (u16::from_be_bytes([b[0], b[1]]) as u32, u16::from_le_bytes([b[2], b[3]]) as u32)
}
fn parse_client6(b: &[u8]) -> Hdr {
    (u16::from_be_bytes([b[0], b[1]]) as u32, u32::from_le_bytes([b[2], b[3], b[4], b[5]]))
}
fn parse_wrath_server(b: &[u8]) -> Hdr {
    if b.len() == 5 {
        (u32::from_be_bytes([0, b[0] & 0x7F, b[1], b[2]]), u16::from_le_bytes([b[3], b[4]]) as u32)
    } else {
        parse_server4(b)
    }
}
fn layout_server4(size: u32, op: u32) -> Vec<u8> {
    cipher::server_header_plain(size as u16, op as u16).to_vec()
}
fn layout_client6(size: u32, op: u32) -> Vec<u8> {
    cipher::client_header_plain(size as u16, op).to_vec()
}
fn layout_wrath_server(size: u32, op: u32) -> Vec<u8> {
    cipher::wrath_server_header_plain(size, op as u16)
}

fn arr<const N: usize>(b: &[u8]) -> [u8; N] {
    let mut a = [0u8; N];
    a.copy_from_slice(b);
    a
}

macro_rules! recurrence_module {
    ($modname:ident, $m:ident, $ctor:path) => {
        mod $modname {
            use super::*;
            use wow_srp::$m::{DecrypterHalf, EncrypterHalf, HeaderCrypto};
            pub fn comb(key: &[u8; 40]) -> HeaderCrypto {
                $ctor(key)
            }
            pub fn dec_half() -> Vec<DecOps<DecrypterHalf>> {
                vec![
                    DecOps {
                        name: format!("{}/half/server-header", stringify!($m)),
                        typed: Box::new(|s, b| { let h = s.decrypt_server_header(arr::<4>(b)); (h.size as u32, h.opcode as u32) }),
                        read: Box::new(|s, r| s.read_and_decrypt_server_header(r).map(|h| (h.size as u32, h.opcode as u32))),
                        raw: Box::new(|s, d| s.decrypt(d)),
                        kind: Kind::Server4,
                        attempt4: None,
                        complete5: None,
                    },
                    DecOps {
                        name: format!("{}/half/client-header", stringify!($m)),
                        typed: Box::new(|s, b| { let h = s.decrypt_client_header(arr::<6>(b)); (h.size as u32, h.opcode) }),
                        read: Box::new(|s, r| s.read_and_decrypt_client_header(r).map(|h| (h.size as u32, h.opcode))),
                        raw: Box::new(|s, d| s.decrypt(d)),
                        kind: Kind::Client6,
                        attempt4: None,
                        complete5: None,
                    },
                ]
            }
            pub fn dec_comb() -> Vec<DecOps<HeaderCrypto>> {
                vec![
                    DecOps {
                        name: format!("{}/combined/server-header", stringify!($m)),
                        typed: Box::new(|s, b| { let h = s.decrypt_server_header(arr::<4>(b)); (h.size as u32, h.opcode as u32) }),
                        read: Box::new(|s, r| s.read_and_decrypt_server_header(r).map(|h| (h.size as u32, h.opcode as u32))),
                        raw: Box::new(|s, d| s.decrypt(d)),
                        kind: Kind::Server4,
                        attempt4: None,
                        complete5: None,
                    },
                    DecOps {
                        name: format!("{}/combined/client-header", stringify!($m)),
                        typed: Box::new(|s, b| { let h = s.decrypt_client_header(arr::<6>(b)); (h.size as u32, h.opcode) }),
                        read: Box::new(|s, r| s.read_and_decrypt_client_header(r).map(|h| (h.size as u32, h.opcode))),
                        raw: Box::new(|s, d| s.decrypt(d)),
                        kind: Kind::Client6,
                        attempt4: None,
                        complete5: None,
                    },
                    DecOps {
                        name: format!("{}/combined-via-decrypter()/server-header", stringify!($m)),
                        typed: Box::new(|s, b| { let h = s.decrypter().decrypt_server_header(arr::<4>(b)); (h.size as u32, h.opcode as u32) }),
                        read: Box::new(|s, r| s.decrypter().read_and_decrypt_server_header(r).map(|h| (h.size as u32, h.opcode as u32))),
                        raw: Box::new(|s, d| s.decrypter().decrypt(d)),
                        kind: Kind::Server4,
                        attempt4: None,
                        complete5: None,
                    },
                ]
            }
            pub fn enc_half() -> Vec<EncOps<EncrypterHalf>> {
                vec![
                    EncOps {
                        name: format!("{}/half/server-header", stringify!($m)),
                        typed: Box::new(|s, sz, op| s.encrypt_server_header(sz as u16, op as u16).to_vec()),
                        write: Box::new(|s, w, sz, op| s.write_encrypted_server_header(w, sz as u16, op as u16)),
                        raw: Box::new(|s, d| s.encrypt(d)),
                        kind: Kind::Server4,
                    },
                    EncOps {
                        name: format!("{}/half/client-header", stringify!($m)),
                        typed: Box::new(|s, sz, op| s.encrypt_client_header(sz as u16, op).to_vec()),
                        write: Box::new(|s, w, sz, op| s.write_encrypted_client_header(w, sz as u16, op)),
                        raw: Box::new(|s, d| s.encrypt(d)),
                        kind: Kind::Client6,
                    },
                ]
            }
            pub fn enc_comb() -> Vec<EncOps<HeaderCrypto>> {
                vec![
                    EncOps {
                        name: format!("{}/combined/server-header", stringify!($m)),
                        typed: Box::new(|s, sz, op| s.encrypt_server_header(sz as u16, op as u16).to_vec()),
                        write: Box::new(|s, w, sz, op| s.write_encrypted_server_header(w, sz as u16, op as u16)),
                        raw: Box::new(|s, d| s.encrypt(d)),
                        kind: Kind::Server4,
                    },
                    EncOps {
                        name: format!("{}/combined/client-header", stringify!($m)),
                        typed: Box::new(|s, sz, op| s.encrypt_client_header(sz as u16, op).to_vec()),
                        write: Box::new(|s, w, sz, op| s.write_encrypted_client_header(w, sz as u16, op)),
                        raw: Box::new(|s, d| s.encrypt(d)),
                        kind: Kind::Client6,
                    },
                    EncOps {
                        name: format!("{}/combined-via-encrypter()/client-header", stringify!($m)),
                        typed: Box::new(|s, sz, op| s.encrypter().encrypt_client_header(sz as u16, op).to_vec()),
                        write: Box::new(|s, w, sz, op| s.encrypter().write_encrypted_client_header(w, sz as u16, op)),
                        raw: Box::new(|s, d| s.encrypter().encrypt(d)),
                        kind: Kind::Client6,
                    },
                ]
            }
        }
    };
}
recurrence_module!(van, vanilla_header, ciphers::vanilla);
recurrence_module!(tbcm, tbc_header, ciphers::tbc);

mod wr {
    use super::*;
    use wow_srp::wrath_header::*;
    fn two_step_half(s: &mut ClientDecrypterHalf, b: &[u8]) -> Hdr {
        match s.attempt_decrypt_server_header(arr::<4>(&b[..4])) {
            WrathServerAttempt::Header(h) => (h.size, h.opcode as u32),
            WrathServerAttempt::AdditionalByteRequired => {
                let h = s.decrypt_large_server_header(*b.get(4).unwrap_or(&0));
                (h.size, h.opcode as u32)
            }
        }
    }
    fn two_step_comb(s: &mut ClientCrypto, b: &[u8]) -> Hdr {
        match s.attempt_decrypt_server_header(arr::<4>(&b[..4])) {
            WrathServerAttempt::Header(h) => (h.size, h.opcode as u32),
            WrathServerAttempt::AdditionalByteRequired => {
                let h = s.decrypt_large_server_header(*b.get(4).unwrap_or(&0));
                (h.size, h.opcode as u32)
            }
        }
    }
    pub fn client_dec_half() -> Vec<DecOps<ClientDecrypterHalf>> {
        vec![DecOps {
            name: "wrath_header/client-half/server-header".into(),
            typed: Box::new(two_step_half),
            read: Box::new(|s, r| s.read_and_decrypt_server_header(r).map(|h| (h.size, h.opcode as u32))),
            raw: Box::new(|s, d| s.decrypt(d)),
            kind: Kind::WrathServer,
            attempt4: Some(Box::new(|s, b| { let _ = s.attempt_decrypt_server_header(b); })),
            complete5: Some(Box::new(|s, b| { let h = s.decrypt_large_server_header(b); (h.size, h.opcode as u32) })),
        }]
    }
    pub fn client_dec_comb() -> Vec<DecOps<ClientCrypto>> {
        vec![
            DecOps {
                name: "wrath_header/client-combined/server-header".into(),
                typed: Box::new(two_step_comb),
                read: Box::new(|s, r| s.read_and_decrypt_server_header(r).map(|h| (h.size, h.opcode as u32))),
                raw: Box::new(|s, d| s.decrypt(d)),
                kind: Kind::WrathServer,
                attempt4: Some(Box::new(|s, b| { let _ = s.attempt_decrypt_server_header(b); })),
                complete5: Some(Box::new(|s, b| { let h = s.decrypt_large_server_header(b); (h.size, h.opcode as u32) })),
            },
            DecOps {
                name: "wrath_header/client-combined-via-decrypter()/server-header".into(),
                typed: Box::new(|s, b| two_step_half(s.decrypter(), b)),
                read: Box::new(|s, r| s.decrypter().read_and_decrypt_server_header(r).map(|h| (h.size, h.opcode as u32))),
                raw: Box::new(|s, d| s.decrypter().decrypt(d)),
                kind: Kind::WrathServer,
                attempt4: Some(Box::new(|s, b| { let _ = s.decrypter().attempt_decrypt_server_header(b); })),
                complete5: Some(Box::new(|s, b| { let h = s.decrypter().decrypt_large_server_header(b); (h.size, h.opcode as u32) })),
            },
        ]
    }
    pub fn server_dec_half() -> Vec<DecOps<ServerDecrypterHalf>> {
        vec![DecOps {
            name: "wrath_header/server-half/client-header".into(),
            typed: Box::new(|s, b| { let h = s.decrypt_client_header(arr::<6>(b)); (h.size as u32, h.opcode) }),
            read: Box::new(|s, r| s.read_and_decrypt_client_header(r).map(|h| (h.size as u32, h.opcode))),
            raw: Box::new(|s, d| s.decrypt(d)),
            kind: Kind::Client6,
            attempt4: None,
            complete5: None,
        }]
    }
    pub fn server_dec_comb() -> Vec<DecOps<ServerCrypto>> {
        vec![
            DecOps {
                name: "wrath_header/server-combined/client-header".into(),
                typed: Box::new(|s, b| { let h = s.decrypt_client_header(arr::<6>(b)); (h.size as u32, h.opcode) }),
                read: Box::new(|s, r| s.read_and_decrypt_client_header(r).map(|h| (h.size as u32, h.opcode))),
                raw: Box::new(|s, d| s.decrypt(d)),
                kind: Kind::Client6,
                attempt4: None,
                complete5: None,
            },
            DecOps {
                name: "wrath_header/server-combined-via-decrypter()/client-header".into(),
                typed: Box::new(|s, b| { let h = s.decrypter().decrypt_client_header(arr::<6>(b)); (h.size as u32, h.opcode) }),
                read: Box::new(|s, r| s.decrypter().read_and_decrypt_client_header(r).map(|h| (h.size as u32, h.opcode))),
                raw: Box::new(|s, d| s.decrypter().decrypt(d)),
                kind: Kind::Client6,
                attempt4: None,
                complete5: None,
            },
        ]
    }
    pub fn client_enc_half() -> Vec<EncOps<ClientEncrypterHalf>> {
        vec![EncOps {
            name: "wrath_header/client-half/client-header".into(),
            typed: Box::new(|s, sz, op| s.encrypt_client_header(sz as u16, op).to_vec()),
            write: Box::new(|s, w, sz, op| s.write_encrypted_client_header(w, sz as u16, op)),
            raw: Box::new(|s, d| s.encrypt(d)),
            kind: Kind::Client6,
        }]
    }
    pub fn client_enc_comb() -> Vec<EncOps<ClientCrypto>> {
        vec![
            EncOps {
                name: "wrath_header/client-combined/client-header".into(),
                typed: Box::new(|s, sz, op| s.encrypt_client_header(sz as u16, op).to_vec()),
                write: Box::new(|s, w, sz, op| s.write_encrypted_client_header(w, sz as u16, op)),
                raw: Box::new(|s, d| s.encrypt(d)),
                kind: Kind::Client6,
            },
            EncOps {
                name: "wrath_header/client-combined-via-encrypter()/client-header".into(),
                typed: Box::new(|s, sz, op| s.encrypter().encrypt_client_header(sz as u16, op).to_vec()),
                write: Box::new(|s, w, sz, op| s.encrypter().write_encrypted_client_header(w, sz as u16, op)),
                raw: Box::new(|s, d| s.encrypter().encrypt(d)),
                kind: Kind::Client6,
            },
        ]
    }
    pub fn server_enc_half() -> Vec<EncOps<ServerEncrypterHalf>> {
        vec![EncOps {
            name: "wrath_header/server-half/server-header".into(),
            typed: Box::new(|s, sz, op| s.encrypt_server_header(sz, op as u16).to_vec()),
            write: Box::new(|s, w, sz, op| s.write_encrypted_server_header(w, sz, op as u16)),
            raw: Box::new(|s, d| s.encrypt(d)),
            kind: Kind::WrathServer,
        }]
    }
    pub fn server_enc_comb() -> Vec<EncOps<ServerCrypto>> {
        vec![
            EncOps {
                name: "wrath_header/server-combined/server-header".into(),
                typed: Box::new(|s, sz, op| s.encrypt_server_header(sz, op as u16).to_vec()),
                write: Box::new(|s, w, sz, op| s.write_encrypted_server_header(w, sz, op as u16)),
                raw: Box::new(|s, d| s.encrypt(d)),
                kind: Kind::WrathServer,
            },
            EncOps {
                name: "wrath_header/server-combined-via-encrypter()/server-header".into(),
                typed: Box::new(|s, sz, op| s.encrypter().encrypt_server_header(sz, op as u16).to_vec()),
                write: Box::new(|s, w, sz, op| s.encrypter().write_encrypted_server_header(w, sz, op as u16)),
                raw: Box::new(|s, d| s.encrypter().encrypt(d)),
                kind: Kind::WrathServer,
            },
        ]
    }
}

/// The reference stream for a subject: knows how to produce ciphertext for plaintext at the
/// current position (decrypt tests need valid ciphertext) and to advance.
#[derive(Clone)]
enum RefStream {
    Rec(Recurrence),
    Rc4(refmodel::hash::Rc4),
}
impl RefStream {
    fn enc(&mut self, d: &mut [u8]) {
        match self {
            RefStream::Rec(r) => r.enc(d),
            RefStream::Rc4(r) => r.apply(d),
        }
    }
}

struct Stats {
    read_execs: AtomicU64,
    write_execs: AtomicU64,
    read_fail_leaves: AtomicU64,
    read_ok_leaves: AtomicU64,
    write_fail_leaves: AtomicU64,
    write_ok_leaves: AtomicU64,
    fifth_byte_failures: AtomicU64,
    value_cases: AtomicU64,
    trees: AtomicU64,
}

const WARMUPS: [usize; 8] = [0, 1, 4, 6, 19, 39, 40, 255];

#[allow(clippy::too_many_arguments)]
fn dec_trees<S: Clone + Eq + Sync + Send + std::fmt::Debug>(
    report: &Report,
    stats: &Stats,
    key: &[u8; 40],
    fresh: &(dyn Fn() -> S + Sync),
    ref_fresh: &(dyn Fn() -> RefStream + Sync),
    ops: &DecOps<S>,
    warmups: &[usize],
) {
    for &w in warmups {
        // bring subject and reference to the same stream position through the RAW operation
        let mut start = fresh();
        let mut rs = ref_fresh();
        let mut warm = vec![0u8; w];
        rs.enc(&mut warm);
        (ops.raw)(&mut start, &mut warm.clone());
        for (size, op) in ops.kind.headers() {
            let plain = ops.kind.layout(size, op);
            let mut wire = plain.clone();
            let mut rs2 = rs.clone();
            rs2.enc(&mut wire);
            let expected = ops.kind.parse(&plain);
            if expected != (size, op) {
                mc::util::machinery_error(&format!("{}: reference layout/parse disagree for {size:#x}/{op:#x}", ops.name));
            }
            // yardstick: raw operation on a clone
            let mut after_raw = start.clone();
            let mut tmp = wire.clone();
            (ops.raw)(&mut after_raw, &mut tmp);
            if tmp != plain {
                report.violation(Violation {
                    signature: format!("C11|{}|raw-decrypt-differs-from-reference", ops.name),
                    scenario: "raw-decrypt".into(),
                    replay: json!({"session_key": hex(key), "warmup": w, "size": size, "opcode": op}),
                    detail: json!({"got": hex(&tmp), "want": hex(&plain)}),
                });
                continue;
            }
            // typed helper
            let mut o = start.clone();
            match catch(|| (ops.typed)(&mut o, &wire)) {
                Ok(h) => {
                    if h != expected || !(o == after_raw || next_bytes_equal(&o, &after_raw, &ops.raw)) {
                        report.violation(Violation {
                            signature: format!("C11|{}|typed-decrypt-disagrees-with-raw", ops.name),
                            scenario: "typed-decrypt".into(),
                            replay: json!({"session_key": hex(key), "warmup": w, "size": size, "opcode": op}),
                            detail: json!({"got": format!("{h:x?}"), "want": format!("{expected:x?}"), "object_equals_raw_clone": o == after_raw}),
                        });
                    }
                }
                Err(m) => report.violation(Violation {
                    signature: format!("C11|{}|typed-decrypt-panic", ops.name),
                    scenario: "typed-decrypt".into(),
                    replay: json!({"session_key": hex(key), "warmup": w, "size": size, "opcode": op}),
                    detail: json!({ "panic": m }),
                }),
            }
            // state after only the first stage (Wrath 5-byte header)
            let after_attempt: Option<S> = if wire.len() == 5 {
                ops.attempt4.as_ref().map(|f| {
                    let mut o = start.clone();
                    f(&mut o, arr::<4>(&wire[..4]));
                    o
                })
            } else {
                None
            };
            // the complete reader answer tree
            let mut wire_plus = wire.clone();
            wire_plus.push(0xAA);
            let (st, _outcomes, viols) = explore(None, 4, |ch0| {
                let ch = RefCell::new(std::mem::replace(ch0, Chooser::new(vec![])));
                let mut o = start.clone();
                let mut rd = ChoiceReader { data: &wire_plus, pos: 0, ch: &ch, interrupts: 0, failed: None, calls: 0 };
                let res = catch(|| (ops.read)(&mut o, &mut rd));
                let failed = rd.failed.clone();
                let pos = rd.pos;
                drop(rd);
                *ch0 = ch.into_inner();
                let res = match res {
                    Ok(r) => r,
                    Err(m) => return Err(format!("read wrapper panicked: {m}")),
                };
                match (res, failed) {
                    (Ok(h), None) => {
                        if h != expected {
                            return Err(format!("read wrapper returned {h:x?}, raw operation + layout parse gives {expected:x?}"));
                        }
                        if !(o == after_raw || next_bytes_equal(&o, &after_raw, &ops.raw)) {
                            return Err("after a successful read the object differs from a clone that performed the raw operation".into());
                        }
                        if pos != wire.len() {
                            return Err(format!("read wrapper consumed {pos} bytes of a {}-byte header", wire.len()));
                        }
                        stats.read_ok_leaves.fetch_add(1, Ordering::Relaxed);
                        Ok("ok".into())
                    }
                    (Ok(h), Some((at, what))) => Err(format!("reader failed with {what} at byte {at} but the wrapper returned Ok({h:x?})")),
                    (Err(e), None) => Err(format!("reader delivered every byte without failure but the wrapper returned Err({e})")),
                    (Err(_e), Some((at, what))) => {
                        stats.read_fail_leaves.fetch_add(1, Ordering::Relaxed);
                        if at >= 4 && wire.len() == 5 {
                            // failed at the fifth byte of a long Wrath header: exactly as after the 4-byte attempt
                            stats.fifth_byte_failures.fetch_add(1, Ordering::Relaxed);
                            let aa = after_attempt.as_ref().expect("attempt4");
                            if o != *aa {
                                return Err(format!("{what} at the fifth byte: object differs from one that only performed the 4-byte attempt"));
                            }
                            let h = (ops.complete5.as_ref().unwrap())(&mut o, wire[4]);
                            if h != expected || !(o == after_raw || next_bytes_equal(&o, &after_raw, &ops.raw)) {
                                return Err(format!("{what} at the fifth byte: supplying that byte later gives {h:x?}, expected {expected:x?} (object equal to raw clone: {})", o == after_raw));
                            }
                            Ok(format!("err-at-5th:{what}"))
                        } else {
                            if o != start {
                                return Err(format!("{what} at byte {at}: the failed read changed the decrypter state"));
                            }
                            Ok(format!("err:{what}"))
                        }
                    }
                }
            });
            stats.read_execs.fetch_add(st.executions, Ordering::Relaxed);
            stats.trees.fetch_add(1, Ordering::Relaxed);
            if !st.whole_tree {
                mc::util::machinery_error("reader tree not explored completely");
            }
            for (choices, msg) in viols {
                let class = msg.split(':').next().unwrap_or("").chars().take(60).collect::<String>();
                report.violation(Violation {
                    signature: format!("C11|{}|read|{}", ops.name, classify(&msg)),
                    scenario: "reader-fault-tree".into(),
                    replay: json!({"session_key": hex(key), "warmup": w, "size": size, "opcode": op, "reader_choices": choices}),
                    detail: json!({ "message": msg, "class": class }),
                });
            }
            // interrupt storms (outside the tree, which bounds interruptions)
            for &k in &STORMS {
                for one_by_one in [false, true] {
                    let mut o = start.clone();
                    let mut rd = StormReader { data: &wire_plus, pos: 0, k, pending: k, one_by_one };
                    let res = catch(|| (ops.read)(&mut o, &mut rd));
                    stats.read_execs.fetch_add(1, Ordering::Relaxed);
                    let bad = match res {
                        Ok(Ok(h)) => {
                            if h != expected || rd.pos != wire.len() || !(o == after_raw || next_bytes_equal(&o, &after_raw, &ops.raw)) {
                                Some(format!("returned {h:x?} (expected {expected:x?}), consumed {} of {} bytes", rd.pos, wire.len()))
                            } else {
                                None
                            }
                        }
                        Ok(Err(e)) => Some(format!("returned Err({e}) although the reader only ever interrupted and then delivered")),
                        Err(m) => Some(format!("panicked: {m}")),
                    };
                    if let Some(m) = bad {
                        report.violation(Violation {
                            signature: format!("C11|{}|read|interrupt-storm", ops.name),
                            scenario: "reader-interrupt-storm".into(),
                            replay: json!({"session_key": hex(key), "warmup": w, "size": size, "opcode": op, "interruptions_before_each_delivery": k, "one_byte_per_delivery": one_by_one}),
                            detail: json!({"message": format!("{k} interruptions before each delivery: the read wrapper {m}")}),
                        });
                    }
                }
            }
        }
    }
}

fn classify(msg: &str) -> &'static str {
    if msg.contains("changed the decrypter state") {
        "failed-read-changed-state"
    } else if msg.contains("fifth byte") {
        "fifth-byte"
    } else if msg.contains("returned Ok(") && msg.contains("failed with") {
        "error-swallowed"
    } else if msg.contains("panicked") {
        "panic"
    } else if msg.contains("consumed") {
        "consumed"
    } else if msg.contains("without failure") {
        "spurious-error"
    } else if msg.contains("prefix") {
        "sink-not-prefix"
    } else {
        "mismatch"
    }
}

#[allow(clippy::too_many_arguments)]
fn enc_trees<S: Clone + Eq + Sync + Send + std::fmt::Debug>(
    report: &Report,
    stats: &Stats,
    key: &[u8; 40],
    fresh: &(dyn Fn() -> S + Sync),
    ref_fresh: &(dyn Fn() -> RefStream + Sync),
    ops: &EncOps<S>,
    warmups: &[usize],
) {
    for &w in warmups {
        let mut start = fresh();
        let mut rs = ref_fresh();
        let mut warm = vec![0u8; w];
        (ops.raw)(&mut start, &mut warm);
        let mut warm2 = vec![0u8; w];
        rs.enc(&mut warm2);
        if warm != warm2 {
            report.violation(Violation {
                signature: format!("C11|{}|raw-encrypt-differs-from-reference", ops.name),
                scenario: "raw-encrypt".into(),
                replay: json!({"session_key": hex(key), "warmup": w}),
                detail: json!({"got": hex(&warm), "want": hex(&warm2)}),
            });
            continue;
        }
        for (size, op) in ops.kind.headers() {
            let plain = ops.kind.layout(size, op);
            let mut after_raw = start.clone();
            let mut wire = plain.clone();
            (ops.raw)(&mut after_raw, &mut wire);
            let mut want = plain.clone();
            rs.clone().enc(&mut want);
            if wire != want {
                report.violation(Violation {
                    signature: format!("C11|{}|raw-encrypt-differs-from-reference", ops.name),
                    scenario: "raw-encrypt".into(),
                    replay: json!({"session_key": hex(key), "warmup": w, "size": size, "opcode": op}),
                    detail: json!({"got": hex(&wire), "want": hex(&want)}),
                });
                continue;
            }
            let mut o = start.clone();
            match catch(|| (ops.typed)(&mut o, size, op)) {
                Ok(b) => {
                    // the Wrath server encrypter keeps its last emitted header in a scratch buffer, which the
                    // raw operation does not write: compare behaviour (next bytes), not the scratch buffer
                    let same_state = o == after_raw || next_bytes_equal(&o, &after_raw, &ops.raw);
                    if b != wire || !same_state {
                        report.violation(Violation {
                            signature: format!("C11|{}|typed-encrypt-disagrees-with-raw", ops.name),
                            scenario: "typed-encrypt".into(),
                            replay: json!({"session_key": hex(key), "warmup": w, "size": size, "opcode": op}),
                            detail: json!({"got": hex(&b), "want": hex(&wire), "state_equals_raw_clone": same_state}),
                        });
                    }
                }
                Err(m) => report.violation(Violation {
                    signature: format!("C11|{}|typed-encrypt-panic", ops.name),
                    scenario: "typed-encrypt".into(),
                    replay: json!({"session_key": hex(key), "warmup": w, "size": size, "opcode": op}),
                    detail: json!({ "panic": m }),
                }),
            }
            let (st, _o, viols) = explore(None, 4, |ch0| {
                let ch = RefCell::new(std::mem::replace(ch0, Chooser::new(vec![])));
                let mut o = start.clone();
                let mut wr = ChoiceWriter { sink: vec![], ch: &ch, interrupts: 0, failed: None };
                let res = catch(|| (ops.write)(&mut o, &mut wr, size, op));
                let failed = wr.failed.clone();
                let sink = std::mem::take(&mut wr.sink);
                drop(wr);
                *ch0 = ch.into_inner();
                let res = match res {
                    Ok(r) => r,
                    Err(m) => return Err(format!("write wrapper panicked: {m}")),
                };
                if !wire.starts_with(&sink) {
                    return Err(format!("bytes accepted by the sink {} are not a prefix of the ciphertext {}", hex(&sink), hex(&wire)));
                }
                match (res, failed) {
                    (Ok(()), None) => {
                        if sink != wire {
                            return Err(format!("write wrapper returned Ok but the sink holds {} instead of {}", hex(&sink), hex(&wire)));
                        }
                        if !(o == after_raw || next_bytes_equal(&o, &after_raw, &ops.raw)) {
                            return Err("after a successful write the encrypter differs from a clone that performed the raw operation".into());
                        }
                        stats.write_ok_leaves.fetch_add(1, Ordering::Relaxed);
                        Ok("ok".into())
                    }
                    (Ok(()), Some((at, what))) => Err(format!("writer failed with {what} at byte {at} but the wrapper returned Ok(()) - error swallowed")),
                    (Err(e), None) => Err(format!("writer accepted every byte without failure but the wrapper returned Err({e})")),
                    (Err(_), Some((_, what))) => {
                        // after a reported failure the encrypter is in a DEFINED state: as after the raw operation (the header
                        // was encrypted, the unchanged library's behaviour) or untouched (rolled back completely) - never a mixture
                        let as_raw = o == after_raw || next_bytes_equal(&o, &after_raw, &ops.raw);
                        let untouched = o == start || next_bytes_equal(&o, &start, &ops.raw);
                        if !as_raw && !untouched {
                            return Err("after a failed write the encrypter is neither in the state after the raw operation nor in the state before the call".into());
                        }
                        stats.write_fail_leaves.fetch_add(1, Ordering::Relaxed);
                        Ok(format!("err:{what}"))
                    }
                }
            });
            stats.write_execs.fetch_add(st.executions, Ordering::Relaxed);
            stats.trees.fetch_add(1, Ordering::Relaxed);
            if !st.whole_tree {
                mc::util::machinery_error("writer tree not explored completely");
            }
            for (choices, msg) in viols {
                let cls = if msg.contains("swallowed") { "error-swallowed" } else { classify(&msg) };
                report.violation(Violation {
                    signature: format!("C11|{}|write|{}", ops.name, cls),
                    scenario: "writer-fault-tree".into(),
                    replay: json!({"session_key": hex(key), "warmup": w, "size": size, "opcode": op, "writer_choices": choices}),
                    detail: json!({ "message": msg }),
                });
            }
            for &k in &STORMS {
                for one_by_one in [false, true] {
                    let mut o = start.clone();
                    let mut wr = StormWriter { sink: vec![], k, pending: k, one_by_one };
                    let res = catch(|| (ops.write)(&mut o, &mut wr, size, op));
                    stats.write_execs.fetch_add(1, Ordering::Relaxed);
                    let bad = match res {
                        Ok(Ok(())) => {
                            if wr.sink != wire {
                                Some(format!("returned Ok but the sink holds {} instead of {}", hex(&wr.sink), hex(&wire)))
                            } else {
                                None
                            }
                        }
                        Ok(Err(e)) => Some(format!("returned Err({e}) although the writer only ever interrupted and then accepted")),
                        Err(m) => Some(format!("panicked: {m}")),
                    };
                    if let Some(m) = bad {
                        report.violation(Violation {
                            signature: format!("C11|{}|write|interrupt-storm", ops.name),
                            scenario: "writer-interrupt-storm".into(),
                            replay: json!({"session_key": hex(key), "warmup": w, "size": size, "opcode": op, "interruptions_before_each_accept": k, "one_byte_per_accept": one_by_one}),
                            detail: json!({"message": format!("{k} interruptions before each accepted write: the write wrapper {m}")}),
                        });
                    }
                }
            }
        }
    }
}

/// Behavioural equality of two encrypters: the next 64 bytes they produce are the same.
fn next_bytes_equal<S: Clone>(a: &S, b: &S, raw: &(dyn Fn(&mut S, &mut [u8]) + Sync)) -> bool {
    let (mut a, mut b) = (a.clone(), b.clone());
    let mut x = [0u8; 64];
    let mut y = [0u8; 64];
    raw(&mut a, &mut x);
    raw(&mut b, &mut y);
    x == y
}

/// E3: typed helpers vs raw operation on the wire layout for whole value ranges, on a running connection.
fn enc_values<S: Clone + Eq>(report: &Report, stats: &Stats, key: &[u8; 40], fresh: &dyn Fn() -> S, ops: &EncOps<S>, values: &[(u32, u32)]) {
    let mut typed = fresh();
    let mut raw = fresh();
    let mut n = 0u64;
    for &(size, op) in values {
        let b = (ops.typed)(&mut typed, size, op);
        let mut w = ops.kind.layout(size, op);
        (ops.raw)(&mut raw, &mut w);
        if b != w {
            report.violation(Violation {
                signature: format!("C11|{}|typed-encrypt-disagrees-with-raw", ops.name),
                scenario: "value-sweep-encrypt".into(),
                replay: json!({"session_key": hex(key), "size": size, "opcode": op, "headers_before": n}),
                detail: json!({"typed": hex(&b), "raw_on_layout": hex(&w)}),
            });
            return;
        }
        n += 1;
    }
    stats.value_cases.fetch_add(n, Ordering::Relaxed);
}
fn dec_values<S: Clone + Eq>(
    report: &Report,
    stats: &Stats,
    key: &[u8; 40],
    fresh: &dyn Fn() -> S,
    ref_fresh: &dyn Fn() -> RefStream,
    ops: &DecOps<S>,
    values: &[(u32, u32)],
) {
    let mut typed = fresh();
    let mut raw = fresh();
    let mut via_read = fresh();
    let mut mixed = fresh();
    let mut rs = ref_fresh();
    let mut n = 0u64;
    for &(size, op) in values {
        let plain = ops.kind.layout(size, op);
        let mut wire = plain.clone();
        rs.enc(&mut wire);
        // one object driven through a DIFFERENT entry point for every header (typed, reader, raw, typed, ...): a flag or
        // stash one entry point leaves behind for itself must not confuse the next one
        {
            let got = match n % 3 {
                0 => Some((ops.typed)(&mut mixed, &wire)),
                1 => (ops.read)(&mut mixed, &mut std::io::Cursor::new(&wire[..])).ok(),
                _ => {
                    let mut w = wire.clone();
                    (ops.raw)(&mut mixed, &mut w);
                    Some(ops.kind.parse(&w))
                }
            };
            if got != Some((size, op)) {
                report.violation(Violation {
                    signature: format!("C11|{}|entry-points-mixed-on-one-object", ops.name),
                    scenario: "value-sweep-decrypt".into(),
                    replay: json!({"session_key": hex(key), "size": size, "opcode": op, "headers_before": n, "entry_point": (["typed", "reader", "raw"][(n % 3) as usize])}),
                    detail: json!({"decoded": format!("{got:x?}"), "sent": format!("{:x?}", (size, op)), "note": "the headers before this one went through the other entry points of the same object"}),
                });
                return;
            }
        }
        // the reader-based entry point decodes every value the typed one decodes (no value is "invalid data")
        {
            let mut cur = std::io::Cursor::new(&wire[..]);
            let r = (ops.read)(&mut via_read, &mut cur);
            if r.as_ref().ok() != Some(&(size, op)) {
                report.violation(Violation {
                    signature: format!("C11|{}|read-decrypt-disagrees-with-typed", ops.name),
                    scenario: "value-sweep-decrypt".into(),
                    replay: json!({"session_key": hex(key), "size": size, "opcode": op, "headers_before": n}),
                    detail: json!({"read_entry_point": format!("{:x?}", r.map_err(|e| e.to_string())), "sent": format!("{:x?}", (size, op))}),
                });
                return;
            }
        }
        let h = (ops.typed)(&mut typed, &wire);
        let mut w = wire.clone();
        (ops.raw)(&mut raw, &mut w);
        if h != (size, op) || ops.kind.parse(&w) != (size, op) || !(typed == raw || next_bytes_equal(&typed, &raw, &ops.raw)) {
            report.violation(Violation {
                signature: format!("C11|{}|typed-decrypt-disagrees-with-raw", ops.name),
                scenario: "value-sweep-decrypt".into(),
                replay: json!({"session_key": hex(key), "size": size, "opcode": op, "headers_before": n}),
                detail: json!({"typed": format!("{h:x?}"), "raw_parsed": format!("{:x?}", ops.kind.parse(&w)), "objects_equal": typed == raw}),
            });
            return;
        }
        n += 1;
    }
    stats.value_cases.fetch_add(n, Ordering::Relaxed);
}

fn value_lists(tier: Tier) -> (Vec<(u32, u32)>, Vec<(u32, u32)>, Vec<(u32, u32)>) {
    // (server16: size u16 x opcode u16, client: size u16 x opcode u32, wrath server: size u23 x opcode u16)
    let op16: Vec<u32> = vec![0, 1, 0xFF, 0x100, 0x1EE, 0x7FFF, 0x8000, 0xFF00, 0xFFFF, 0x1234, 0x3412];
    let sz16: Vec<u32> = vec![0, 1, 0xFF, 0x100, 0x7FFF, 0x8000, 0xFF00, 0xFFFF, 0x1234, 0x3412];
    let mut server = vec![];
    let step = tier.pick(1usize, 1usize);
    for s in (0..=0xFFFFu32).step_by(step) {
        for &o in if tier == Tier::Thorough { &op16[..] } else { &op16[..4] } {
            server.push((s, o));
        }
    }
    for o in 0..=0xFFFFu32 {
        for &s in if tier == Tier::Thorough { &sz16[..] } else { &sz16[..4] } {
            server.push((s, o));
        }
    }
    let mut client = vec![];
    let mut op32: Vec<u32> = vec![0, 1, 0x1EE, 0xFFFF_FFFF, 0x0102_0304, 0x0403_0201, 0x8000_0000, 0x7FFF_FFFF];
    for lane in 0..4 {
        for v in 0..=255u32 {
            op32.push(v << (8 * lane));
            op32.push(0xFFFF_FFFF ^ (v << (8 * lane)));
        }
    }
    for k in 0..32 {
        op32.push(1 << k);
    }
    op32.sort();
    op32.dedup();
    for &o in &op32 {
        for &s in &sz16 {
            client.push((s, o));
        }
    }
    for s in 0..=0xFFFFu32 {
        for &o in &[0u32, 0x0102_0304, 0xFFFF_FFFF] {
            client.push((s, o));
        }
    }
    let mut wrath = vec![];
    let szw: Vec<u32> = vec![0, 1, 0x7FFE, 0x7FFF, 0x8000, 0x8001, 0xFFFF, 0x10000, 0x3FFFFF, 0x400000, 0x7F0000, 0x7FFFFF];
    for o in 0..=0xFFFFu32 {
        for &s in if tier == Tier::Thorough { &szw[..] } else { &szw[2..6] } {
            wrath.push((s, o));
        }
    }
    let stepw = tier.pick(97usize, 1usize);
    for s in (0..=0x7FFFFFu32).step_by(stepw) {
        wrath.push((s, 0x1EE));
    }
    for s in 0x7F00..=0x8100u32 {
        wrath.push((s, 0xFFFF));
    }
    (server, client, wrath)
}

pub fn run(tier: Tier, seed: u64) -> i32 {
    let report = Report::new("C11", tier, seed, "fault_enumeration");
    let stats = Stats {
        read_execs: AtomicU64::new(0),
        write_execs: AtomicU64::new(0),
        read_fail_leaves: AtomicU64::new(0),
        read_ok_leaves: AtomicU64::new(0),
        write_fail_leaves: AtomicU64::new(0),
        write_ok_leaves: AtomicU64::new(0),
        fifth_byte_failures: AtomicU64::new(0),
        value_cases: AtomicU64::new(0),
        trees: AtomicU64::new(0),
    };
    let keys: Vec<[u8; 40]> = key40s(seed, 1).into_iter().skip(tier.pick(3, 1)).collect();
    let warm: Vec<usize> = if tier == Tier::Thorough { WARMUPS.to_vec() } else { vec![0, 6, 39, 255] };
    let (v_server, v_client, v_wrath) = value_lists(tier);

    // one job per (module, subject kind, ops entry); run them in parallel
    let mut jobs: Vec<Box<dyn Fn() + Sync + Send + '_>> = vec![];
    for key in &keys {
        let key = *key;
        macro_rules! rec_jobs {
            ($md:ident, $refctor:expr) => {{
                let rf = move || RefStream::Rec($refctor(&key));
                for i in 0..$md::dec_half().len() {
                    let (report, stats, warm, v_server, v_client) = (&report, &stats, &warm, &v_server, &v_client);
                    jobs.push(Box::new(move || {
                        let ops = $md::dec_half().remove(i);
                        let fresh = || $md::comb(&key).split().1;
                        dec_trees(report, stats, &key, &fresh, &rf, &ops, warm);
                        let vals = if ops.kind == Kind::Client6 { v_client } else { v_server };
                        dec_values(report, stats, &key, &fresh, &rf, &ops, vals);
                    }));
                }
                for i in 0..$md::dec_comb().len() {
                    let (report, stats, warm, v_server, v_client) = (&report, &stats, &warm, &v_server, &v_client);
                    jobs.push(Box::new(move || {
                        let ops = $md::dec_comb().remove(i);
                        let fresh = || $md::comb(&key);
                        dec_trees(report, stats, &key, &fresh, &rf, &ops, warm);
                        let vals = if ops.kind == Kind::Client6 { v_client } else { v_server };
                        dec_values(report, stats, &key, &fresh, &rf, &ops, vals);
                    }));
                }
                for i in 0..$md::enc_half().len() {
                    let (report, stats, warm, v_server, v_client) = (&report, &stats, &warm, &v_server, &v_client);
                    jobs.push(Box::new(move || {
                        let ops = $md::enc_half().remove(i);
                        let fresh = || $md::comb(&key).split().0;
                        enc_trees(report, stats, &key, &fresh, &rf, &ops, warm);
                        let vals = if ops.kind == Kind::Client6 { v_client } else { v_server };
                        enc_values(report, stats, &key, &fresh, &ops, vals);
                    }));
                }
                for i in 0..$md::enc_comb().len() {
                    let (report, stats, warm, v_server, v_client) = (&report, &stats, &warm, &v_server, &v_client);
                    jobs.push(Box::new(move || {
                        let ops = $md::enc_comb().remove(i);
                        let fresh = || $md::comb(&key);
                        enc_trees(report, stats, &key, &fresh, &rf, &ops, warm);
                        let vals = if ops.kind == Kind::Client6 { v_client } else { v_server };
                        enc_values(report, stats, &key, &fresh, &ops, vals);
                    }));
                }
            }};
        }
        rec_jobs!(van, Recurrence::vanilla);
        rec_jobs!(tbcm, Recurrence::tbc);

        // Wrath
        let s2c = move || RefStream::Rc4(cipher::wrath_stream(&key, Dir::ServerToClient));
        let c2s = move || RefStream::Rc4(cipher::wrath_stream(&key, Dir::ClientToServer));
        {
            let (report, stats, warm, v_client, v_wrath) = (&report, &stats, &warm, &v_client, &v_wrath);
            jobs.push(Box::new(move || {
                let ops = wr::client_dec_half().remove(0);
                let fresh = || ciphers::wrath_client(&key).split().1;
                dec_trees(report, stats, &key, &fresh, &s2c, &ops, warm);
                dec_values(report, stats, &key, &fresh, &s2c, &ops, v_wrath);
            }));
            for i in 0..wr::client_dec_comb().len() {
                jobs.push(Box::new(move || {
                    let ops = wr::client_dec_comb().remove(i);
                    let fresh = || ciphers::wrath_client(&key);
                    dec_trees(report, stats, &key, &fresh, &s2c, &ops, warm);
                    dec_values(report, stats, &key, &fresh, &s2c, &ops, v_wrath);
                }));
            }
            jobs.push(Box::new(move || {
                let ops = wr::server_dec_half().remove(0);
                let fresh = || ciphers::wrath_server(&key).split().1;
                dec_trees(report, stats, &key, &fresh, &c2s, &ops, warm);
                dec_values(report, stats, &key, &fresh, &c2s, &ops, v_client);
            }));
            jobs.push(Box::new(move || {
                let ops = wr::server_dec_comb().remove(0);
                let fresh = || ciphers::wrath_server(&key);
                dec_trees(report, stats, &key, &fresh, &c2s, &ops, warm);
                dec_values(report, stats, &key, &fresh, &c2s, &ops, v_client);
            }));
            jobs.push(Box::new(move || {
                let ops = wr::client_enc_half().remove(0);
                let fresh = || ciphers::wrath_client(&key).split().0;
                enc_trees(report, stats, &key, &fresh, &c2s, &ops, warm);
                enc_values(report, stats, &key, &fresh, &ops, v_client);
            }));
            jobs.push(Box::new(move || {
                let ops = wr::client_enc_comb().remove(0);
                let fresh = || ciphers::wrath_client(&key);
                enc_trees(report, stats, &key, &fresh, &c2s, &ops, warm);
                enc_values(report, stats, &key, &fresh, &ops, v_client);
            }));
            jobs.push(Box::new(move || {
                let ops = wr::server_enc_half().remove(0);
                let fresh = || ciphers::wrath_server(&key).split().0;
                enc_trees(report, stats, &key, &fresh, &s2c, &ops, warm);
                enc_values(report, stats, &key, &fresh, &ops, v_wrath);
            }));
            jobs.push(Box::new(move || {
                let ops = wr::server_enc_comb().remove(0);
                let fresh = || ciphers::wrath_server(&key);
                enc_trees(report, stats, &key, &fresh, &s2c, &ops, warm);
                enc_values(report, stats, &key, &fresh, &ops, v_wrath);
            }));
        }
    }
    report.count("entry_point_jobs", jobs.len() as u64);
    jobs.par_iter().for_each(|j| j());
    drop(jobs);

    let re = stats.read_execs.load(Ordering::Relaxed);
    let we = stats.write_execs.load(Ordering::Relaxed);
    let vc = stats.value_cases.load(Ordering::Relaxed);
    report.count("reader_tree_executions", re);
    report.count("writer_tree_executions", we);
    report.count("reader_ok_leaves", stats.read_ok_leaves.load(Ordering::Relaxed));
    report.require("reader_failure_leaves");
    report.count("reader_failure_leaves", stats.read_fail_leaves.load(Ordering::Relaxed));
    report.count("writer_ok_leaves", stats.write_ok_leaves.load(Ordering::Relaxed));
    report.require("writer_failure_leaves");
    report.count("writer_failure_leaves", stats.write_fail_leaves.load(Ordering::Relaxed));
    report.require("wrath_fifth_byte_failures");
    report.count("wrath_fifth_byte_failures", stats.fifth_byte_failures.load(Ordering::Relaxed));
    report.count("fault_trees_closed", stats.trees.load(Ordering::Relaxed));
    report.count("typed_vs_raw_value_cases", vc);
    report.set("evaluations", json!(re + we + vc));
    report.set("distinct_nontrivial", json!(stats.read_fail_leaves.load(Ordering::Relaxed) + stats.write_fail_leaves.load(Ordering::Relaxed)));
    report.set("rule", json!("every read()/write() call of the wrapper is a choice point {all, each partial length, Interrupted (<=2), Ok(0), 8 error kinds}; the whole finite answer tree is executed on the real wrapper for each (module, role, header kind, half/combined, start state, header value); distinct_nontrivial = leaves in which a failure was injected (each a distinct fault sequence)"));
    report.set("states", json!(re + we));
    report.set("transitions", json!(re + we + vc));
    report.set("traces_validated_against_impl", json!(re + we));
    report.sample("reader-fault", json!({"header": "wrath server 5-byte, size 0x8000", "answers": ["deliver 2 of 4", "Interrupted", "deliver 2", "ConnectionReset on 5th byte"], "expected": "Err, decrypter == clone after attempt_decrypt_server_header(first 4); decrypt_large_server_header(5th) completes it"}));
    report.sample("writer-fault", json!({"header": "vanilla server 4-byte", "answers": ["accept 1 of 4", "Ok(0)"], "expected": "Err(WriteZero) from the wrapper, sink holds the first ciphertext byte"}));
    report.space(&format!("complete reader and writer answer trees (no deviation bound) for every entry point of vanilla/tbc/wrath x half/combined x {} start states x 2-4 header values x {} keys", warm.len(), keys.len()));
    report.space("interrupt storms: 1,2,3,4,5,8,16,100,1000 interruptions before every delivery/accept (all at once or one byte at a time) for every entry point, start state and header value");
    report.space("typed helpers vs raw operation on the wire layout: all 2^16 sizes and all 2^16 opcodes against alphabets (server headers), every byte lane of the u32 client opcode, Wrath sizes/opcodes");
    report.assume("nothing is asserted about the encrypter's state after a FAILED write (the property does not state it); error kinds returned by the wrappers are recorded, not judged");
    report.finish()
}
