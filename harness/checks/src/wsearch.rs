//! One-off search for login witnesses whose verifier / public keys have FOUR high-order zero bytes
//! (value < 2^224: one 32-bit limb short) or lie just below N. An honest login reaches such a value
//! once in about 2^31, so no enumeration of logins contains one; conversions that work limb-wise
//! behave differently exactly there. The search never touches the code under test and its output is
//! not trusted: every check run re-derives each witness's class with the reference model first.
//!
//! Arithmetic here is a small Montgomery implementation (4 x u64), self-tested against the reference
//! model's bigint before use.

use mc::util::hex;
use rayon::prelude::*;
use refmodel::big::U;
use refmodel::srp;
use serde_json::json;
use std::sync::atomic::{AtomicBool, AtomicU64, Ordering};
use std::sync::Mutex;

type L = [u64; 4];

fn to_l(u: &U) -> L {
    let b = u.to_le_padded::<32>();
    let mut l = [0u64; 4];
    for i in 0..4 {
        l[i] = u64::from_le_bytes(b[8 * i..8 * i + 8].try_into().unwrap());
    }
    l
}
fn l_bytes(l: &L) -> [u8; 32] {
    let mut b = [0u8; 32];
    for i in 0..4 {
        b[8 * i..8 * i + 8].copy_from_slice(&l[i].to_le_bytes());
    }
    b
}
fn geq(a: &L, b: &L) -> bool {
    for i in (0..4).rev() {
        if a[i] != b[i] {
            return a[i] > b[i];
        }
    }
    true
}
fn sub(a: &L, b: &L) -> L {
    let mut r = [0u64; 4];
    let mut br = 0u64;
    for i in 0..4 {
        let (x, b1) = a[i].overflowing_sub(b[i]);
        let (y, b2) = x.overflowing_sub(br);
        r[i] = y;
        br = (b1 | b2) as u64;
    }
    r
}
/// (a + b) mod n for a, b < n < 2^256
fn addmod(a: &L, b: &L, n: &L) -> L {
    let mut r = [0u64; 4];
    let mut c = 0u64;
    for i in 0..4 {
        let x = a[i] as u128 + b[i] as u128 + c as u128;
        r[i] = x as u64;
        c = (x >> 64) as u64;
    }
    if c == 1 || geq(&r, n) {
        sub(&r, n)
    } else {
        r
    }
}

struct Mont {
    n: L,
    n0: u64,
    r2: L,
}
impl Mont {
    fn new(n: &U) -> Mont {
        let nl = to_l(n);
        // n0 = -n^-1 mod 2^64 by Newton iteration
        let mut inv = 1u64;
        for _ in 0..6 {
            inv = inv.wrapping_mul(2u64.wrapping_sub(nl[0].wrapping_mul(inv)));
        }
        let mut r2b = [0u8; 65];
        r2b[64] = 1;
        let r2 = to_l(&U::from_le_bytes(&r2b).rem(n));
        Mont { n: nl, n0: inv.wrapping_neg(), r2 }
    }
    fn mul(&self, a: &L, b: &L) -> L {
        let n = &self.n;
        let mut t = [0u64; 6];
        for i in 0..4 {
            let mut c: u128 = 0;
            for j in 0..4 {
                let x = t[j] as u128 + (a[j] as u128) * (b[i] as u128) + c;
                t[j] = x as u64;
                c = x >> 64;
            }
            let x = t[4] as u128 + c;
            t[4] = x as u64;
            t[5] = (x >> 64) as u64;
            let m = t[0].wrapping_mul(self.n0);
            let mut c: u128 = (t[0] as u128 + (m as u128) * (n[0] as u128)) >> 64;
            for j in 1..4 {
                let x = t[j] as u128 + (m as u128) * (n[j] as u128) + c;
                t[j - 1] = x as u64;
                c = x >> 64;
            }
            let x = t[4] as u128 + c;
            t[3] = x as u64;
            t[4] = t[5] + ((x >> 64) as u64);
        }
        let r = [t[0], t[1], t[2], t[3]];
        if t[4] != 0 || geq(&r, n) {
            sub(&r, n)
        } else {
            r
        }
    }
    fn to(&self, a: &L) -> L {
        self.mul(a, &self.r2)
    }
    fn from(&self, a: &L) -> L {
        self.mul(a, &[1, 0, 0, 0])
    }
}

fn selftest(m: &Mont, n: &U) {
    for i in 0..2000u64 {
        let a = U::from_le_bytes(&refmodel::ctr_bytes(9, &format!("ws-a-{i}"), 32)).rem(n);
        let b = U::from_le_bytes(&refmodel::ctr_bytes(9, &format!("ws-b-{i}"), 32)).rem(n);
        let want = a.mulmod(&b, n);
        let got = m.from(&m.mul(&m.to(&to_l(&a)), &m.to(&to_l(&b))));
        if got != to_l(&want) {
            mc::util::machinery_error("witness search: Montgomery self-test failed");
        }
        let s = addmod(&to_l(&a), &to_l(&b), &m.n);
        if s != to_l(&a.add(&b).rem(n)) {
            mc::util::machinery_error("witness search: addmod self-test failed");
        }
    }
}

fn inc_le(b: &mut [u8; 32]) {
    for x in b.iter_mut() {
        *x = x.wrapping_add(1);
        if *x != 0 {
            break;
        }
    }
}

pub fn run() {
    use crate::logins::in_class;
    let n = srp::n_builtin();
    let m = Mont::new(&n);
    selftest(&m, &n);
    let nl = m.n;
    let mut found: std::collections::BTreeMap<String, serde_json::Value> = Default::default();
    if let Ok(t) = std::fs::read_to_string(crate::logins::witnesses_path()) {
        if let Ok(serde_json::Value::Array(a)) = serde_json::from_str::<serde_json::Value>(&t) {
            for w in a {
                if let Some(c) = w["class"].as_str() {
                    found.insert(c.to_string(), w.clone());
                }
            }
        }
    }
    let threads = rayon::current_num_threads() as u64;
    let other_b = refmodel::ctr_array::<32>(4, "ws-b");
    let other_a = refmodel::ctr_array::<32>(4, "ws-a");

    // ---- v = 7^x mod N < 2^224, x = SHA1(salt | SHA1(U:P)); fixed-base 8-bit windows ----
    if !found.contains_key("v-high-zero-4") {
        let (user, pass) = ("bob", "hunter2");
        let (un, pn) = (refmodel::misc::normalize(user).unwrap(), refmodel::misc::normalize(pass).unwrap());
        let inner = refmodel::hash::sha1_parts(&[&un, b":", &pn]);
        // table[j][w] = mont(7^(w * 256^j))
        let mut table: Vec<Vec<L>> = vec![];
        let mut base = U::from_u64(7);
        for _ in 0..20 {
            let bm = m.to(&to_l(&base));
            let mut row = vec![m.to(&[1, 0, 0, 0])];
            for w in 1..256 {
                let prev = row[w - 1];
                row.push(m.mul(&prev, &bm));
            }
            table.push(row);
            base = base.modpow(&U::from_u64(256), &n);
        }
        let stop = AtomicBool::new(false);
        let tried = AtomicU64::new(0);
        let hit: Mutex<Option<[u8; 32]>> = Mutex::new(None);
        (0..threads).into_par_iter().for_each(|t| {
            let mut salt = refmodel::ctr_array::<32>(4, &format!("ws-salt-{t}"));
            let mut buf = [0u8; 52];
            buf[32..].copy_from_slice(&inner);
            let mut k = 0u64;
            while !stop.load(Ordering::Relaxed) {
                inc_le(&mut salt);
                buf[..32].copy_from_slice(&salt);
                let x = refmodel::hash::sha1(&buf);
                let mut acc = table[0][x[0] as usize];
                for j in 1..20 {
                    acc = m.mul(&acc, &table[j][x[j] as usize]);
                }
                let v = m.from(&acc);
                if v[3] >> 32 == 0 {
                    *hit.lock().unwrap() = Some(salt);
                    stop.store(true, Ordering::Relaxed);
                }
                k += 1;
                if k % (1 << 20) == 0 {
                    let n = tried.fetch_add(1 << 20, Ordering::Relaxed);
                    if t == 0 && n % (1 << 28) == 0 {
                        eprintln!("v search: {} candidates", n);
                    }
                }
            }
        });
        let salt = hit.lock().unwrap().expect("v witness");
        let w = json!({"class": "v-high-zero-4", "user": user, "pass": pass, "salt": hex(&salt), "b": hex(&other_b), "a": hex(&other_a)});
        let l = srp::login(&un, &pn, &un, &pn, &salt, &other_b, &other_a);
        eprintln!("v-high-zero-4: v = {} after ~{} candidates", hex(&l.v), tried.load(Ordering::Relaxed));
        assert!(in_class("v-high-zero-4", &l), "fast arithmetic and reference model disagree");
        found.insert("v-high-zero-4".into(), w);
    }

    // ---- B = (3v + 7^b) mod N and A = 7^a mod N by walking the exponent: g^(e+1) = 7 * g^e ----
    let (user, pass) = ("alice", "password123");
    let (un, pn) = (refmodel::misc::normalize(user).unwrap(), refmodel::misc::normalize(pass).unwrap());
    let salt = refmodel::ctr_array::<32>(4, "ws-salt-B");
    let v = srp::verifier(&un, &pn, &salt, 7, &n);
    let kv = to_l(&U::from_u64(3).mul(&v).rem(&n));
    let two222: L = [0, 0, 0, 1 << 30];
    let near_n_floor = sub(&nl, &two222); // B >= N - 2^222
    // classes: (name, predicate on the value B or A)
    let want: Vec<&str> = ["B-high-zero-4", "B-below-2^222", "B-within-2^222-of-N", "A-high-zero-4"].into_iter().filter(|c| !found.contains_key(*c)).collect();
    if !want.is_empty() {
        let done: Vec<AtomicBool> = (0..4).map(|_| AtomicBool::new(false)).collect();
        let names = ["B-high-zero-4", "B-below-2^222", "B-within-2^222-of-N", "A-high-zero-4"];
        for (i, nm) in names.iter().enumerate() {
            if found.contains_key(*nm) {
                done[i].store(true, Ordering::Relaxed);
            }
        }
        let hits: Mutex<Vec<(usize, [u8; 32])>> = Mutex::new(vec![]);
        let tried = AtomicU64::new(0);
        (0..threads).into_par_iter().for_each(|t| {
            let mut e = refmodel::ctr_array::<32>(4, &format!("ws-e-{t}"));
            let mut g = to_l(&U::from_u64(7).modpow(&U::from_le_bytes(&e), &n));
            let mut k = 0u64;
            while !done.iter().all(|d| d.load(Ordering::Relaxed)) {
                // g <- 7g mod N
                let g2 = addmod(&g, &g, &nl);
                let g4 = addmod(&g2, &g2, &nl);
                let g6 = addmod(&g4, &g2, &nl);
                g = addmod(&g6, &g, &nl);
                inc_le(&mut e);
                let b = addmod(&kv, &g, &nl);
                if b[3] >> 32 == 0 {
                    if !done[0].swap(true, Ordering::Relaxed) {
                        hits.lock().unwrap().push((0, e));
                    }
                    if b[3] >> 30 == 0 && !done[1].swap(true, Ordering::Relaxed) {
                        hits.lock().unwrap().push((1, e));
                    }
                }
                if geq(&b, &near_n_floor) && !done[2].swap(true, Ordering::Relaxed) {
                    hits.lock().unwrap().push((2, e));
                }
                if g[3] >> 32 == 0 && !done[3].swap(true, Ordering::Relaxed) {
                    hits.lock().unwrap().push((3, e));
                }
                k += 1;
                if k % (1 << 24) == 0 {
                    let n = tried.fetch_add(1 << 24, Ordering::Relaxed);
                    if t == 0 && n % (1 << 30) == 0 {
                        eprintln!("B/A walk: {} candidates", n);
                    }
                }
            }
        });
        for (i, e) in hits.into_inner().unwrap() {
            let nm = names[i];
            let (b, a) = if i == 3 { (other_b, e) } else { (e, other_a) };
            let l = srp::login(&un, &pn, &un, &pn, &salt, &b, &a);
            eprintln!("{nm}: B = {} A = {}", hex(&l.b_pub), hex(&l.a_pub));
            assert!(in_class(nm, &l), "fast arithmetic and reference model disagree on {nm}");
            found.insert(nm.into(), json!({"class": nm, "user": user, "pass": pass, "salt": hex(&salt), "b": hex(&b), "a": hex(&a)}));
        }
    }
    // ---- x = SHA1(salt | SHA1(U:P)) and u = SHA1(A | B) below 2^128 (one limb short as 160-bit integers) ----
    if !found.contains_key("x-high-zero-4") {
        let inner = refmodel::hash::sha1_parts(&[&un, b":", &pn]);
        let stop = AtomicBool::new(false);
        let hit: Mutex<Option<[u8; 32]>> = Mutex::new(None);
        (0..threads).into_par_iter().for_each(|t| {
            let mut salt = refmodel::ctr_array::<32>(4, &format!("ws-salt-x-{t}"));
            let mut buf = [0u8; 52];
            buf[32..].copy_from_slice(&inner);
            while !stop.load(Ordering::Relaxed) {
                inc_le(&mut salt);
                buf[..32].copy_from_slice(&salt);
                let x = refmodel::hash::sha1(&buf);
                if x[16..] == [0, 0, 0, 0] {
                    *hit.lock().unwrap() = Some(salt);
                    stop.store(true, Ordering::Relaxed);
                }
            }
        });
        let salt = hit.lock().unwrap().expect("x witness");
        let l = srp::login(&un, &pn, &un, &pn, &salt, &other_b, &other_a);
        eprintln!("x-high-zero-4: x = {}", hex(&l.x));
        assert!(in_class("x-high-zero-4", &l));
        found.insert("x-high-zero-4".into(), json!({"class": "x-high-zero-4", "user": user, "pass": pass, "salt": hex(&salt), "b": hex(&other_b), "a": hex(&other_a)}));
    }
    if !found.contains_key("u-high-zero-4") {
        let b_pub = srp::server_public(&v, &U::from_le_bytes(&other_b), 7, &n).to_le_padded::<32>();
        let stop = AtomicBool::new(false);
        let hit: Mutex<Option<[u8; 32]>> = Mutex::new(None);
        (0..threads).into_par_iter().for_each(|t| {
            let mut e = refmodel::ctr_array::<32>(4, &format!("ws-e-u-{t}"));
            let mut g = to_l(&U::from_u64(7).modpow(&U::from_le_bytes(&e), &n));
            let mut buf = [0u8; 64];
            buf[32..].copy_from_slice(&b_pub);
            while !stop.load(Ordering::Relaxed) {
                let g2 = addmod(&g, &g, &nl);
                let g4 = addmod(&g2, &g2, &nl);
                let g6 = addmod(&g4, &g2, &nl);
                g = addmod(&g6, &g, &nl);
                inc_le(&mut e);
                buf[..32].copy_from_slice(&l_bytes(&g));
                let u = refmodel::hash::sha1(&buf);
                if u[16..] == [0, 0, 0, 0] {
                    *hit.lock().unwrap() = Some(e);
                    stop.store(true, Ordering::Relaxed);
                }
            }
        });
        let a = hit.lock().unwrap().expect("u witness");
        let l = srp::login(&un, &pn, &un, &pn, &salt, &other_b, &a);
        eprintln!("u-high-zero-4: u = {}", hex(&l.u));
        assert!(in_class("u-high-zero-4", &l));
        found.insert("u-high-zero-4".into(), json!({"class": "u-high-zero-4", "user": user, "pass": pass, "salt": hex(&salt), "b": hex(&other_b), "a": hex(&a)}));
    }
    let out: Vec<serde_json::Value> = found.into_values().collect();
    std::fs::write(crate::logins::witnesses_path(), serde_json::to_string_pretty(&out).unwrap()).unwrap();
    println!("witnesses: {}", out.len());
}
