//! Developer aid: rough timings of real vs reference login (not part of any check).
use crate::common::*;
pub fn run() {
    let inp = LoginInput { reg_user: "alice", reg_pass: "password123", typed_user: "ALICE", typed_pass: "PASSWORD123", salt: refmodel::ctr_array::<32>(0, "s"), b: refmodel::ctr_array::<32>(0, "b"), a: refmodel::ctr_array::<32>(0, "a"), storage_roundtrip: false };
    let t = std::time::Instant::now();
    for _ in 0..200 {
        real_login(&inp).unwrap();
    }
    println!("real login: {:?}", t.elapsed() / 200);
    let t = std::time::Instant::now();
    for _ in 0..200 {
        ref_login(&inp);
    }
    println!("ref login: {:?}", t.elapsed() / 200);
}
