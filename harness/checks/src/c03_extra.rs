//! C03 beyond the login sweep: every shape of S through the internal-function seam, announced
//! groups on the client, protocol constants. Also the one-off witness search.

use crate::common::*;
use mc::report::{Report, Tier, Violation};
use mc::util::catch;
use rayon::prelude::*;
use refmodel::big::U;
use refmodel::srp;
use serde_json::json;
use std::sync::atomic::{AtomicU64, Ordering};
use wow_srp::client::SrpClientChallenge;
use wow_srp::verif_hooks;
use wow_srp::PublicKey;

fn viol(report: &Report, class: &str, replay: serde_json::Value, msg: String) {
    report.violation(Violation { signature: format!("C03|{class}"), scenario: "seam/groups".into(), replay, detail: json!({ "message": msg }) });
}

/// 32-byte little-endian values with exactly `low` low-order and `high` high-order zero bytes.
fn shaped(low: usize, high: usize, pattern: u8, seed: u64) -> Option<[u8; 32]> {
    if low + high >= 32 {
        return None;
    }
    let mut s = [0u8; 32];
    let n = 32 - low - high;
    let fill: Vec<u8> = match pattern {
        0 => vec![0x01; n],
        1 => vec![0x7F; n],
        2 => (0..n).map(|i| (i as u8) | 1).collect(),
        _ => refmodel::ctr_bytes(seed, &format!("shape-{low}-{high}"), n).iter().map(|b| (b & 0x7F) | 1).collect(),
    };
    s[low..low + n].copy_from_slice(&fill);
    Some(s)
}

pub fn seam_shapes(report: &Report, tier: Tier, seed: u64) {
    let n = srp::n_builtin();
    let cases = AtomicU64::new(0);
    let shapes_done = AtomicU64::new(0);
    let neg_base = AtomicU64::new(0);
    let spec_mut = [AtomicU64::new(0), AtomicU64::new(0), AtomicU64::new(0)];
    let lows: Vec<usize> = (0..32).collect();
    lows.par_iter().for_each(|&low| {
        for high in 0..(32 - low) {
            for pattern in 0..4u8 {
                let s = match shaped(low, high, pattern, seed) {
                    Some(s) => s,
                    None => continue,
                };
                // (a) interleave
                let want = srp::interleave(&s).expect("non-zero S");
                match catch(|| verif_hooks::interleave(s)) {
                    Ok(k) => {
                        if k != want {
                            viol(report, &format!("interleave-low{}", if low == 0 { "0" } else if low % 2 == 1 { "-odd" } else { "-even" }), json!({"S_le": hex(&s), "low_zero_bytes": low, "high_zero_bytes": high}), format!("K = {} but SHA_Interleave gives {}", hex(&k), hex(&want)));
                        }
                    }
                    Err(m) => viol(report, "interleave-panic", json!({"S_le": hex(&s)}), format!("interleave panicked: {m}")),
                }
                // wrong specifications the shape sweep must distinguish
                {
                    let strip_max1: Vec<u8> = if s[0] == 0 { s[1..].to_vec() } else { s.to_vec() };
                    let t = if strip_max1.len() % 2 == 1 { &strip_max1[1..] } else { &strip_max1[..] };
                    if alt_interleave(t) != want {
                        spec_mut[0].fetch_add(1, Ordering::Relaxed);
                    }
                    let z = s.iter().take_while(|b| **b == 0).count();
                    if alt_interleave(&s[z..]) != want {
                        spec_mut[1].fetch_add(1, Ordering::Relaxed); // no odd adjustment
                    }
                    let mut rev = s;
                    rev.reverse();
                    let zr = rev.iter().take_while(|b| **b == 0).count();
                    let t = &rev[zr + (zr % 2)..];
                    if alt_interleave(t) != want {
                        spec_mut[2].fetch_add(1, Ordering::Relaxed); // interleave over the big-endian secret
                    }
                }
                cases.fetch_add(1, Ordering::Relaxed);
                if pattern == 0 || tier == Tier::Thorough {
                    // (b) server S steered to T = s (b = 1): A = T * (v^u)^-1 mod N
                    let t = U::from_le_bytes(&s);
                    if t.cmp(&n) == std::cmp::Ordering::Less {
                        let v = U::from_le_bytes(&refmodel::ctr_array::<32>(seed, &format!("seam-v-{low}-{high}"))).rem(&n);
                        let u = refmodel::ctr_array::<20>(seed, &format!("seam-u-{low}-{high}"));
                        let vu = v.modpow(&U::from_le_bytes(&u), &n);
                        let a_pub = t.mulmod(&vu.inv_prime(&n), &n);
                        let b1 = le32_from_u64(1);
                        if !a_pub.is_zero() {
                            let want_s = srp::server_s(&a_pub, &v, &U::from_le_bytes(&u), &U::from_u64(1), &n);
                            if want_s != t {
                                mc::util::machinery_error("seam: server S steering failed in the reference model");
                            }
                            match catch(|| verif_hooks::server_s(a_pub.to_le_padded::<32>(), v.to_le_padded::<32>(), u, b1)) {
                                Ok(Some(got)) => {
                                    if got != s {
                                        viol(report, "server-S-shape", json!({"A": hex(&a_pub.to_le_padded::<32>()), "v": hex(&v.to_le_padded::<32>()), "u": hex(&u), "b": 1, "target_S": hex(&s)}), format!("server S = {} but (A*v^u)^b mod N = {}", hex(&got), hex(&s)));
                                    }
                                }
                                Ok(None) => viol(report, "server-S-shape", json!({"A": hex(&a_pub.to_le_padded::<32>())}), "steered client public key was refused".into()),
                                Err(m) => viol(report, "server-S-panic", json!({"target_S": hex(&s)}), format!("calculate_S panicked: {m}")),
                            }
                            cases.fetch_add(1, Ordering::Relaxed);
                        }
                        // (c) client S steered to T (a = 1, u = 0): B = T + k*g^x mod N
                        let x = refmodel::ctr_array::<20>(seed, &format!("seam-x-{low}-{high}"));
                        let kgx = U::from_u64(3).mul(&U::from_u64(7).modpow(&U::from_le_bytes(&x), &n));
                        let b_pub = t.add(&kgx).rem(&n);
                        if !b_pub.is_zero() {
                            if srp::client_base_negative(&b_pub, &U::from_le_bytes(&x), 7, &n) {
                                neg_base.fetch_add(1, Ordering::Relaxed);
                            }
                            match catch(|| verif_hooks::client_s(b_pub.to_le_padded::<32>(), x, le32_from_u64(1), [0u8; 20], 7, N_LE)) {
                                Ok(Some(got)) => {
                                    if got != s {
                                        viol(report, "client-S-shape", json!({"B": hex(&b_pub.to_le_padded::<32>()), "x": hex(&x), "a": 1, "u": 0, "target_S": hex(&s)}), format!("client S = {} but (B - k*g^x)^(a+u*x) mod N = {}", hex(&got), hex(&s)));
                                    }
                                }
                                Ok(None) => viol(report, "client-S-shape", json!({"B": hex(&b_pub.to_le_padded::<32>())}), "steered server public key was refused".into()),
                                Err(m) => viol(report, "client-S-panic", json!({"target_S": hex(&s)}), format!("calculate_client_S panicked: {m}")),
                            }
                            cases.fetch_add(1, Ordering::Relaxed);
                        }
                    }
                }
            }
            shapes_done.fetch_add(1, Ordering::Relaxed);
        }
    });
    // general (not steered) seam cases: random operands, real vs reference, both sides
    let n_general = tier.pick(2_000u64, 60_000u64);
    (0..n_general).into_par_iter().for_each(|i| {
        let a_pub = U::from_le_bytes(&refmodel::ctr_array::<32>(seed, &format!("g-A-{i}"))).rem(&n);
        let v = U::from_le_bytes(&refmodel::ctr_array::<32>(seed, &format!("g-v-{i}"))).rem(&n);
        let u = refmodel::ctr_array::<20>(seed, &format!("g-u-{i}"));
        let b = if i % 3 == 0 { le32_from_u64(1 + i % 7) } else { refmodel::ctr_array::<32>(seed, &format!("g-b-{i}")) };
        if a_pub.is_zero() {
            return;
        }
        let want = srp::server_s(&a_pub, &v, &U::from_le_bytes(&u), &U::from_le_bytes(&b), &n).to_le_padded::<32>();
        if let Ok(Some(got)) = catch(|| verif_hooks::server_s(a_pub.to_le_padded::<32>(), v.to_le_padded::<32>(), u, b)) {
            if got != want {
                viol(report, "server-S-general", json!({"A": hex(&a_pub.to_le_padded::<32>()), "v": hex(&v.to_le_padded::<32>()), "u": hex(&u), "b": hex(&b)}), format!("server S = {} reference {}", hex(&got), hex(&want)));
            }
        }
        let x = refmodel::ctr_array::<20>(seed, &format!("g-x-{i}"));
        let a = if i % 3 == 1 { le32_from_u64(1 + i % 5) } else { refmodel::ctr_array::<32>(seed, &format!("g-a-{i}")) };
        let want = srp::client_s(&a_pub, &U::from_le_bytes(&x), &U::from_le_bytes(&a), &U::from_le_bytes(&u), 7, &n).to_le_padded::<32>();
        if srp::client_base_negative(&a_pub, &U::from_le_bytes(&x), 7, &n) {
            neg_base.fetch_add(1, Ordering::Relaxed);
        }
        if let Ok(Some(got)) = catch(|| verif_hooks::client_s(a_pub.to_le_padded::<32>(), x, a, u, 7, N_LE)) {
            if got != want {
                viol(report, "client-S-general", json!({"B": hex(&a_pub.to_le_padded::<32>()), "x": hex(&x), "a": hex(&a), "u": hex(&u)}), format!("client S = {} reference {}", hex(&got), hex(&want)));
            }
        }
        cases.fetch_add(2, Ordering::Relaxed);
    });
    // boundary operands at the seam: widths the handshake can never reach through SHA-1 outputs
    // (u and x all ones, zero, top bit only), keys/verifiers at 1, N-1, >= N, exponents 0, 1, all ones
    let h20: Vec<[u8; 20]> = {
        let mut top = [0u8; 20];
        top[19] = 0x80;
        let mut one = [0u8; 20];
        one[0] = 1;
        let mut lowzero = [0xFFu8; 20];
        lowzero[0] = 0;
        lowzero[1] = 0;
        vec![[0u8; 20], one, [0xFF; 20], top, lowzero]
    };
    let k32: Vec<[u8; 32]> = vec![le32_from_u64(1), le32_from_u64(2), n_plus(-1), n_plus(1), [0xFF; 32], {
        let mut t = [0u8; 32];
        t[31] = 0x80;
        t
    }];
    let e32: Vec<[u8; 32]> = vec![[0u8; 32], le32_from_u64(1), le32_from_u64(2), [0xFF; 32], n_plus(-1)];
    let mut boundary = 0u64;
    for pk in &k32 {
        for v in &k32 {
            for u in &h20 {
                for e in &e32 {
                    // server side: pk = A, v, u, b = e
                    let want = srp::server_s(&U::from_le_bytes(pk), &U::from_le_bytes(v), &U::from_le_bytes(u), &U::from_le_bytes(e), &n).to_le_padded::<32>();
                    match catch(|| verif_hooks::server_s(*pk, *v, *u, *e)) {
                        Ok(Some(got)) => {
                            if got != want {
                                viol(report, "server-S-boundary-operands", json!({"A": hex(pk), "v": hex(v), "u": hex(u), "b": hex(e)}), format!("server S = {} reference {}", hex(&got), hex(&want)));
                            }
                        }
                        Ok(None) => {}
                        Err(m) => viol(report, "server-S-panic", json!({"A": hex(pk), "v": hex(v), "u": hex(u), "b": hex(e)}), format!("calculate_S panicked: {m}")),
                    }
                    boundary += 1;
                }
                for x in &h20 {
                    for e in [&e32[0], &e32[1], &e32[3]] {
                        // client side: pk = B, x, a = e, u
                        let want = srp::client_s(&U::from_le_bytes(pk), &U::from_le_bytes(x), &U::from_le_bytes(e), &U::from_le_bytes(u), 7, &n).to_le_padded::<32>();
                        match catch(|| verif_hooks::client_s(*pk, *x, *e, *u, 7, N_LE)) {
                            Ok(Some(got)) => {
                                if got != want {
                                    viol(report, "client-S-boundary-operands", json!({"B": hex(pk), "x": hex(x), "a": hex(e), "u": hex(u)}), format!("client S = {} reference {}", hex(&got), hex(&want)));
                                }
                            }
                            Ok(None) => {}
                            Err(m) => viol(report, "client-S-panic", json!({"B": hex(pk), "x": hex(x), "a": hex(e), "u": hex(u)}), format!("calculate_client_S panicked: {m}")),
                        }
                        boundary += 1;
                    }
                }
            }
        }
    }
    // targeted client bases: B - k*g^x equal to -3..=3, -N-3..=-N+3, -2N-3..=-2N+3 with odd and even exponents
    for (bp, x, a, u, what) in targeted_client_bases(seed) {
        let want = srp::client_s(&U::from_le_bytes(&bp), &U::from_le_bytes(&x), &U::from_le_bytes(&a), &U::from_le_bytes(&u), 7, &n).to_le_padded::<32>();
        match catch(|| verif_hooks::client_s(bp, x, a, u, 7, N_LE)) {
            Ok(Some(got)) => {
                if got != want {
                    viol(report, "client-S-targeted-base", json!({"B": hex(&bp), "x": hex(&x), "a": hex(&a), "u": hex(&u), "what": what}), format!("client S = {} but (B - k*g^x)^(a+u*x) mod N = {} ({what})", hex(&got), hex(&want)));
                }
            }
            Ok(None) => {}
            Err(m) => viol(report, "client-S-panic", json!({"B": hex(&bp), "x": hex(&x), "what": what}), format!("calculate_client_S panicked: {m}")),
        }
        boundary += 1;
    }
    cases.fetch_add(boundary, Ordering::Relaxed);
    report.count("seam_boundary_operand_cases", boundary);
    report.count("seam_cases", cases.load(Ordering::Relaxed));
    report.count("seam_zero_byte_shapes", shapes_done.load(Ordering::Relaxed));
    report.require("seam_client_negative_base_cases");
    report.count("seam_client_negative_base_cases", neg_base.load(Ordering::Relaxed));
    for (i, name) in ["strip-at-most-one-zero-byte", "no-odd-length-adjustment", "interleave-over-big-endian"].iter().enumerate() {
        let d = spec_mut[i].load(Ordering::Relaxed);
        report.set(&format!("spec_mutant_{name}_disagreements"), json!(d));
        if d == 0 {
            mc::util::machinery_error(&format!("C03: the shape sweep cannot distinguish the specification from wrong variant '{name}'"));
        }
    }
    report.space("interleave(S) for every count of low-order zero bytes 0..31 x every count of high-order zero bytes x 4 fills; server and client S steered to every one of those shapes through the internal-function seam");
}

/// The server's public key B = (3v + g^b) mod N on values an honest login reaches once in 2^31 or less: the stored
/// verifier is chosen (v = (T - g^b) / 3 mod N, plus multiples of N while it still fits 32 bytes) so that B must come
/// out as a chosen target T. Targets: every count of high-order zero bytes (short B), every count of low-order zero
/// bytes, T within 2^k of 0 and of N (k*v + g^b just above / just below a multiple of N, for every reachable quotient).
pub fn steered_server_keys(report: &Report, tier: Tier, seed: u64) {
    use wow_srp::server::SrpVerifier;
    let n = srp::n_builtin();
    let inv3 = U::from_u64(3).inv_prime(&n);
    let mut targets: Vec<(U, String)> = vec![];
    for hz in 0..32usize {
        for pat in [0u8, 3] {
            if let Some(t) = shaped(0, hz, pat, seed) {
                targets.push((U::from_le_bytes(&t), format!("{hz} high zero bytes")));
            }
        }
    }
    for lz in 1..32usize {
        if let Some(t) = shaped(lz, 0, 3, seed) {
            targets.push((U::from_le_bytes(&t), format!("{lz} low zero bytes")));
        }
    }
    for k in (0..=255usize).step_by(tier.pick(7, 1)) {
        let mut p = [0u8; 32];
        p[k / 8] = 1 << (k % 8);
        let p = U::from_le_bytes(&p);
        if p.cmp(&n) == std::cmp::Ordering::Less {
            targets.push((n.sub(&p), format!("N - 2^{k}")));
            targets.push((p.clone(), format!("2^{k}")));
            // a little randomness below the power: N - 2^k + r and 2^k - r with r < 2^(k-1)
            if k >= 16 {
                let r = U::from_le_bytes(&refmodel::ctr_bytes(seed, &format!("steer-r-{k}"), (k - 1) / 8));
                targets.push((n.sub(&p).add(&r), format!("N - 2^{k} + r")));
                targets.push((p.sub(&r), format!("2^{k} - r")));
            }
        }
    }
    let bs: Vec<[u8; 32]> = vec![le32_from_u64(5), ordinary_key(seed, "steer-b"), [0xFF; 32]];
    let two256 = {
        let mut b = [0u8; 33];
        b[32] = 1;
        U::from_le_bytes(&b)
    };
    let mut cases = 0u64;
    let mut quotients = std::collections::BTreeSet::new();
    for (t, name) in &targets {
        let t = t.rem(&n);
        if t.is_zero() {
            continue;
        }
        for b in &bs {
            let bb = U::from_le_bytes(b);
            let gb = U::from_u64(7).modpow(&bb, &n);
            let v0 = U::submod(&t, &gb, &n).mulmod(&inv3, &n);
            // the stored verifier is 32 arbitrary bytes: v0 and v0 + N (if it fits) give different quotients of (3v + g^b) / N
            let mut vs = vec![v0.clone()];
            let v1 = v0.add(&n);
            if v1.cmp(&two256) == std::cmp::Ordering::Less {
                vs.push(v1);
            }
            for v in vs {
                let sum = U::from_u64(3).mul(&v).add(&gb);
                let (q, want) = sum.divrem(&n);
                if want != t {
                    mc::util::machinery_error("C03: steering of the server public key failed in the reference model");
                }
                quotients.insert(q.to_le_padded::<8>()[0]);
                let v_le = v.to_le_padded::<32>();
                let ver = SrpVerifier::from_database_values(ns("A"), v_le, [0u8; 32]);
                if !taken_as_is(Pinned::ServerKey, b) {
                    NOT_OWNED.fetch_add(1, Ordering::Relaxed);
                    continue;
                }
                let (r, used, _log) = with_script(b, move || *ver.into_proof().server_public_key());
                cases += 1;
                let replay = json!({"target_B": t.to_hex_be(), "target_kind": name, "verifier_le": hex(&v_le), "b_le": hex(b), "quotient_of_3v_plus_g^b_by_N": q.to_hex_be()});
                match r {
                    Ok(bpub) => {
                        if used < 32 {
                            mc::util::machinery_error(&format!("C03: into_proof consumed {used} scripted bytes, expected at least 32"));
                        }
                        if bpub != want.to_le_padded::<32>() {
                            viol(report, "steered-B|wrong-value", replay, format!("B = {} but (3v + g^b) mod N = {} ({name})", hex(&bpub), hex(&want.to_le_padded::<32>())));
                        }
                    }
                    Err(m) => viol(report, "steered-B|panic", replay, format!("into_proof panicked for a verifier/private key pair whose B is the valid key {} ({name}): {m}", t.to_hex_be())),
                }
            }
        }
    }
    // B = 0: the documented outcome is a panic of into_proof; a library that draws another private key instead must use
    // THAT key for everything that follows (B, S, K, M2 all belong to one b)
    for (bi, b) in bs.iter().enumerate() {
        let bb = U::from_le_bytes(b);
        let gb = U::from_u64(7).modpow(&bb, &n);
        let v = U::submod(&U::zero(), &gb, &n).mulmod(&inv3, &n);
        if !srp::server_public(&v, &bb, 7, &n).is_zero() || !taken_as_is(Pinned::ServerKey, b) {
            continue;
        }
        let b_again = refmodel::ctr_array::<32>(seed, &format!("steer-b-again-{bi}")).map(|x| x & 0x7F);
        let mut script = b.to_vec();
        script.extend_from_slice(&b_again);
        let v_le = v.to_le_padded::<32>();
        let ver = SrpVerifier::from_database_values(ns("A"), v_le, [0u8; 32]);
        let (r, _used, log) = with_script(&script, move || {
            let p = ver.into_proof();
            (*p.server_public_key(), p)
        });
        cases += 1;
        if let Ok((bpub, proof)) = r {
            let a_probe = srp::client_public(&U::from_u64(91), 7, &n).to_le_padded::<32>();
            let want_b2 = srp::server_public(&v, &U::from_le_bytes(&b_again), 7, &n);
            let mut ok = false;
            if log.len() >= 2 && log[1].bytes == b_again && !want_b2.is_zero() && bpub == want_b2.to_le_padded::<32>() {
                let u = U::from_le_bytes(&srp::u_bytes(&a_probe, &bpub));
                let s = srp::server_s(&U::from_le_bytes(&a_probe), &v, &u, &U::from_le_bytes(&b_again), &n).to_le_padded::<32>();
                if let (Some(k), Ok(ak)) = (srp::interleave(&s), PublicKey::from_le_bytes(a_probe)) {
                    let m1 = srp::m1(b"A", &[0u8; 32], &a_probe, &bpub, &k, 7, &srp::n_builtin_le());
                    let want_m2 = srp::m2(&a_probe, &m1, &k);
                    ok = matches!(catch(move || proof.into_server(ak, m1).map(|(srv, m2)| (*srv.session_key(), m2))), Ok(Ok((kk, m2))) if kk == k && m2 == want_m2);
                }
            }
            if !ok {
                viol(report, "steered-B|zero-key-not-refused-nor-consistently-redrawn", json!({"verifier_le": hex(&v_le), "b_le": hex(b), "next_rng_answer": hex(&b_again)}), format!("3v + g^b is congruent 0 mod N: into_proof returned B = {} and what follows is not the exchange of the re-drawn key (B would be {})", hex(&bpub), want_b2.to_hex_be()));
            }
        }
    }
    report.count("steered_server_key_cases", cases);
    report.set("steered_server_key_quotients_seen", json!(quotients));
    report.require("steered_server_key_cases");
}

fn alt_interleave(t: &[u8]) -> [u8; 40] {
    let e: Vec<u8> = t.iter().step_by(2).copied().collect();
    let f: Vec<u8> = t.iter().skip(1).step_by(2).copied().collect();
    let g = refmodel::hash::sha1(&e);
    let h = refmodel::hash::sha1(&f);
    let mut k = [0u8; 40];
    for i in 0..20 {
        k[2 * i] = g[i];
        k[2 * i + 1] = h[i];
    }
    k
}

pub fn announced_groups(report: &Report, tier: Tier, seed: u64) {
    let mods = moduli();
    let gens: Vec<u8> = (0..=255).collect(); // 0 and 1 are generators a server can announce too (0^0 = 1 with an all-zero private key)
    let a_alpha: Vec<[u8; 32]> = if tier == Tier::Thorough {
        vec![le32_from_u64(1), le32_from_u64(2), le32_from_u64(255), n_plus(-1), [0xFF; 32], ordinary_key(seed, "grp-a0"), ordinary_key(seed, "grp-a1"), [0u8; 32]]
    } else {
        vec![le32_from_u64(2), ordinary_key(seed, "grp-a0"), [0u8; 32]]
    };
    let b_alpha: Vec<[u8; 32]> = if tier == Tier::Thorough {
        vec![le32_from_u64(1), le32_from_u64(2), le32_from_u64(1234567), n_plus(-1), n_plus(1), [0xFF; 32], refmodel::ctr_array::<32>(seed, "grp-B0")]
    } else {
        vec![le32_from_u64(1234567), [0xFF; 32], refmodel::ctr_array::<32>(seed, "grp-B0")]
    };
    let cred_alpha: Vec<(&str, &str)> = if tier == Tier::Thorough { vec![("A", "A"), ("alice", "password123"), ("0123456789abcdef", "x"), ("A:", "B")] } else { vec![("alice", "password123")] };
    let salt = refmodel::ctr_array::<32>(seed, "grp-salt");
    let cases = AtomicU64::new(0);
    let skipped_zero_s = AtomicU64::new(0);
    let skipped_zero_a = AtomicU64::new(0);
    let pre_vs_computed = AtomicU64::new(0);
    let jobs: Vec<(usize, u8)> = (0..mods.len()).flat_map(|m| gens.iter().map(move |g| (m, *g))).collect();
    jobs.par_iter().for_each(|&(mi, g)| {
        let (mname, m) = &mods[mi];
        let m_le = m.to_le_padded::<32>();
        for a in &a_alpha {
            for bpub in &b_alpha {
                for (user, pass) in &cred_alpha {
                    let (un, pn) = (refmodel::misc::normalize(user).unwrap(), refmodel::misc::normalize(pass).unwrap());
                    let aa = U::from_le_bytes(a);
                    let want_a = srp::client_public(&aa, g, m);
                    if want_a.is_zero() {
                        skipped_zero_a.fetch_add(1, Ordering::Relaxed);
                        continue;
                    }
                    let want_a_le = want_a.to_le_padded::<32>();
                    let x = U::from_le_bytes(&srp::x_bytes(&un, &pn, &salt));
                    let u = U::from_le_bytes(&srp::u_bytes(&want_a_le, bpub));
                    let s = srp::client_s(&U::from_le_bytes(bpub), &x, &aa, &u, g, m).to_le_padded::<32>();
                    let k = match srp::interleave(&s) {
                        Some(k) => k,
                        None => {
                            skipped_zero_s.fetch_add(1, Ordering::Relaxed);
                            continue;
                        }
                    };
                    let want_m1 = srp::m1(&un, &salt, &want_a_le, bpub, &k, g, &m_le);
                    if mi != 0 || g != 7 {
                        // a client that used the pre-computed built-in xor hash would produce this instead
                        if srp::m1(&un, &salt, &want_a_le, bpub, &k, 7, &N_LE) != want_m1 {
                            pre_vs_computed.fetch_add(1, Ordering::Relaxed);
                        }
                    }
                    let want_m2 = srp::m2(&want_a_le, &want_m1, &k);
                    let bk = match PublicKey::from_le_bytes(*bpub) {
                        Ok(k) => k,
                        Err(_) => continue,
                    };
                    if !taken_as_is(Pinned::ClientKey, a) {
                        NOT_OWNED.fetch_add(1, Ordering::Relaxed);
                        continue;
                    }
                    let (r, _, _) = with_script(a, || {
                        let c = SrpClientChallenge::new(ns(user), ns(pass), g, m_le, bk, salt);
                        let (ap, m1) = (*c.client_public_key(), *c.client_proof());
                        let sk = c.verify_server_proof(want_m2).map(|cl| *cl.session_key());
                        (ap, m1, sk)
                    });
                    cases.fetch_add(1, Ordering::Relaxed);
                    let rp = || json!({"g": g, "modulus": mname, "modulus_le": hex(&m_le), "a": hex(a), "B": hex(bpub), "user": user, "pass": pass, "salt": hex(&salt)});
                    match r {
                        Err(msg) => viol(report, "announced-group-panic", rp(), format!("client panicked although A = {} and S are non-zero: {msg}", want_a.to_hex_be())),
                        Ok((ap, m1, sk)) => {
                            if ap != want_a_le {
                                viol(report, "announced-group-A", rp(), format!("A = {} but g^a mod N' = {}", hex(&ap), hex(&want_a_le)));
                            } else if m1 != want_m1 {
                                viol(report, "announced-group-M1", rp(), format!("M1 = {} but the definition with H(N') xor H(g) computed for the announced group gives {}", hex(&m1), hex(&want_m1)));
                            } else {
                                match sk {
                                    Ok(kk) => {
                                        if kk != k {
                                            viol(report, "announced-group-K", rp(), format!("K = {} reference {}", hex(&kk), hex(&k)));
                                        }
                                    }
                                    Err(e) => viol(report, "announced-group-M2", rp(), format!("client refused the reference M2: {e}")),
                                }
                            }
                        }
                    }
                }
            }
        }
    });
    report.count("group_cases", cases.load(Ordering::Relaxed));
    report.count("group_cases_skipped_S_is_zero", skipped_zero_s.load(Ordering::Relaxed));
    report.count("group_cases_skipped_A_is_zero", skipped_zero_a.load(Ordering::Relaxed));
    report.set("spec_mutant_precomputed-xor-hash-on-client_disagreements", json!(pre_vs_computed.load(Ordering::Relaxed)));
    if pre_vs_computed.load(Ordering::Relaxed) == 0 {
        mc::util::machinery_error("C03: group sweep cannot distinguish a computed from a pre-computed xor hash");
    }
    report.space(&format!("announced groups (client): all 256 generators 0..=255 x {} prime moduli x {} private keys x {} server keys x {} credential pairs", mods.len(), a_alpha.len(), b_alpha.len(), cred_alpha.len()));
}

pub fn constants(report: &Report) {
    let n = srp::n_builtin_le();
    let mut be = n;
    be.reverse();
    if wow_srp::LARGE_SAFE_PRIME_LITTLE_ENDIAN != n || wow_srp::LARGE_SAFE_PRIME_BIG_ENDIAN != be || wow_srp::GENERATOR != 7 {
        viol(report, "constants", json!({}), "N (either byte order) or g differ from the protocol constants".into());
    }
    if wow_srp::LARGE_SAFE_PRIME_LENGTH != 32 || wow_srp::PUBLIC_KEY_LENGTH != 32 || wow_srp::SALT_LENGTH != 32 || wow_srp::PROOF_LENGTH != 20 || wow_srp::SESSION_KEY_LENGTH != 40 || wow_srp::PASSWORD_VERIFIER_LENGTH != 32 || wow_srp::RECONNECT_CHALLENGE_DATA_LENGTH != 16 || wow_srp::GENERATOR_LENGTH != 1 || wow_srp::INTEGRITY_SALT_LENGTH != 16 {
        viol(report, "constants", json!({}), "a field-width constant differs from the protocol".into());
    }
    report.count("constant_checks", 2);
}

/// One-off search for rare-class logins (never touches the code under test; the output is not
/// trusted: every run re-derives each witness's class with the reference model first).
pub fn witness_search(seed: u64) {
    use crate::logins::in_class;
    let n = srp::n_builtin();
    let mut found: std::collections::BTreeMap<String, serde_json::Value> = Default::default();
    // keep what an earlier search already found (the search is deterministic, this only saves time)
    if let Ok(t) = std::fs::read_to_string(crate::logins::witnesses_path()) {
        if let Ok(serde_json::Value::Array(a)) = serde_json::from_str::<serde_json::Value>(&t) {
            for w in a {
                if let Some(c) = w["class"].as_str() {
                    found.insert(c.to_string(), w.clone());
                }
            }
        }
    }
    let user = "alice";
    let pass = "password123";
    let (un, pn) = (refmodel::misc::normalize(user).unwrap(), refmodel::misc::normalize(pass).unwrap());
    let want: Vec<&str> = vec!["S-low-zero-1", "S-low-zero-2", "S-low-zero-3", "S-high-zero-1", "S-high-zero-2", "A-high-zero-1", "A-high-zero-2", "B-high-zero-1", "B-high-zero-2", "v-high-zero-1", "v-high-zero-2", "base-negative", "base-nonnegative"];
    // general classes: full reference logins over counter-mode inputs
    let found_m = std::sync::Mutex::new(&mut found);
    let mut round = 0u64;
    loop {
        let missing: Vec<&str> = {
            let f = found_m.lock().unwrap();
            want.iter().filter(|c| !f.contains_key(**c) && !c.starts_with("S-low-zero-3") && !c.ends_with("-2")).cloned().collect()
        };
        if missing.is_empty() || round > 200 {
            break;
        }
        (0..4096u64).into_par_iter().for_each(|i| {
            let idx = round * 4096 + i;
            let salt = refmodel::ctr_array::<32>(seed, &format!("w-salt-{idx}"));
            let b = refmodel::ctr_array::<32>(seed, &format!("w-b-{idx}"));
            let a = refmodel::ctr_array::<32>(seed, &format!("w-a-{idx}"));
            let l = srp::login(&un, &pn, &un, &pn, &salt, &b, &a);
            for c in &missing {
                if in_class(c, &l) {
                    let mut f = found_m.lock().unwrap();
                    f.entry(c.to_string()).or_insert(json!({"class": c, "user": user, "pass": pass, "salt": hex(&salt), "b": hex(&b), "a": hex(&a)}));
                }
            }
        });
        round += 1;
    }
    // two high zero bytes and 2-3 low zero bytes of S: small b, incremental A (cheap candidates)
    // candidate i: a = a0 + i  =>  A_i = A_0 * g^i ; b = 3 ; S = (A * v^u)^3 mod N
    let salt = refmodel::ctr_array::<32>(seed, "w2-salt");
    let v = srp::verifier(&un, &pn, &salt, 7, &n);
    let b3 = U::from_u64(3);
    let b_pub = srp::server_public(&v, &b3, 7, &n);
    let b_pub_le = b_pub.to_le_padded::<32>();
    let a0 = U::from_le_bytes(&refmodel::ctr_array::<32>(seed, "w2-a0")).rem(&n);
    let chunk = 1u64 << 16;
    let mut start = 0u64;
    let step_g = U::from_u64(7);
    while start < (1u64 << 26) {
        let need: Vec<&str> = {
            let f = found_m.lock().unwrap();
            ["S-low-zero-2", "S-low-zero-3", "S-high-zero-2", "S-low-00-xx-00"].iter().filter(|c| !f.contains_key(**c)).cloned().collect()
        };
        if need.is_empty() {
            break;
        }
        let blocks: Vec<u64> = (0..64).map(|k| start + k * chunk).collect();
        blocks.par_iter().for_each(|&blk| {
            let a_start = a0.add(&U::from_u64(blk));
            let mut a_pub = step_g.modpow(&a_start, &n);
            for i in 0..chunk {
                let a_le = a_pub.to_le_padded::<32>();
                let u = U::from_le_bytes(&srp::u_bytes(&a_le, &b_pub_le));
                let s = a_pub.mul(&v.modpow(&u, &n)).rem(&n).modpow(&b3, &n).to_le_padded::<32>();
                let low = s.iter().take_while(|x| **x == 0).count();
                let high = s.iter().rev().take_while(|x| **x == 0).count();
                let cls = if low == 3 { Some("S-low-zero-3") } else if low == 2 { Some("S-low-zero-2") } else if high == 2 { Some("S-high-zero-2") } else if low == 1 && s[2] == 0 { Some("S-low-00-xx-00") } else { None };
                if let Some(c) = cls {
                    let a_val = a0.add(&U::from_u64(blk + i));
                    let mut f = found_m.lock().unwrap();
                    f.entry(c.to_string()).or_insert(json!({"class": c, "user": user, "pass": pass, "salt": hex(&salt), "b": hex(&le32_from_u64(3)), "a": hex(&a_val.to_le_padded::<32>())}));
                }
                a_pub = a_pub.mulmod(&step_g, &n);
            }
        });
        start += 64 * chunk;
        eprintln!("witness search: {} candidates, found {:?}", start, found_m.lock().unwrap().keys().collect::<Vec<_>>());
    }
    // A / B / v with two high zero bytes: vary a, b, salt separately (one modexp per candidate)
    for (cls, which) in [("A-high-zero-2", 0), ("B-high-zero-2", 1), ("v-high-zero-2", 2)] {
        let hit = (0..(1u64 << 19)).into_par_iter().find_any(|i| {
            let r = refmodel::ctr_array::<32>(seed, &format!("w3-{which}-{i}"));
            let val = match which {
                0 => srp::client_public(&U::from_le_bytes(&r), 7, &n),
                1 => srp::server_public(&v, &U::from_le_bytes(&r), 7, &n),
                _ => srp::verifier(&un, &pn, &r, 7, &n),
            }
            .to_le_padded::<32>();
            val[31] == 0 && val[30] == 0
        });
        if let Some(i) = hit {
            let r = refmodel::ctr_array::<32>(seed, &format!("w3-{which}-{i}"));
            let other_a = refmodel::ctr_array::<32>(seed, "w3-a");
            let other_b = refmodel::ctr_array::<32>(seed, "w3-b");
            let w = match which {
                0 => json!({"class": cls, "user": user, "pass": pass, "salt": hex(&salt), "b": hex(&other_b), "a": hex(&r)}),
                1 => json!({"class": cls, "user": user, "pass": pass, "salt": hex(&salt), "b": hex(&r), "a": hex(&other_a)}),
                _ => json!({"class": cls, "user": user, "pass": pass, "salt": hex(&r), "b": hex(&other_b), "a": hex(&other_a)}),
            };
            found_m.lock().unwrap().insert(cls.to_string(), w);
        }
    }
    // x with two zero bytes at either end: vary the salt (two SHA-1 per candidate)
    for (cls, lo) in [("x-low-zero-2", true), ("x-high-zero-2", false)] {
        let hit = (0..(1u64 << 22)).into_par_iter().find_any(|i| {
            let s = refmodel::ctr_array::<32>(seed, &format!("w4-{i}"));
            let x = srp::x_bytes(&un, &pn, &s);
            if lo { x[0] == 0 && x[1] == 0 } else { x[19] == 0 && x[18] == 0 }
        });
        if let Some(i) = hit {
            let s = refmodel::ctr_array::<32>(seed, &format!("w4-{i}"));
            found_m.lock().unwrap().insert(cls.to_string(), json!({"class": cls, "user": user, "pass": pass, "salt": hex(&s), "b": hex(&refmodel::ctr_array::<32>(seed, "w4-b")), "a": hex(&refmodel::ctr_array::<32>(seed, "w4-a"))}));
        }
    }
    // u = H(A|B) with two zero bytes at either end: a = a0 + i, A_i = A_0 * g^i (one modmul + one SHA-1 per candidate)
    {
        let b_priv = refmodel::ctr_array::<32>(seed, "w5-b");
        let b_pub_le = srp::server_public(&v, &U::from_le_bytes(&b_priv), 7, &n).to_le_padded::<32>();
        let a0 = U::from_le_bytes(&refmodel::ctr_array::<32>(seed, "w5-a0")).rem(&n);
        let blocks: Vec<u64> = (0..64).collect();
        blocks.par_iter().for_each(|&blk| {
            let start = a0.add(&U::from_u64(blk << 16));
            let mut a_pub = step_g.modpow(&start, &n);
            for i in 0..(1u64 << 16) {
                let u = srp::u_bytes(&a_pub.to_le_padded::<32>(), &b_pub_le);
                let cls = if u[0] == 0 && u[1] == 0 { Some("u-low-zero-2") } else if u[19] == 0 && u[18] == 0 { Some("u-high-zero-2") } else { None };
                if let Some(c) = cls {
                    let a_val = a0.add(&U::from_u64((blk << 16) + i));
                    found_m.lock().unwrap().entry(c.to_string()).or_insert(json!({"class": c, "user": user, "pass": pass, "salt": hex(&salt), "b": hex(&b_priv), "a": hex(&a_val.to_le_padded::<32>())}));
                }
                a_pub = a_pub.mulmod(&step_g, &n);
            }
        });
    }
    drop(found_m);
    let list: Vec<serde_json::Value> = found.values().cloned().collect();
    let path = crate::logins::witnesses_path();
    std::fs::create_dir_all(path.parent().unwrap()).unwrap();
    std::fs::write(&path, serde_json::to_string_pretty(&list).unwrap() + "\n").unwrap();
    println!("wrote {} witnesses to {}: {:?}", list.len(), path.display(), found.keys().collect::<Vec<_>>());
}
