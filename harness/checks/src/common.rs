//! Shared helpers: scripted-RNG wrapper, alphabets, the real login driven through the public API.

use mc::util::catch;
use refmodel::{ctr_array, srp};
use wow_srp::client::SrpClientChallenge;
use wow_srp::normalized_string::NormalizedString;
use wow_srp::server::{SrpServer, SrpVerifier};
use wow_srp::verif_hooks::{self, Draw};
use wow_srp::{PublicKey, GENERATOR, LARGE_SAFE_PRIME_LITTLE_ENDIAN};

pub fn ns(s: &str) -> NormalizedString {
    NormalizedString::new(s).unwrap_or_else(|e| mc::util::machinery_error(&format!("alphabet credential {s:?} rejected: {e}")))
}

/// Run `f` with the given RNG script installed on this thread. Returns the result (Err = the
/// library unwound), the number of scripted/tail bytes consumed and the draw log.
pub fn with_script<R>(script: &[u8], f: impl FnOnce() -> R) -> (Result<R, String>, usize, Vec<Draw>) {
    verif_hooks::install_script(script.to_vec());
    let r = catch(f);
    let (used, log) = verif_hooks::finish();
    (r, used, log)
}

/// How many scripted cases were set aside because the library does not take a DEGENERATE scripted value (all bytes
/// equal: 00..00, FF..FF, ...) as it stands but draws again - which no property forbids. Reported in the evidence.
pub static NOT_OWNED: std::sync::atomic::AtomicU64 = std::sync::atomic::AtomicU64::new(0);

#[derive(Clone, Copy, PartialEq, Eq, Hash, Debug)]
pub enum Pinned {
    /// registration salt (`SrpVerifier::from_username_and_password`)
    Salt,
    /// server private key (`SrpVerifier::into_proof`)
    ServerKey,
    /// client private key (`SrpClientChallenge::new`)
    ClientKey,
}

/// Does the library use this scripted value as it stands? Probed once per value and process: the drawing call is run
/// with the value scripted and with ordinary control values; if the library draws MORE often for the value than for
/// the controls, it refused the value and drew again, and cases that pin it are skipped (counted in NOT_OWNED), not
/// judged. (On the unchanged tree every value is taken as it stands.)
pub fn taken_as_is(kind: Pinned, v: &[u8; 32]) -> bool {
    // probed (once per value): everything a library could have a reason to refuse - small integers (0, 1, ... < 2^64),
    // values of one repeated byte, and values with the top bit set (>= 2^255: that includes everything >= N, which a
    // range check "private key in [1, N-1]" would refuse). An ordinary 256-bit value below 2^255 is taken as it stands.
    let small = v[8..].iter().all(|b| *b == 0);
    let repeated = v.iter().all(|b| *b == v[0]);
    if !(small || repeated || v[31] & 0x80 != 0) {
        return true;
    }
    static MEMO: std::sync::RwLock<Option<std::collections::HashMap<(Pinned, [u8; 32]), bool>>> = std::sync::RwLock::new(None);
    if let Some(m) = MEMO.read().unwrap().as_ref() {
        if let Some(e) = m.get(&(kind, *v)) {
            return *e;
        }
    }
    // the probe runs on a thread of its own: it must not disturb whatever the library keeps per thread between the
    // calls of the case that is being prepared (a probe between two logins of a sequence would reset a per-thread memo)
    // (one long-lived prober thread serves all requests)
    let draws = |val: &[u8; 32]| -> usize {
        use std::sync::mpsc::{channel, Receiver, Sender};
        type Chan = (Sender<(Pinned, [u8; 32])>, Receiver<usize>);
        // eight prober threads, picked by the value's first bytes (each serves one request at a time)
        static PROBERS: [std::sync::Mutex<Option<Chan>>; 8] = [const { std::sync::Mutex::new(None) }; 8];
        let slot = (val[0] as usize ^ val[5] as usize ^ val[17] as usize) % 8;
        let mut g = PROBERS[slot].lock().unwrap();
        let ch = g.get_or_insert_with(|| {
            let (tx, rx) = channel::<(Pinned, [u8; 32])>();
            let (rtx, rrx) = channel::<usize>();
            std::thread::spawn(move || {
                while let Ok((k, v)) = rx.recv() {
                    if rtx.send(draws_on_this_thread(k, &v)).is_err() {
                        break;
                    }
                }
            });
            (tx, rrx)
        });
        if ch.0.send((kind, *val)).is_err() {
            return usize::MAX;
        }
        ch.1.recv().unwrap_or(usize::MAX)
    };
    #[allow(clippy::needless_return)]
    fn draws_on_this_thread(kind: Pinned, val: &[u8; 32]) -> usize {
        let mut script = val.to_vec();
        script.extend_from_slice(&refmodel::ctr_bytes(77, "probe-tail", 96));
        let (_r, _used, log) = match kind {
            Pinned::Salt => {
                let (r, u, l) = with_script(&script, || {
                    let _ = SrpVerifier::from_username_and_password(ns("probe"), ns("probe"));
                });
                (r.map(|_| ()), u, l)
            }
            Pinned::ServerKey => {
                let mut vv = [0u8; 32];
                vv[0] = 0x35;
                vv[9] = 0x11;
                let (r, u, l) = with_script(&script, || {
                    let _ = SrpVerifier::from_database_values(ns("probe"), vv, [3u8; 32]).into_proof();
                });
                (r.map(|_| ()), u, l)
            }
            Pinned::ClientKey => {
                let (r, u, l) = with_script(&script, || {
                    if let Ok(bk) = PublicKey::from_le_bytes(le32_from_u64(1234567)) {
                        let _ = wow_srp::client::SrpClientChallenge::new(ns("probe"), ns("probe"), GENERATOR, LARGE_SAFE_PRIME_LITTLE_ENDIAN, bk, [3u8; 32]);
                    }
                });
                (r.map(|_| ()), u, l)
            }
        };
        return log.len();
    }
    // the control is an ordinary value below 2^248 (so below N): its draw count is what an accepted value costs;
    // should even the control be re-drawn, the minimum over a few controls is taken
    static CONTROL_DRAWS: std::sync::Mutex<[Option<usize>; 3]> = std::sync::Mutex::new([None; 3]);
    let ki = kind as usize;
    let cached = CONTROL_DRAWS.lock().unwrap()[ki];
    let control_draws = match cached {
        Some(c) => c,
        None => {
            let c = (0..4)
                .map(|i| {
                    let mut c = ctr_array::<32>(77, &format!("probe-control-{i}"));
                    c[31] = 0;
                    draws(&c)
                })
                .min()
                .unwrap();
            CONTROL_DRAWS.lock().unwrap()[ki] = Some(c);
            c
        }
    };
    let as_is = draws(v) <= control_draws;
    MEMO.write().unwrap().get_or_insert_with(Default::default).insert((kind, *v), as_is);
    as_is
}

/// Convenience: false (and counted) if any of the pinned values of a login is refused by the library.
pub fn login_inputs_taken_as_is(salt: &[u8; 32], b: &[u8; 32], a: &[u8; 32]) -> bool {
    let ok = taken_as_is(Pinned::Salt, salt) && taken_as_is(Pinned::ServerKey, b) && taken_as_is(Pinned::ClientKey, a);
    if !ok {
        NOT_OWNED.fetch_add(1, std::sync::atomic::Ordering::Relaxed);
    }
    ok
}

/// An ordinary scripted private key: counter-mode bytes with the top bit cleared, i.e. a 255-bit value below 2^255 < N.
/// No range policy a library could reasonably have (non-zero, > 1, < N - 1) refuses such a value, so the harness can
/// rely on it being used as drawn. (Values outside that range are scripted on purpose elsewhere, behind `taken_as_is`.)
pub fn ordinary_key(seed: u64, label: &str) -> [u8; 32] {
    let mut k = ctr_array::<32>(seed, label);
    k[31] &= 0x7F;
    if k[8..].iter().all(|b| *b == 0) {
        k[20] = 0x5A;
    }
    k
}

pub const N_LE: [u8; 32] = LARGE_SAFE_PRIME_LITTLE_ENDIAN;

pub fn le32_from_u64(v: u64) -> [u8; 32] {
    let mut a = [0u8; 32];
    a[..8].copy_from_slice(&v.to_le_bytes());
    a
}

/// N + delta (delta may be negative), little-endian 32 bytes (mod 2^256).
pub fn n_plus(delta: i64) -> [u8; 32] {
    let n = refmodel::big::U::from_le_bytes(&N_LE);
    let r = if delta >= 0 {
        n.add(&refmodel::big::U::from_u64(delta as u64))
    } else {
        n.sub(&refmodel::big::U::from_u64((-delta) as u64))
    };
    r.to_le_padded::<32>()
}

/// (username, password) pairs: the suite's A/A, length extremes, all 95 printable characters
/// spread over several pairs, the colon-ambiguity pair, mixed case.
pub fn creds(full: bool) -> Vec<(&'static str, &'static str)> {
    let mut v = vec![
        ("A", "A"),
        ("a", "a"),
        ("alice", "password123"),
        ("0123456789abcdef", "fedcba9876543210"),
        ("A:", "B"),
        ("A", ":B"),
        (" !\"#$%&'()*+,-./", "0123456789:;<=>?"),
        ("@ABCDEFGHIJKLMNO", "PQRSTUVWXYZ[\\]^_"),
    ];
    if full {
        v.extend_from_slice(&[
            ("`abcdefghijklmno", "pqrstuvwxyz{|}~ "),
            ("Z", "0123456789ABCDEF"),
            ("0123456789ABCDEF", "z"),
            ("MiXeD cAsE", "PaSsWoRd"),
            ("USERNAME123", "PASSWORD123"),
            (" ", " "),
            ("~", "~"),
            ("::::", "::::"),
            ("a b", "c d"),
            ("user\\name", "pass\"word"),
            ("ADMIN", "admin"),
            ("q", "qq"),
            ("qq", "q"),
            ("0", "00"),
            ("GM;", "'--"),
            ("zzzzzzzzzzzzzzzz", "ZZZZZZZZZZZZZZZZ"),
            // letters right after / before the characters that border the letter ranges in ASCII
            ("pass|zone", "a{z}~z`a"),
            ("@a[z", "`A{Z^a_z"),
        ]);
    }
    v
}

/// Case variants of a credential: all 2^n spellings for <= 4 letters, otherwise lower, upper,
/// alternating and each single-letter flip of the lower-case spelling.
pub fn case_variants(s: &str) -> Vec<String> {
    let letters: Vec<usize> = s.char_indices().filter(|(_, c)| c.is_ascii_alphabetic()).map(|(i, _)| i).collect();
    let lower = s.to_ascii_lowercase();
    let mut out = vec![];
    if letters.len() <= 4 {
        for mask in 0..(1u32 << letters.len()) {
            let mut b = lower.clone().into_bytes();
            for (k, &i) in letters.iter().enumerate() {
                if mask >> k & 1 == 1 {
                    b[i] = b[i].to_ascii_uppercase();
                }
            }
            out.push(String::from_utf8(b).unwrap());
        }
    } else {
        out.push(lower.clone());
        out.push(s.to_ascii_uppercase());
        let mut alt = lower.clone().into_bytes();
        for (k, &i) in letters.iter().enumerate() {
            if k % 2 == 0 {
                alt[i] = alt[i].to_ascii_uppercase();
            }
        }
        out.push(String::from_utf8(alt).unwrap());
        for &i in &letters {
            let mut b = lower.clone().into_bytes();
            b[i] = b[i].to_ascii_uppercase();
            out.push(String::from_utf8(b).unwrap());
        }
    }
    out.sort();
    out.dedup();
    out
}

pub fn salts(seed: u64, full: bool) -> Vec<[u8; 32]> {
    let mut one = [0u8; 32];
    one[0] = 1;
    let mut top = [0u8; 32];
    top[31] = 0x80;
    let mut v = vec![[0u8; 32], ctr_array::<32>(seed, "salt0"), [0xFF; 32], one, top];
    if full {
        // zero bytes at either end of an otherwise random salt, and a second random one
        let mut lo = ctr_array::<32>(seed, "salt-lo");
        lo[0] = 0;
        lo[1] = 0;
        let mut hi = ctr_array::<32>(seed, "salt-hi");
        hi[31] = 0;
        hi[30] = 0;
        v.extend_from_slice(&[lo, hi, ctr_array::<32>(seed, "salt1")]);
    }
    v
}

/// Private-key alphabet (little-endian 32 bytes). 0 is included: the library must cope (see C19).
pub fn private_keys(seed: u64, full: bool) -> Vec<[u8; 32]> {
    let mut v: Vec<[u8; 32]> = vec![
        le32_from_u64(1),
        le32_from_u64(2),
        le32_from_u64(3),
        le32_from_u64(255),
        le32_from_u64(256),
        n_plus(-1),
        [0xFF; 32],
        ctr_array::<32>(seed, "pk0"),
        ctr_array::<32>(seed, "pk1"),
    ];
    if full {
        let mut p128 = [0u8; 32];
        p128[16] = 1;
        let mut p255 = [0u8; 32];
        p255[31] = 0x80;
        let mut hi1 = ctr_array::<32>(seed, "pk-hi1");
        hi1[31] = 0;
        let mut hi2 = ctr_array::<32>(seed, "pk-hi2");
        hi2[31] = 0;
        hi2[30] = 0;
        let mut hi31 = [0u8; 32];
        hi31[0] = 0x5A;
        let mut lo1 = ctr_array::<32>(seed, "pk-lo1");
        lo1[0] = 0;
        let mut lo2 = ctr_array::<32>(seed, "pk-lo2");
        lo2[0] = 0;
        lo2[1] = 0;
        v.extend_from_slice(&[
            [0u8; 32],
            p128,
            p255,
            n_plus(-2),
            n_plus(0),
            n_plus(1),
            hi1,
            hi2,
            hi31,
            lo1,
            lo2,
            ctr_array::<32>(seed, "pk2"),
            ctr_array::<32>(seed, "pk3"),
        ]);
    }
    v
}

/// 40-byte session keys: boundary keys, rotating keys key_j[i] = (j + 7 i) mod 256, counter mode.
pub fn rotating_key(j: u8) -> [u8; 40] {
    let mut k = [0u8; 40];
    for (i, b) in k.iter_mut().enumerate() {
        *b = j.wrapping_add((7 * i) as u8);
    }
    k
}
pub fn key40s(seed: u64, n_ctr: usize) -> Vec<[u8; 40]> {
    let mut ramp = [0u8; 40];
    for (i, b) in ramp.iter_mut().enumerate() {
        *b = i as u8;
    }
    let mut halves = [0u8; 40];
    for (i, b) in halves.iter_mut().enumerate() {
        *b = 0xA0 ^ ((i % 20) as u8).wrapping_mul(13);
    }
    let mut lastzero = ramp;
    lastzero[39] = 0;
    lastzero[0] = 0x80;
    let mut v = vec![[0u8; 40], [0xFF; 40], ramp];
    v.extend_from_slice(&[[0x36; 40], [0x5c; 40], halves, lastzero]);
    for i in 0..n_ctr {
        v.push(ctr_array::<40>(seed, &format!("key40-{i}")));
    }
    v
}

#[derive(Debug, Clone)]
pub struct RealLogin {
    pub username_out: String,
    pub v: [u8; 32],
    pub salt: [u8; 32],
    pub b_pub: [u8; 32],
    pub a_pub: [u8; 32],
    pub m1: [u8; 20],
    pub m2: [u8; 20],
    pub k_server: [u8; 40],
    pub k_client: [u8; 40],
    pub challenge: [u8; 16],
}

#[derive(Debug, Clone)]
pub enum LoginFail {
    /// a library call unwound; (stage, message)
    Panic(&'static str, String),
    /// the library refused (stage, description)
    Refused(&'static str, String),
    /// the harness's RNG expectations were not met
    Rng(String),
    /// the library refuses one of the (degenerate) scripted values and draws again: the case is skipped, not judged
    Redrawn,
}

pub struct LoginInput<'a> {
    pub reg_user: &'a str,
    pub reg_pass: &'a str,
    pub typed_user: &'a str,
    pub typed_pass: &'a str,
    pub salt: [u8; 32],
    pub b: [u8; 32],
    pub a: [u8; 32],
    pub storage_roundtrip: bool,
}

/// The first SRP computation of the process is an UNUSUAL one: a client challenge towards a server that announces
/// g = 2, N' = 3. Anything the library memoises process-wide on first use (a parsed prime, a pre-computed hash) is then
/// seeded from this group, and the ordinary logins that follow show it. (The opposite order - ordinary first, unusual
/// later - is what the login sequences of C01/C03 cover.)
pub fn unusual_first_use() {
    static ONCE: std::sync::Once = std::sync::Once::new();
    ONCE.call_once(|| {
        let mut n3 = [0u8; 32];
        n3[0] = 3;
        if let Ok(bk) = PublicKey::from_le_bytes(le32_from_u64(1)) {
            let _ = with_script(&le32_from_u64(5), || {
                let c = wow_srp::client::SrpClientChallenge::new(ns("first"), ns("use"), 2, n3, bk, [9u8; 32]);
                *c.client_proof()
            });
        }
    });
}

/// Full login through the public typestate API under a scripted RNG (scripted phase by phase: salt, b, a).
pub fn real_login(i: &LoginInput) -> Result<(RealLogin, SrpServer, wow_srp::client::SrpClient), LoginFail> {
    if !login_inputs_taken_as_is(&i.salt, &i.b, &i.a) {
        return Err(LoginFail::Redrawn);
    }
    // The RNG is scripted PHASE BY PHASE: registration gets `salt | filler`, into_proof gets `b | filler`, the client
    // challenge gets `a | filler`, everything after that filler only. Whatever order, chunking (one 32-byte draw, four
    // 8-byte draws ...) or additional draws (the reconnect challenge, wherever it is drawn) a version of the library
    // uses, the first 32 bytes each phase consumes are the pinned value.
    let r = real_login_inner(i);
    let _ = verif_hooks::finish();
    r
}

fn phase_begin(pinned: &[u8], k: usize) {
    let mut s = pinned.to_vec();
    s.extend_from_slice(&refmodel::ctr_bytes(0, &format!("phase-filler-{k}"), 96));
    verif_hooks::install_script(s);
}
/// Ends a phase; Err if the phase consumed fewer than the 32 pinned bytes (the value is then not the harness's).
fn phase_end(pinned: &[u8], what: &str) -> Result<(), LoginFail> {
    let (used, log) = verif_hooks::finish();
    let drawn: Vec<u8> = log.iter().flat_map(|d| d.bytes.iter().copied()).collect();
    if !pinned.is_empty() && (used < pinned.len() || !drawn.starts_with(pinned)) {
        return Err(LoginFail::Rng(format!("{what} did not draw its {} pinned bytes through the RNG seam: {} draws / {} bytes: {:?}", pinned.len(), log.len(), used, log.iter().map(|d| (d.file, d.line, d.bytes.len())).collect::<Vec<_>>())));
    }
    Ok(())
}

fn real_login_inner(i: &LoginInput) -> Result<(RealLogin, SrpServer, wow_srp::client::SrpClient), LoginFail> {
    // the account is registered from &str, the client holds its text in Strings / parses it: the property speaks of the
    // credentials, not of one constructor, so the two sides deliberately use different ones (all alphabet credentials are
    // permitted ones by the reference rule: a refusal here is the library's)
    let refuse = |e: wow_srp::error::NormalizedStringError| LoginFail::Refused("permitted-credential-refused", e.to_string());
    let ru = NormalizedString::new(i.reg_user).map_err(refuse)?;
    let rp = NormalizedString::new(i.reg_pass).map_err(refuse)?;
    let tu = NormalizedString::from_string(i.typed_user.to_string()).map_err(refuse)?;
    let tp = <NormalizedString as std::convert::TryFrom<String>>::try_from(i.typed_pass.to_string()).map_err(refuse)?;
    phase_begin(&i.salt, 1);
    let verifier = catch(|| {
        // credentials reach the library as copies of what the application holds (Clone is part of their public behaviour)
        let (ru2, rp2) = (ru.clone(), rp.clone());
        drop((ru, rp));
        SrpVerifier::from_username_and_password(ru2, rp2)
    }).map_err(|m| LoginFail::Panic("register", m))?;
    phase_end(&i.salt, "registration")?;
    let username_out = verifier.username().to_string();
    let v = *verifier.password_verifier();
    let salt = *verifier.salt();
    let verifier = if i.storage_roundtrip {
        let u = NormalizedString::new(verifier.username()).map_err(|e| LoginFail::Refused("reimport-username", e.to_string()))?;
        SrpVerifier::from_database_values(u, v, salt)
    } else {
        verifier
    };
    // on the storage-round-trip path every intermediate object is also replaced by its clone before the next step
    // (typestate objects are kept in per-connection maps and cloned out of them): a copy is the same object
    let via_clones = i.storage_roundtrip;
    let verifier = if via_clones { verifier.clone() } else { verifier };
    phase_begin(&i.b, 2);
    let proof = catch(move || verifier.into_proof()).map_err(|m| LoginFail::Panic("into_proof", m))?;
    phase_end(&i.b, "into_proof")?;
    let proof = if via_clones { proof.clone() } else { proof };
    let b_pub = *proof.server_public_key();
    let salt_sent = *proof.salt();
    let bk = PublicKey::from_le_bytes(b_pub).map_err(|e| LoginFail::Refused("client-parses-B", e.to_string()))?;
    phase_begin(&i.a, 3);
    let client = catch(move || SrpClientChallenge::new(tu, tp, GENERATOR, LARGE_SAFE_PRIME_LITTLE_ENDIAN, bk, salt_sent))
        .map_err(|m| LoginFail::Panic("client-new", m))?;
    phase_end(&i.a, "SrpClientChallenge::new")?;
    phase_begin(&[], 4);
    let client = if via_clones { client.clone() } else { client };
    let a_pub = *client.client_public_key();
    let m1 = *client.client_proof();
    let ak = PublicKey::from_le_bytes(a_pub).map_err(|e| LoginFail::Refused("server-parses-A", e.to_string()))?;
    let (server, m2) = catch(move || proof.into_server(ak, m1))
        .map_err(|m| LoginFail::Panic("into_server", m))?
        .map_err(|e| LoginFail::Refused("into_server", e.to_string()))?;
    let sc = catch(move || client.verify_server_proof(m2))
        .map_err(|m| LoginFail::Panic("verify_server_proof", m))?
        .map_err(|e| LoginFail::Refused("verify_server_proof", e.to_string()))?;
    let rl = RealLogin {
        username_out,
        v,
        salt,
        b_pub,
        a_pub,
        m1,
        m2,
        k_server: *server.session_key(),
        k_client: *sc.session_key(),
        challenge: *server.reconnect_challenge_data(),
    };
    Ok((rl, server, sc))
}

/// Reference login for the same input (normalising credentials with the reference rule).
pub fn ref_login(i: &LoginInput) -> srp::Login {
    let n = |s: &str| refmodel::misc::normalize(s).unwrap_or_else(|e| mc::util::machinery_error(&format!("refmodel rejects alphabet credential {s:?}: {e:?}")));
    srp::login(&n(i.reg_user), &n(i.reg_pass), &n(i.typed_user), &n(i.typed_pass), &i.salt, &i.b, &i.a)
}

pub fn hex(b: &[u8]) -> String {
    mc::util::hex(b)
}

/// Prime moduli that fit in 32 bytes (primality is re-checked by the Python cross-check in setup).
pub fn moduli() -> Vec<(&'static str, refmodel::big::U)> {
    use refmodel::big::U;
    let p2 = |e: u32, sub: u64| {
        // 2^e - sub
        let mut b = vec![0u8; (e as usize) / 8 + 1];
        b[(e as usize) / 8] = 1 << (e % 8);
        U::from_le_bytes(&b).sub(&U::from_u64(sub))
    };
    vec![
        ("builtin-N", srp::n_builtin()),
        ("2^255-19", p2(255, 19)),
        ("secp256k1-p", U::from_hex_be("fffffffffffffffffffffffffffffffffffffffffffffffffffffffefffffc2f")),
        ("p256-p", U::from_hex_be("ffffffff00000001000000000000000000000000ffffffffffffffffffffffff")),
        ("2^127-1", p2(127, 1)),
        ("2^61-1", p2(61, 1)),
        ("2^31-1", p2(31, 1)),
        ("65537", U::from_u64(65537)),
        ("65521", U::from_u64(65521)),
        ("257", U::from_u64(257)),
        ("251", U::from_u64(251)),
        ("13", U::from_u64(13)),
        ("11", U::from_u64(11)),
        ("7", U::from_u64(7)),
        ("5", U::from_u64(5)),
        ("3", U::from_u64(3)),
        ("2", U::from_u64(2)),
    ]
}

/// Structured multi-bit alterations of a 20-byte proof (none equals the original): all pairs of
/// bit flips (thorough) or the pairs a word-/byte-folding comparison would cancel (quick), single
/// byte replacements, truncations to zero from either end, rotations, reversal, complement.
pub fn altered_proofs(p: &[u8; 20], full: bool) -> Vec<[u8; 20]> {
    let mut v: Vec<[u8; 20]> = vec![];
    let flip = |x: &mut [u8; 20], bit: usize| x[bit / 8] ^= 1 << (bit % 8);
    for i in 0..160 {
        for j in (i + 1)..160 {
            // quick: same bit position in two bytes (distance multiple of 8), or neighbours
            if full || (j - i) % 8 == 0 || j == i + 1 {
                let mut x = *p;
                flip(&mut x, i);
                flip(&mut x, j);
                v.push(x);
            }
        }
    }
    for pos in 0..20 {
        let vals: Vec<u8> = if full { (0..=255).collect() } else { vec![0x00, 0xFF, p[pos] ^ 0x80, p[pos].wrapping_add(1)] };
        for val in vals {
            if val != p[pos] {
                let mut x = *p;
                x[pos] = val;
                v.push(x);
            }
        }
    }
    for k in 1..20 {
        let mut head = *p;
        for b in head.iter_mut().skip(k) {
            *b = 0;
        }
        v.push(head);
        let mut tail = *p;
        for b in tail.iter_mut().take(k) {
            *b = 0;
        }
        v.push(tail);
        let mut rot = *p;
        rot.rotate_left(k);
        v.push(rot);
    }
    // pairs of bytes swapped, and byte pairs changed by +1 / -1 (cancel under a wrapping-sum fold)
    for i in 0..20 {
        for j in (i + 1)..20 {
            let mut x = *p;
            x.swap(i, j);
            v.push(x);
            let mut y = *p;
            y[i] = y[i].wrapping_add(1);
            y[j] = y[j].wrapping_sub(1);
            v.push(y);
        }
    }
    let mut rev = *p;
    rev.reverse();
    v.push(rev);
    v.push(p.map(|b| !b));
    v.push([0u8; 20]);
    // three flips whose 32-bit words XOR-cancel pairwise cannot exist; but 4 flips can: bits (i, i+32) and (j, j+32)
    for i in 0..32 {
        let mut x = *p;
        for w in 0..4 {
            flip(&mut x, i + 32 * w);
        }
        v.push(x);
    }
    v.retain(|x| x != p);
    v.sort();
    v.dedup();
    v
}

/// Client-side operand sets (B, x, a, u) at the seam whose base B - k*g^x (as the library computes
/// it: k * (g^x mod N), NOT reduced) is a chosen small or special integer: -3..=3, -N-1..=-N+1,
/// -2N, N-1 ..., with odd and even exponents. Built with the reference big integers.
pub fn targeted_client_bases(seed: u64) -> Vec<([u8; 32], [u8; 20], [u8; 32], [u8; 20], String)> {
    use refmodel::big::U;
    let n = srp::n_builtin();
    let two256 = {
        let mut b = vec![0u8; 33];
        b[32] = 1;
        U::from_le_bytes(&b)
    };
    let mut out = vec![];
    let mut xs_small = vec![]; // 3*(g^x mod N) < N
    let mut xs_big = vec![]; // 3*(g^x mod N) >= 2N
    let mut i = 0u64;
    while (xs_small.len() < 2 || xs_big.len() < 2) && i < 10_000 {
        let x = refmodel::ctr_array::<20>(seed, &format!("tb-x-{i}"));
        let kgx = U::from_u64(3).mul(&U::from_u64(7).modpow(&U::from_le_bytes(&x), &n));
        if kgx.cmp(&n) == std::cmp::Ordering::Less && xs_small.len() < 2 {
            xs_small.push((x, kgx));
        } else if kgx.cmp(&n.add(&n)) != std::cmp::Ordering::Less && xs_big.len() < 2 {
            xs_big.push((x, kgx));
        }
        i += 1;
    }
    let mut u1 = [0u8; 20];
    u1[0] = 1;
    for (x, kgx) in xs_small.iter().chain(xs_big.iter()) {
        // base = d  (B = kgx + d), base = d - N (B = kgx + d - N), base = d - 2N
        for shift in 0..3u64 {
            for d in -3i64..=3 {
                let mut v = kgx.clone();
                let mut ok = true;
                for _ in 0..shift {
                    if v.cmp(&n) == std::cmp::Ordering::Less {
                        ok = false;
                        break;
                    }
                    v = v.sub(&n);
                }
                if !ok {
                    continue;
                }
                let b = if d >= 0 {
                    v.add(&U::from_u64(d as u64))
                } else if v.cmp(&U::from_u64((-d) as u64)) != std::cmp::Ordering::Less {
                    v.sub(&U::from_u64((-d) as u64))
                } else {
                    continue;
                };
                if b.is_zero() || b == n || b.cmp(&two256) != std::cmp::Ordering::Less {
                    continue;
                }
                for (a, u) in [(1u64, [0u8; 20]), (2, [0u8; 20]), (3, [0u8; 20]), (1, u1), (2, u1)] {
                    out.push((b.to_le_padded::<32>(), *x, le32_from_u64(a), u, format!("base = {d} - {shift}*N, a = {a}, u = {}", u[0])));
                }
            }
        }
    }
    out
}
