//! Construction of the real header-crypto objects through the public API only.

use crate::common::ns;
use wow_srp::{tbc_header, vanilla_header, wrath_header};

pub fn vanilla(key: &[u8; 40]) -> vanilla_header::HeaderCrypto {
    vanilla_header::ProofSeed::new().into_client_header_crypto(&ns("A"), *key, 0).1
}
pub fn tbc(key: &[u8; 40]) -> tbc_header::HeaderCrypto {
    tbc_header::ProofSeed::new().into_client_header_crypto(&ns("A"), *key, 0).1
}
pub fn wrath_client(key: &[u8; 40]) -> wrath_header::ClientCrypto {
    wrath_header::ProofSeed::new().into_client_header_crypto(&ns("A"), *key, 0).1
}
/// The server object only exists behind a successful proof check; the proof is the library
/// client's own (C06 decides whether that proof is right, here it is only a way in).
pub fn wrath_server(key: &[u8; 40]) -> wrath_header::ServerCrypto {
    let server_seed = wrath_header::ProofSeed::new();
    let client_seed = wrath_header::ProofSeed::new();
    let cs = client_seed.seed();
    let (proof, _) = client_seed.into_client_header_crypto(&ns("A"), *key, server_seed.seed());
    match server_seed.into_server_header_crypto(&ns("A"), *key, proof, cs) {
        Ok(c) => c,
        Err(e) => mc::util::machinery_error(&format!(
            "cannot construct a Wrath ServerCrypto: the library's own client proof is refused by its server ({e}); see C06"
        )),
    }
}
pub fn vanilla_server(key: &[u8; 40]) -> vanilla_header::HeaderCrypto {
    let server_seed = vanilla_header::ProofSeed::new();
    let client_seed = vanilla_header::ProofSeed::new();
    let cs = client_seed.seed();
    let (proof, _) = client_seed.into_client_header_crypto(&ns("A"), *key, server_seed.seed());
    match server_seed.into_server_header_crypto(&ns("A"), *key, proof, cs) {
        Ok(c) => c,
        Err(e) => mc::util::machinery_error(&format!("cannot construct a Vanilla server HeaderCrypto ({e}); see C06")),
    }
}
pub fn tbc_server(key: &[u8; 40]) -> tbc_header::HeaderCrypto {
    let server_seed = tbc_header::ProofSeed::new();
    let client_seed = tbc_header::ProofSeed::new();
    let cs = client_seed.seed();
    let (proof, _) = client_seed.into_client_header_crypto(&ns("A"), *key, server_seed.seed());
    match server_seed.into_server_header_crypto(&ns("A"), *key, proof, cs) {
        Ok(c) => c,
        Err(e) => mc::util::machinery_error(&format!("cannot construct a TBC server HeaderCrypto ({e}); see C06")),
    }
}

/// Behavioural equality of two cipher objects: fed the same `n` bytes they produce the same
/// output. Used instead of derived `==` wherever a property speaks about bytes and "staying in
/// step" rather than about object identity (scratch buffers and stashes may legitimately differ).
pub fn same_future<T: Clone>(a: &T, b: &T, n: usize, op: impl Fn(&mut T, &mut [u8])) -> bool {
    let (mut a, mut b) = (a.clone(), b.clone());
    let mut x: Vec<u8> = (0..n).map(|i| (i as u8).wrapping_mul(31)).collect();
    let mut y = x.clone();
    op(&mut a, &mut x);
    op(&mut b, &mut y);
    x == y
}
