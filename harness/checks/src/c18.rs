//! C18: matrix-card proofs match what a user reads off the printed card. E3 sweeps over all card
//! shapes of at most 255 cells, all coordinates, all rounds 0..=255.

use crate::common::hex;
use mc::report::{Report, Tier, Violation};
use mc::util::catch;
use rayon::prelude::*;
use refmodel::misc::{matrix_cells, matrix_proof};
use serde_json::json;
use std::sync::atomic::{AtomicU64, Ordering};
use wow_srp::matrix_card::{verify_matrix_card_hash, MatrixCard, MatrixCardVerifier};

fn viol(report: &Report, class: &str, replay: serde_json::Value, msg: String) {
    report.violation(Violation { signature: format!("C18|{class}"), scenario: "matrix-card".into(), replay, detail: json!({ "message": msg }) });
}

/// Card contents that make the read offset visible: pass p in 0..3 writes decimal digit p of the
/// cell index (plus the position inside the cell); passes 3,4 are counter-mode digits.
fn card_data(pass: usize, cells: usize, d: usize, seed: u64) -> Vec<u8> {
    let mut v = Vec::with_capacity(cells * d);
    if pass < 3 {
        let div = [1usize, 10, 100][pass];
        for i in 0..cells {
            for j in 0..d {
                v.push((((i / div) % 10) + j) as u8 % 10);
            }
        }
    } else {
        let raw = refmodel::ctr_bytes(seed, &format!("card-{pass}-{cells}-{d}"), cells * d);
        v.extend(raw.iter().map(|b| b % 10));
    }
    v
}

/// Digits of a printed cell; an empty list if the printer has no such cell (the lookup comparison reports that).
fn printed_or_empty(card: &MatrixCard, idx: usize) -> Vec<u8> {
    printed_digits(card, idx).unwrap_or_default()
}

fn printed_digits(card: &MatrixCard, idx: usize) -> Option<Vec<u8>> {
    card.to_printer().nth(idx).map(|s| s.bytes().map(|b| b.wrapping_sub(b'0')).collect())
}

pub fn run(tier: Tier, seed: u64) -> i32 {
    let report = Report::new("C18", tier, seed, "model_checking");
    let mut shapes: Vec<(u8, u8)> = vec![];
    for w in 1..=255u32 {
        for h in 1..=255u32 {
            if w * h <= 255 {
                shapes.push((w as u8, h as u8));
            }
        }
    }
    report.count("shapes", shapes.len() as u64);
    let digit_counts: Vec<u8> = vec![1, 2, 3, 4, 8];
    let keys = crate::common::key40s(seed, 1);
    let coord_cases = AtomicU64::new(0);
    let round_cases = AtomicU64::new(0);
    let proof_cases = AtomicU64::new(0);
    let reject_cases = AtomicU64::new(0);
    let selection_agrees = AtomicU64::new(0);
    let selection_differs = AtomicU64::new(0);

    shapes.par_iter().for_each(|&(w, h)| {
        let cells = w as usize * h as usize;
        let mut dcs = digit_counts.clone();
        if tier == Tier::Thorough && cells <= 30 {
            dcs.extend([5u8, 6, 7, 9, 10, 16]);
        } else if cells <= 12 {
            dcs.extend([6u8, 10]);
        }
        if cells <= 2 {
            dcs.push(255);
        }
        for &d in &dcs {
            let n_pass = tier.pick(4, 5);
            for pass in 0..n_pass {
                let data = card_data(pass, cells, d as usize, seed);
                let card = match MatrixCard::from_data(d, h, w, data.clone()) {
                    Some(c) => c,
                    None => {
                        viol(&report, "from_data-refused", json!({"w": w, "h": h, "digits": d}), "from_data refused data of the documented size".into());
                        continue;
                    }
                };
                // (1) lookup == printed cell at row y, column x, for every coordinate on the card
                for y in 0..h {
                    for x in 0..w {
                        let idx = y as usize * w as usize + x as usize;
                        let printed = printed_digits(&card, idx);
                        let got = catch(|| card.get_number_at_coordinates(x, y).to_vec());
                        coord_cases.fetch_add(1, Ordering::Relaxed);
                        match (got, printed) {
                            (Ok(g), Some(p)) => {
                                if g != p {
                                    viol(&report, "lookup-differs-from-printed-cell", json!({"w": w, "h": h, "digits": d, "pass": pass, "x": x, "y": y}),
                                        format!("get_number_at_coordinates({x},{y}) = {g:?}, printed cell #{idx} (row {y}, column {x}) = {p:?}"));
                                    return;
                                }
                            }
                            (Err(m), _) => {
                                viol(&report, "lookup-panic", json!({"w": w, "h": h, "digits": d, "pass": pass, "x": x, "y": y}), format!("get_number_at_coordinates({x},{y}) panicked: {m}"));
                                return;
                            }
                            (_, None) => {
                                viol(&report, "printer-has-fewer-cells-than-the-card", json!({"w": w, "h": h, "digits": d, "pass": pass, "x": x, "y": y}), format!("the printer yields no cell #{idx} although the card is {w}x{h}"));
                                return;
                            }
                        }
                    }
                }
            }
            // (1b) data of the wrong size: either refused, or a card on which every lookup still works (never a card that
            //      panics on a coordinate it claims to have); the accessors return what was given
            for wrong in [0usize, 1, (cells * d as usize).saturating_sub(1), cells * d as usize + 1, cells * d as usize + d as usize] {
                if wrong == cells * d as usize {
                    continue;
                }
                let data = card_data(1, cells + 2, d as usize, seed)[..wrong].to_vec();
                match catch(|| MatrixCard::from_data(d, h, w, data)) {
                    Err(m) => viol(&report, "from_data-panic", json!({"w": w, "h": h, "digits": d, "data_len": wrong}), format!("from_data panicked on {wrong} bytes: {m}")),
                    Ok(None) => {}
                    Ok(Some(card)) => {
                        for y in 0..h {
                            for x in 0..w {
                                if let Err(m) = catch(|| card.get_number_at_coordinates(x, y).to_vec()) {
                                    viol(&report, "lookup-panic-on-accepted-short-data", json!({"w": w, "h": h, "digits": d, "data_len": wrong, "x": x, "y": y}), format!("from_data accepted {wrong} bytes for a {w}x{h}x{d} card and the lookup of ({x},{y}) panics: {m}"));
                                }
                            }
                        }
                    }
                }
                coord_cases.fetch_add(1, Ordering::Relaxed);
            }
            // (2) rounds and (3) proofs
            let data = card_data(3, cells, d as usize, seed);
            let card = match MatrixCard::from_data(d, h, w, data) {
                Some(c) => c,
                None => {
                    viol(&report, "from_data-refused", json!({"w": w, "h": h, "digits": d}), "from_data refused data of the documented size".into());
                    continue;
                }
            };
            if card.digit_count() != d || card.width() != w || card.height() != h {
                viol(&report, "accessors", json!({"w": w, "h": h, "digits": d}), format!("accessors return {}x{}x{}", card.width(), card.height(), card.digit_count()));
            }
            let mut counts: Vec<u8> = vec![1, 2, 3, (cells.saturating_sub(1)).max(1) as u8, cells as u8];
            counts.retain(|c| *c as usize <= cells && *c >= 1);
            counts.sort();
            counts.dedup();
            let mut seeds: Vec<u64> = vec![0, 1, 1 << 32, 1 << 63, u64::MAX, u64::from_le_bytes(refmodel::ctr_array::<8>(seed, "mseed"))];
            // multiples of the cell count and of its factorial-base weights, values around 2^63
            for k in if tier == Tier::Thorough { vec![1u64, 2, 3, 255] } else { vec![1u64] } {
                seeds.push(k * cells as u64);
                seeds.push((k * cells as u64).wrapping_mul(cells.saturating_sub(1).max(1) as u64));
            }
            seeds.push((1u64 << 63) + cells as u64);
            seeds.push((1u64 << 63) - 1);
            if cells <= 12 {
                // every index triple of small cards
                let lim = (cells * cells.saturating_sub(1).max(1) * cells.saturating_sub(2).max(1)) as u64;
                seeds.extend(0..lim.min(2000));
            }
            for &count in &counts {
                for &sd in &seeds {
                    let key = &keys[(sd as usize) % keys.len()];
                    let mut v = match catch(|| MatrixCardVerifier::new(count, h, sd, w, key)) {
                        Ok(v) => v,
                        Err(m) => {
                            viol(&report, "verifier-new-panic", json!({"w": w, "h": h, "count": count, "seed": sd}), format!("MatrixCardVerifier::new panicked: {m}"));
                            return;
                        }
                    };
                    let mut coords: Vec<(u8, u8)> = vec![];
                    for round in 0..=255u8 {
                        round_cases.fetch_add(1, Ordering::Relaxed);
                        match catch(|| v.get_matrix_coordinates(round)) {
                            Err(m) => {
                                viol(&report, if round >= count { "round-out-of-range-panic" } else { "round-panic" }, json!({"w": w, "h": h, "count": count, "seed": sd, "round": round}),
                                    format!("get_matrix_coordinates({round}) with {count} challenges panicked: {m}"));
                                return;
                            }
                            Ok(Some((x, y))) => {
                                if round >= count {
                                    viol(&report, "round-out-of-range-has-coordinates", json!({"w": w, "h": h, "count": count, "seed": sd, "round": round}), format!("round {round} >= count {count} yields coordinates ({x},{y})"));
                                    return;
                                }
                                if x >= w || y >= h {
                                    viol(&report, "coordinate-off-card", json!({"w": w, "h": h, "count": count, "seed": sd, "round": round}), format!("coordinates ({x},{y}) lie outside a {w}x{h} card"));
                                    return;
                                }
                                if coords.contains(&(x, y)) {
                                    viol(&report, "coordinate-repeated", json!({"w": w, "h": h, "count": count, "seed": sd, "round": round}), format!("coordinates ({x},{y}) challenged twice"));
                                    return;
                                }
                                coords.push((x, y));
                            }
                            Ok(None) => {
                                if round < count {
                                    viol(&report, "round-in-range-without-coordinates", json!({"w": w, "h": h, "count": count, "seed": sd, "round": round}), format!("round {round} < count {count} yields no coordinates"));
                                    return;
                                }
                            }
                        }
                    }
                    // out-of-range rounds asked FIRST on fresh verifiers (nothing decoded yet): still no coordinates, no panic
                    for first in [255u8, 254, 128, count, count.saturating_add(1)] {
                        if first < count {
                            continue;
                        }
                        let mut v3 = MatrixCardVerifier::new(count, h, sd, w, key);
                        match catch(|| v3.get_matrix_coordinates(first)) {
                            Ok(None) => {}
                            other => {
                                viol(&report, "round-out-of-range-has-coordinates", json!({"w": w, "h": h, "count": count, "seed": sd, "round": first, "asked": "first, on a fresh verifier"}), format!("round {first} >= count {count}, asked before any other round, yields {other:?}"));
                                return;
                            }
                        }
                        // and the in-range rounds afterwards are unaffected
                        if let Some(c0) = coords.first() {
                            if catch(|| v3.get_matrix_coordinates(0)).ok().flatten() != Some(*c0) {
                                viol(&report, "round-answer-depends-on-the-order-of-questions", json!({"w": w, "h": h, "count": count, "seed": sd, "round": 0, "after_out_of_range_round": first}), format!("after asking the out-of-range round {first}, round 0 no longer yields {c0:?}"));
                                return;
                            }
                        }
                    }
                    // the same rounds asked last-to-first, twice each, on a fresh verifier: same coordinates (the answer for a
                    // round does not depend on which rounds were asked before)
                    {
                        let mut v2 = MatrixCardVerifier::new(count, h, sd, w, key);
                        for round in (0..count).rev() {
                            for _ in 0..2 {
                                let got = catch(|| v2.get_matrix_coordinates(round));
                                if got.as_ref().ok() != Some(&coords.get(round as usize).copied()) {
                                    viol(&report, "round-answer-depends-on-the-order-of-questions", json!({"w": w, "h": h, "count": count, "seed": sd, "round": round}), format!("asked last-to-first, round {round} yields {got:?}; asked first-to-last it yields {:?}", coords.get(round as usize)));
                                    return;
                                }
                            }
                        }
                    }
                    // observation only: agreement with the game client's selection scheme
                    let refsel: Vec<(u8, u8)> = matrix_cells(w, h, count, sd).iter().map(|c| (c % w, c / w)).collect();
                    if refsel == coords {
                        selection_agrees.fetch_add(1, Ordering::Relaxed);
                    } else {
                        selection_differs.fetch_add(1, Ordering::Relaxed);
                    }
                    // (3) the user reads the PRINTED card at the challenged cells
                    let mut digits: Vec<u8> = vec![];
                    for &(x, y) in &coords {
                        digits.extend(printed_or_empty(&card, y as usize * w as usize + x as usize));
                    }
                    let mut client = MatrixCardVerifier::new(count, h, sd, w, key);
                    // the verifier is copied half-way through the entry (a UI keeps one per dialog and clones it on redraw)
                    // and the card is a copy of the stored one: neither may change what is computed
                    let half = digits.len() / 2;
                    for &dg in &digits[..half] {
                        client.enter_value(dg);
                    }
                    let mut client = client.clone();
                    for &dg in &digits[half..] {
                        client.enter_value(dg);
                    }
                    let proof = client.into_proof();
                    let card = card.clone();
                    proof_cases.fetch_add(1, Ordering::Relaxed);
                    let want = matrix_proof(sd, key, &digits);
                    if proof != want {
                        viol(&report, "proof-differs-from-definition", json!({"w": w, "h": h, "digits": d, "count": count, "seed": sd, "key": hex(key)}), format!("client proof {} != HMAC-SHA1(MD5(seed|K)) over RC4-encrypted digits {}", hex(&proof), hex(&want)));
                        return;
                    }
                    match catch(|| verify_matrix_card_hash(&card, count, sd, key, &proof)) {
                        Ok(true) => {}
                        Ok(false) => {
                            viol(&report, "server-rejects-printed-digits", json!({"w": w, "h": h, "digits": d, "count": count, "seed": sd, "key": hex(key), "coords": coords}),
                                "a client that entered the digits printed at the challenged cells is rejected by verify_matrix_card_hash".into());
                            return;
                        }
                        Err(m) => {
                            viol(&report, "verify-panic", json!({"w": w, "h": h, "digits": d, "count": count, "seed": sd}), format!("verify_matrix_card_hash panicked: {m}"));
                            return;
                        }
                    }
                    // any other digit sequence is rejected (a few per case; all one-digit changes for small ones)
                    let mut wrongs: Vec<Vec<u8>> = vec![];
                    let step = if digits.len() <= 12 || tier == Tier::Thorough { 1 } else { digits.len() / 6 + 1 };
                    // aliases of the right digits a "helpful" normalisation would fold back: ASCII '0'..'9', +10, high bit set
                    for delta in [48u8, 10, 0x80, 246] {
                        let mut all = digits.clone();
                        for x in all.iter_mut() {
                            *x = x.wrapping_add(delta);
                        }
                        wrongs.push(all);
                        let mut one = digits.clone();
                        let k = (sd as usize) % one.len().max(1);
                        if let Some(x) = one.get_mut(k) {
                            *x = x.wrapping_add(delta);
                        }
                        wrongs.push(one);
                    }
                    for i in (0..digits.len()).step_by(step) {
                        let mut w2 = digits.clone();
                        w2[i] = (w2[i] + 1) % 10;
                        wrongs.push(w2);
                    }
                    let mut dropped = digits.clone();
                    dropped.pop();
                    wrongs.push(dropped);
                    let mut extra = digits.clone();
                    extra.push(0);
                    wrongs.push(extra);
                    if coords.len() >= 2 {
                        let mut sw: Vec<u8> = vec![];
                        let mut order: Vec<usize> = (0..coords.len()).collect();
                        order.swap(0, 1);
                        for r in order {
                            let (x, y) = coords[r];
                            sw.extend(printed_or_empty(&card, y as usize * w as usize + x as usize));
                        }
                        if sw != digits {
                            wrongs.push(sw);
                        }
                    }
                    for wd in wrongs {
                        let mut c = MatrixCardVerifier::new(count, h, sd, w, key);
                        for &dg in &wd {
                            c.enter_value(dg);
                        }
                        let p = c.into_proof();
                        reject_cases.fetch_add(1, Ordering::Relaxed);
                        if let Ok(true) = catch(|| verify_matrix_card_hash(&card, count, sd, key, &p)) {
                            viol(&report, "server-accepts-wrong-digits", json!({"w": w, "h": h, "digits": d, "count": count, "seed": sd, "entered": wd, "printed": digits}), "a digit sequence different from the printed one is accepted".into());
                            return;
                        }
                    }
                }
            }
        }
    });

    // MatrixCard::new under the RNG seam: digits stay in range, printer has w*h cells of the right width
    let mut new_cases = 0u64;
    for &(w, h) in shapes.iter().step_by(tier.pick(37, 5)) {
        for d in [1u8, 4] {
            let (r, _, _) = crate::common::with_script(&refmodel::ctr_bytes(seed, "card-new", 64), || MatrixCard::new(d, h, w));
            match r {
                Ok(card) => {
                    if card.data().len() != w as usize * h as usize * d as usize || card.data().iter().any(|x| *x > 9) || card.to_printer().count() != w as usize * h as usize {
                        viol(&report, "new-card-shape", json!({"w": w, "h": h, "digits": d}), "MatrixCard::new produced a card with wrong size or digits outside 0..=9".into());
                    }
                }
                Err(m) => viol(&report, "new-card-panic", json!({"w": w, "h": h, "digits": d}), format!("MatrixCard::new panicked: {m}")),
            }
            new_cases += 1;
        }
    }

    report.count("coordinate_lookups", coord_cases.load(Ordering::Relaxed));
    report.count("round_queries", round_cases.load(Ordering::Relaxed));
    report.count("proofs_from_printed_digits", proof_cases.load(Ordering::Relaxed));
    report.count("wrong_digit_sequences", reject_cases.load(Ordering::Relaxed));
    report.count("new_card_cases", new_cases);
    report.set("selection_rule_observation", json!({"agrees_with_game_client_scheme": selection_agrees.load(Ordering::Relaxed), "differs": selection_differs.load(Ordering::Relaxed), "note": "observation only; the property does not state the selection rule"}));
    let total = coord_cases.load(Ordering::Relaxed) + round_cases.load(Ordering::Relaxed) + proof_cases.load(Ordering::Relaxed) + reject_cases.load(Ordering::Relaxed) + new_cases;
    report.set("evaluations", json!(total));
    report.set("distinct_nontrivial", json!(coord_cases.load(Ordering::Relaxed) + proof_cases.load(Ordering::Relaxed)));
    report.set("rule", json!("all (width,height) with 1<=w*h<=255 x digit counts {1,2,3,4,8} x card contents that encode the cell index; every coordinate; every round 0..=255 for challenge counts {1,2,3,cells-1,cells} and a seed alphabet (all small seeds for cards <= 12 cells); distinct_nontrivial = distinct (card, coordinate) lookups + distinct (card, count, seed) proofs"));
    report.set("states", json!(total + 1));
    report.set("transitions", json!(total));
    report.set("traces_validated_against_impl", json!(total));
    report.sample("lookup", json!({"w": 8, "h": 10, "digits": 2, "x": 3, "y": 2, "expected": "digits of printed cell #19 = data[38..40]"}));
    report.sample("round", json!({"count": 3, "round": 3, "expected": "None (no coordinates), not a panic"}));
    report.space("all 1,457 card shapes of at most 255 cells x 5 digit counts; all coordinates; all rounds 0..=255");
    report.assume("seeds and session keys come from alphabets; digit_count 0 (a card with no digits) is not a card and is excluded");
    report.set("exhaustive", json!(false));
    report.cap_hit("all shapes, coordinates and rounds are closed; seeds, contents and keys are alphabets");
    report.finish()
}
