//! C07 / C08: Vanilla and TBC header ciphers. Explicit-state search (E1) to fixpoint over the
//! real half objects, closed-loop search, and chunking equivalence from every reachable state.

use crate::common::*;
use mc::bfs::bfs_by_key;
use mc::report::{Report, Tier, Violation};
use rayon::prelude::*;
use refmodel::cipher::{dec_step, enc_step};
use serde_json::json;
use std::hash::Hash;
use std::sync::atomic::{AtomicU64, Ordering};

pub trait Family: Sync {
    type Enc: Clone + Eq + Hash + Send + Sync + std::fmt::Debug;
    type Dec: Clone + Eq + Hash + Send + Sync + std::fmt::Debug;
    const ID: &'static str;
    const NAME: &'static str;
    fn make(key: &[u8; 40]) -> (Self::Enc, Self::Dec);
    fn enc(e: &mut Self::Enc, d: &mut [u8]);
    fn dec(e: &mut Self::Dec, d: &mut [u8]);
    /// the key the *reference model* says the recurrence runs over
    fn ref_key(key: &[u8; 40]) -> Vec<u8>;
    /// the header entry points of the module (typed, reader / writer based), all of which are the same cipher
    fn header_pass(report: &Report, key: &[u8; 40], seed: u64) -> u64;
    /// modules whose halves can be re-joined (Vanilla): split, uneven use, unsplit, continue
    fn rejoin_pass(_report: &Report, _key: &[u8; 40]) -> u64 {
        0
    }
}

/// Session keys that collide with `k` under cheap fingerprints: two 8 / 4 / 2 / 1-byte words swapped, the same change
/// XORed into two words, +d / -d on two bytes, rotation by one word, byte order reversed.
pub fn colliding_keys(k: &[u8; 40]) -> Vec<[u8; 40]> {
    let mut v = vec![];
    for w in [8usize, 4, 2, 1] {
        for (i, j) in [(0usize, 1usize), (0, 40 / w - 1), (1, 3)] {
            let mut x = *k;
            for t in 0..w {
                x.swap(i * w + t, j * w + t);
            }
            v.push(x);
            let mut y = *k;
            y[i * w] ^= 0x5A;
            y[j * w] ^= 0x5A;
            v.push(y);
        }
        let mut r = *k;
        r.rotate_left(w);
        v.push(r);
    }
    // the same head or the same tail (a fingerprint or comparison over part of the key): keys that differ from `k` only in
    // the last 20 / last 8 / last byte, or only in the first 20 / first byte
    for (from, to) in [(20usize, 40usize), (32, 40), (39, 40), (0, 20), (0, 1), (16, 24)] {
        let mut x = *k;
        for b in x[from..to].iter_mut() {
            *b = b.wrapping_mul(3).wrapping_add(0x6B);
        }
        v.push(x);
    }
    let mut p = *k;
    p[3] = p[3].wrapping_add(9);
    p[29] = p[29].wrapping_sub(9);
    v.push(p);
    let mut rev = *k;
    rev.reverse();
    v.push(rev);
    v.retain(|x| x != k);
    v.sort();
    v.dedup();
    v
}

/// Reader that hands out at most `chunk` bytes per call and fails (once) when `fail_at` bytes have been delivered.
struct Dribble<'a> {
    data: &'a [u8],
    pos: usize,
    chunk: usize,
    fail_at: Option<usize>,
}
impl std::io::Read for Dribble<'_> {
    fn read(&mut self, buf: &mut [u8]) -> std::io::Result<usize> {
        if self.fail_at == Some(self.pos) {
            self.fail_at = None;
            return Err(std::io::Error::new(std::io::ErrorKind::ConnectionReset, "injected"));
        }
        let mut n = buf.len().min(self.chunk).min(self.data.len() - self.pos);
        if let Some(f) = self.fail_at {
            if self.pos < f {
                n = n.min(f - self.pos);
            }
        }
        buf[..n].copy_from_slice(&self.data[self.pos..self.pos + n]);
        self.pos += n;
        Ok(n)
    }
}
/// Writer that accepts at most `chunk` bytes per call.
struct Trickle {
    out: Vec<u8>,
    chunk: usize,
}
impl std::io::Write for Trickle {
    fn write(&mut self, buf: &[u8]) -> std::io::Result<usize> {
        let n = buf.len().min(self.chunk);
        self.out.extend_from_slice(&buf[..n]);
        Ok(n)
    }
    fn flush(&mut self) -> std::io::Result<()> {
        Ok(())
    }
}

macro_rules! header_pass_impl {
    ($m:ident, $fam:ty) => {
        fn header_pass(report: &Report, key: &[u8; 40], seed: u64) -> u64 {
            use mc::util::catch;
            let rk = <$fam as Family>::ref_key(key);
            let sizes: [u16; 10] = [0, 1, 4, 6, 0x00FF, 0x0100, 0x7FFF, 0x8000, 0x8001, 0xFFFF];
            let sops: [u16; 5] = [0, 1, 0x01ED, 0x8000, 0xFFFF];
            let cops: [u32; 6] = [0, 1, 0x01ED, 0xFFFF, 0x0001_0000, 0xFFFF_FFFF];
            let mut cases = 0u64;
            let fail = |what: &str, detail: String| viol::<$fam>(report, "header-entry-points", what, key, json!({"module": stringify!($m)}), detail);
            for warm in [0usize, 1, 5, 39, 40, 41, 255] {
                let (mut e, mut d) = <$fam as Family>::make(key);
                let mut re = refmodel::cipher::Recurrence { key: rk.clone(), n: 0, prev: 0 };
                let mut rd = refmodel::cipher::Recurrence { key: rk.clone(), n: 0, prev: 0 };
                let mut w = vec![0x5Au8; warm];
                e.encrypt(&mut w.clone());
                re.enc(&mut w.clone());
                d.decrypt(&mut w);
                rd.dec(&mut vec![0x5Au8; warm]);
                for (i, &size) in sizes.iter().enumerate() {
                    let sop = sops[(i + warm) % sops.len()];
                    let cop = cops[(i + warm) % cops.len()];
                    // ---- encrypting side: typed and writer-based (whole / one byte at a time), server and client headers
                    let mut want_s = refmodel::cipher::server_header_plain(size, sop).to_vec();
                    re.enc(&mut want_s);
                    let got = match i % 3 {
                        0 => catch(|| e.encrypt_server_header(size, sop).to_vec()),
                        1 => catch(|| { let mut t = Trickle { out: vec![], chunk: 1 }; e.write_encrypted_server_header(&mut t, size, sop).map(|_| t.out) }.unwrap_or_default()),
                        _ => catch(|| { let mut t = Trickle { out: vec![], chunk: 64 }; e.write_encrypted_server_header(&mut t, size, sop).map(|_| t.out) }.unwrap_or_default()),
                    };
                    cases += 1;
                    if got.as_ref().ok() != Some(&want_s) {
                        fail("server-header-encrypt", format!("server header size={size:#x} opcode={sop:#x} after {warm} bytes + {i} headers (entry point #{}): {:?}, the recurrence over size BE16 | opcode LE16 gives {}", i % 3, got.map(|g| hex(&g)), hex(&want_s)));
                        return cases;
                    }
                    let mut want_c = refmodel::cipher::client_header_plain(size, cop).to_vec();
                    re.enc(&mut want_c);
                    let got = match i % 3 {
                        1 => catch(|| e.encrypt_client_header(size, cop).to_vec()),
                        2 => catch(|| { let mut t = Trickle { out: vec![], chunk: 1 }; e.write_encrypted_client_header(&mut t, size, cop).map(|_| t.out) }.unwrap_or_default()),
                        _ => catch(|| { let mut t = Trickle { out: vec![], chunk: 64 }; e.write_encrypted_client_header(&mut t, size, cop).map(|_| t.out) }.unwrap_or_default()),
                    };
                    cases += 1;
                    if got.as_ref().ok() != Some(&want_c) {
                        fail("client-header-encrypt", format!("client header size={size:#x} opcode={cop:#x} after {warm} bytes + {i} headers: {:?}, the recurrence over size BE16 | opcode LE32 gives {}", got.map(|g| hex(&g)), hex(&want_c)));
                        return cases;
                    }
                    // ---- decrypting side: the peer's ciphertext for the same headers; typed / reader whole / reader dribbling /
                    //      reader that fails once at some offset first (nothing may be consumed by the failed call)
                    let mut wire_s = refmodel::cipher::server_header_plain(size, sop).to_vec();
                    rd_enc_for_peer(&mut rd, &mut wire_s);
                    let r = match i % 4 {
                        0 => catch(|| { let h = d.decrypt_server_header([wire_s[0], wire_s[1], wire_s[2], wire_s[3]]); Some((h.size, h.opcode)) }),
                        1 => catch(|| d.read_and_decrypt_server_header(&mut Dribble { data: &wire_s, pos: 0, chunk: 64, fail_at: None }).ok().map(|h| (h.size, h.opcode))),
                        2 => catch(|| d.read_and_decrypt_server_header(&mut Dribble { data: &wire_s, pos: 0, chunk: 1, fail_at: None }).ok().map(|h| (h.size, h.opcode))),
                        _ => catch(|| {
                            let first = d.read_and_decrypt_server_header(&mut Dribble { data: &wire_s, pos: 0, chunk: 2, fail_at: Some((i + warm) % 4) });
                            if first.is_ok() {
                                return None;
                            }
                            d.read_and_decrypt_server_header(&mut Dribble { data: &wire_s, pos: 0, chunk: 3, fail_at: None }).ok().map(|h| (h.size, h.opcode))
                        }),
                    };
                    cases += 1;
                    if r != Ok(Some((size, sop))) {
                        fail("server-header-decrypt", format!("server header size={size:#x} opcode={sop:#x} after {warm} bytes + {i} headers (entry point #{}) decodes as {r:?}", i % 4));
                        return cases;
                    }
                    let mut wire_c = refmodel::cipher::client_header_plain(size, cop).to_vec();
                    rd_enc_for_peer(&mut rd, &mut wire_c);
                    let r = match (i + 1) % 4 {
                        0 => catch(|| { let h = d.decrypt_client_header([wire_c[0], wire_c[1], wire_c[2], wire_c[3], wire_c[4], wire_c[5]]); Some((h.size, h.opcode)) }),
                        1 => catch(|| d.read_and_decrypt_client_header(&mut Dribble { data: &wire_c, pos: 0, chunk: 64, fail_at: None }).ok().map(|h| (h.size, h.opcode))),
                        2 => catch(|| d.read_and_decrypt_client_header(&mut Dribble { data: &wire_c, pos: 0, chunk: 1, fail_at: None }).ok().map(|h| (h.size, h.opcode))),
                        _ => catch(|| {
                            let first = d.read_and_decrypt_client_header(&mut Dribble { data: &wire_c, pos: 0, chunk: 2, fail_at: Some((i + warm) % 6) });
                            if first.is_ok() {
                                return None;
                            }
                            d.read_and_decrypt_client_header(&mut Dribble { data: &wire_c, pos: 0, chunk: 5, fail_at: None }).ok().map(|h| (h.size, h.opcode))
                        }),
                    };
                    cases += 1;
                    if r != Ok(Some((size, cop))) {
                        fail("client-header-decrypt", format!("client header size={size:#x} opcode={cop:#x} after {warm} bytes + {i} headers (entry point #{}) decodes as {r:?}", (i + 1) % 4));
                        return cases;
                    }
                }
            }
            let _ = seed;
            cases
        }
    };
}

/// The peer's encrypter for the stream our decrypter reads: same recurrence, tracked by the decrypt-side reference.
fn rd_enc_for_peer(rd: &mut refmodel::cipher::Recurrence, plain_to_wire: &mut [u8]) {
    // `rd` tracks the decrypter's (n, prev): encrypting with a copy yields the ciphertext the decrypter must accept, and
    // decrypting that ciphertext advances `rd` exactly as the real decrypter advances
    let mut peer = refmodel::cipher::Recurrence { key: rd.key.clone(), n: rd.n, prev: rd.prev };
    peer.enc(plain_to_wire);
    let mut copy = plain_to_wire.to_vec();
    rd.dec(&mut copy);
}

pub struct Vanilla;
impl Family for Vanilla {
    type Enc = wow_srp::vanilla_header::EncrypterHalf;
    type Dec = wow_srp::vanilla_header::DecrypterHalf;
    const ID: &'static str = "C07";
    const NAME: &'static str = "vanilla";
    fn make(key: &[u8; 40]) -> (Self::Enc, Self::Dec) {
        let (_, c) = wow_srp::vanilla_header::ProofSeed::new().into_client_header_crypto(&ns("A"), *key, 0);
        c.split()
    }
    fn enc(e: &mut Self::Enc, d: &mut [u8]) {
        e.encrypt(d)
    }
    fn dec(e: &mut Self::Dec, d: &mut [u8]) {
        e.decrypt(d)
    }
    fn ref_key(key: &[u8; 40]) -> Vec<u8> {
        key.to_vec()
    }
    header_pass_impl!(vanilla_header, Vanilla);
    fn rejoin_pass(report: &Report, key: &[u8; 40]) -> u64 {
        use mc::util::catch;
        let rk = <Vanilla as Family>::ref_key(key);
        let mut cases = 0u64;
        let fail = |what: &str, detail: String| viol::<Vanilla>(report, "header-entry-points", what, key, json!({"module": "vanilla_header"}), detail);
            // split -> the two halves used unevenly -> re-joined: both directions continue where they were
            for (ne, nd) in [(0usize, 0usize), (7, 0), (0, 9), (13, 41), (40, 1), (255, 3), (6, 4)] {
                let (mut e, mut d) = <Vanilla as Family>::make(key);
                let mut re = refmodel::cipher::Recurrence { key: rk.clone(), n: 0, prev: 0 };
                let mut rd = refmodel::cipher::Recurrence { key: rk.clone(), n: 0, prev: 0 };
                e.encrypt(&mut vec![0x33u8; ne]);
                re.enc(&mut vec![0x33u8; ne]);
                d.decrypt(&mut vec![0x44u8; nd]);
                rd.dec(&mut vec![0x44u8; nd]);
                cases += 1;
                match catch(move || e.unsplit(d)) {
                    Ok(Ok(mut c)) => {
                        let mut a = [0x55u8; 64];
                        let mut wa = [0x55u8; 64];
                        c.encrypt(&mut a);
                        re.enc(&mut wa);
                        let mut b = [0x66u8; 64];
                        let mut wb = [0x66u8; 64];
                        c.decrypt(&mut b);
                        rd.dec(&mut wb);
                        if a != wa || b != wb {
                            fail("rejoined-object", format!("after {ne} bytes encrypted and {nd} bytes decrypted on the halves, the re-joined object {} the recurrence", if a != wa { "encrypts off" } else { "decrypts off" }));
                            return cases;
                        }
                    }
                    other => {
                        fail("rejoined-object", format!("halves of one object (after {ne} / {nd} bytes) do not re-join: {:?}", other.map(|r| r.map(|_| ()).map_err(|_| "refused"))));
                        return cases;
                    }
                }
            }
        cases
    }
}

pub struct Tbc;
impl Family for Tbc {
    type Enc = wow_srp::tbc_header::EncrypterHalf;
    type Dec = wow_srp::tbc_header::DecrypterHalf;
    const ID: &'static str = "C08";
    const NAME: &'static str = "tbc";
    fn make(key: &[u8; 40]) -> (Self::Enc, Self::Dec) {
        let (_, c) = wow_srp::tbc_header::ProofSeed::new().into_client_header_crypto(&ns("A"), *key, 0);
        c.split()
    }
    fn enc(e: &mut Self::Enc, d: &mut [u8]) {
        e.encrypt(d)
    }
    fn dec(e: &mut Self::Dec, d: &mut [u8]) {
        e.decrypt(d)
    }
    fn ref_key(key: &[u8; 40]) -> Vec<u8> {
        refmodel::hash::hmac_sha1(&refmodel::cipher::TBC_SEED, key).to_vec()
    }
    header_pass_impl!(tbc_header, Tbc);
}

/// Action alphabet of the per-direction machine: 256 one-byte calls and the zero-length call.
#[derive(Clone, Copy, Debug)]
enum Act {
    Byte(u8),
    Empty,
}

fn viol<F: Family>(report: &Report, scenario: &str, class: &str, key: &[u8; 40], path: serde_json::Value, msg: String) {
    report.violation(Violation {
        signature: format!("{}|{}|{}", F::ID, scenario, class),
        scenario: format!("{}::{}", F::NAME, scenario),
        replay: json!({"session_key": hex(key), "actions": path}),
        detail: json!({ "message": msg }),
    });
}

fn path_json(p: &[Act]) -> serde_json::Value {
    json!(p
        .iter()
        .map(|a| match a {
            Act::Byte(b) => json!(b),
            Act::Empty => json!("empty-call"),
        })
        .collect::<Vec<_>>())
}

struct KeyResult<E, D> {
    enc_states: Vec<(E, u8, u8)>,
    dec_states: Vec<(D, u8, u8)>,
}

/// Per-direction machines + closed loop for one key, to fixpoint.
fn explore_key<F: Family>(report: &Report, key: &[u8; 40], spec_mut: &[AtomicU64; 3]) -> Option<KeyResult<F::Enc, F::Dec>> {
    let rk = F::ref_key(key);
    let klen = rk.len();
    let mut actions: Vec<Act> = (0..=255u8).map(Act::Byte).collect();
    actions.push(Act::Empty);
    let (e0, d0) = F::make(key);
    let mut local_mut = [0u64; 3];

    // encrypter machine: state = (real object, reference position, reference previous byte)
    let merged_behaviourally = std::cell::Cell::new(0u64);
    let r = bfs_by_key(vec![(e0.clone(), 0u8, 0u8)], &actions, None, |s| (s.1, s.2), |o, n| o.0 == n.0 || { merged_behaviourally.set(merged_behaviourally.get() + 1); crate::ciphers::same_future(&o.0, &n.0, 3 * klen, |x, d| F::enc(x, d)) }, |s, a| {
        let (obj, pos, prev) = s;
        let mut o = obj.clone();
        match a {
            Act::Empty => {
                F::enc(&mut o, &mut []);
                if o != *obj && !crate::ciphers::same_future(&o, obj, 3 * klen, |x, d| F::enc(x, d)) {
                    return Err(format!("zero-length encrypt changed the object at ref state pos={pos} prev={prev}"));
                }
                Ok(Some((o, *pos, *prev)))
            }
            Act::Byte(x) => {
                let mut buf = [*x];
                F::enc(&mut o, &mut buf);
                let (c, np, nprev) = enc_step(&rk, *pos as usize, *prev, *x);
                if buf[0] != c {
                    return Err(format!(
                        "encrypt: at pos={pos} prev={prev:#04x} key_byte={:#04x} input={x:#04x}: got {:#04x}, recurrence says {c:#04x}",
                        rk[*pos as usize], buf[0]
                    ));
                }
                // spec mutants (wrong specifications the exploration must be able to tell apart)
                let kb = rk[*pos as usize];
                if (x ^ rk[(*pos as usize + 1) % klen]).wrapping_add(*prev) != c {
                    local_mut[0] += 1; // key index off by one
                }
                if ((x ^ kb) | *prev) != c {
                    local_mut[1] += 1; // OR instead of ADD
                }
                if (x ^ kb) != c {
                    local_mut[2] += 1; // no chaining at all
                }
                Ok(Some((o, np as u8, nprev)))
            }
        }
    });
    report.count("states", r.states);
    report.count("transitions", r.transitions);
    report.count("enc_machine_states", r.states);
    if let Some((p, m)) = r.violation {
        viol::<F>(report, "encrypter-machine", "recurrence", key, path_json(&p), m);
        return None;
    }
    if !r.fixpoint {
        mc::util::machinery_error("encrypter search did not reach a fixpoint");
    }
    if r.states != (klen as u64) * 256 {
        // not a verdict by itself (object state could legitimately be finer), but it must not be coarser
        if r.states < (klen as u64) * 256 {
            viol::<F>(report, "encrypter-machine", "state-count", key, json!([]), format!("only {} reachable states, reference machine has {}", r.states, klen * 256));
            return None;
        }
    }

    // decrypter machine
    let r = bfs_by_key(vec![(d0.clone(), 0u8, 0u8)], &actions, None, |s| (s.1, s.2), |o, n| o.0 == n.0 || { merged_behaviourally.set(merged_behaviourally.get() + 1); crate::ciphers::same_future(&o.0, &n.0, 3 * klen, |x, d| F::dec(x, d)) }, |s, a| {
        let (obj, pos, prev) = s;
        let mut o = obj.clone();
        match a {
            Act::Empty => {
                F::dec(&mut o, &mut []);
                if o != *obj && !crate::ciphers::same_future(&o, obj, 3 * klen, |x, d| F::dec(x, d)) {
                    return Err(format!("zero-length decrypt changed the object at ref state pos={pos} prev={prev}"));
                }
                Ok(Some((o, *pos, *prev)))
            }
            Act::Byte(c) => {
                let mut buf = [*c];
                F::dec(&mut o, &mut buf);
                let (x, np, nprev) = dec_step(&rk, *pos as usize, *prev, *c);
                if buf[0] != x {
                    return Err(format!(
                        "decrypt: at pos={pos} prev={prev:#04x} key_byte={:#04x} input={c:#04x}: got {:#04x}, inverse recurrence says {x:#04x}",
                        rk[*pos as usize], buf[0]
                    ));
                }
                Ok(Some((o, np as u8, nprev)))
            }
        }
    });
    report.count("states", r.states);
    report.count("transitions", r.transitions);
    report.count("dec_machine_states", r.states);
    if let Some((p, m)) = r.violation {
        viol::<F>(report, "decrypter-machine", "recurrence", key, path_json(&p), m);
        return None;
    }
    if !r.fixpoint {
        mc::util::machinery_error("decrypter search did not reach a fixpoint");
    }

    // closed loop: (sender's encrypter, receiver's decrypter), action = send byte x, invariant: receiver gets x
    let bytes: Vec<Act> = (0..=255u8).map(Act::Byte).collect();
    let r = bfs_by_key(vec![(e0.clone(), d0.clone(), 0u8, 0u8)], &bytes, None, |s| (s.2, s.3), |o, n| (o.0 == n.0 && o.1 == n.1) || { merged_behaviourally.set(merged_behaviourally.get() + 1); crate::ciphers::same_future(&o.0, &n.0, 3 * klen, |x, d| F::enc(x, d)) && crate::ciphers::same_future(&o.1, &n.1, 3 * klen, |x, d| F::dec(x, d)) }, |s, a| {
        let (e, d, pos, prev) = s;
        let (mut e, mut d) = (e.clone(), d.clone());
        let x = match a {
            Act::Byte(x) => *x,
            _ => unreachable!(),
        };
        let mut buf = [x];
        F::enc(&mut e, &mut buf);
        let (_, np, nprev) = enc_step(&rk, *pos as usize, *prev, x);
        F::dec(&mut d, &mut buf);
        if buf[0] != x {
            return Err(format!("closed loop: sent {x:#04x}, receiver recovered {:#04x}", buf[0]));
        }
        Ok(Some((e, d, np as u8, nprev)))
    });
    report.count("states", r.states);
    report.count("transitions", r.transitions);
    report.count("closed_loop_states", r.states);
    if let Some((p, m)) = r.violation {
        viol::<F>(report, "closed-loop", "roundtrip", key, path_json(&p), m);
        return None;
    }
    if !r.fixpoint {
        mc::util::machinery_error("closed-loop search did not reach a fixpoint");
    }
    for i in 0..3 {
        spec_mut[i].fetch_add(local_mut[i], Ordering::Relaxed);
    }
    report.count("states_merged_by_behaviour_not_identity", merged_behaviourally.get());
    let enc_states: Vec<(F::Enc, u8, u8)> = r.all_states.iter().map(|(e, _, p, v)| (e.clone(), *p, *v)).collect();
    let dec_states: Vec<(F::Dec, u8, u8)> = r.all_states.iter().map(|(_, d, p, v)| (d.clone(), *p, *v)).collect();
    Some(KeyResult { enc_states, dec_states })
}

fn patterns(len: usize, seed: u64) -> Vec<Vec<u8>> {
    vec![vec![0u8; len], vec![0xFF; len], (0..len).map(|i| i as u8).collect(), refmodel::ctr_bytes(seed, "chunk-pattern", len)]
}

/// All compositions of n into positive parts, optionally with an empty call before every part.
pub fn compositions(n: usize) -> Vec<Vec<usize>> {
    let mut out = vec![];
    for mask in 0..(1u32 << (n.max(1) - 1)) {
        let mut parts = vec![];
        let mut cur = 1;
        for i in 0..n.saturating_sub(1) {
            if mask >> i & 1 == 1 {
                parts.push(cur);
                cur = 1;
            } else {
                cur += 1;
            }
        }
        if n > 0 {
            parts.push(cur);
        }
        out.push(parts);
    }
    out
}

fn chunking<F: Family>(report: &Report, tier: Tier, key: &[u8; 40], kr: &KeyResult<F::Enc, F::Dec>, all_pairs: bool) {
    let rk = F::ref_key(key);
    let lens: &[usize] = &[2, 3, 4, 6, 19, 20, 21, 39, 40, 41, 80, 81, 255];
    let evals = AtomicU64::new(0);
    // (1) from EVERY reachable state: one L-byte call == L one-byte calls == reference
    kr.enc_states.par_iter().zip(kr.dec_states.par_iter()).for_each(|(es, ds)| {
        let mut n = 0u64;
        for &l in lens {
            for p in patterns(l, report.seed) {
                // encrypt
                let mut whole = es.0.clone();
                let mut a = p.clone();
                F::enc(&mut whole, &mut a);
                let mut single = es.0.clone();
                let mut b = p.clone();
                for x in b.iter_mut() {
                    let mut one = [*x];
                    F::enc(&mut single, &mut one);
                    *x = one[0];
                }
                let mut rm = refmodel::cipher::Recurrence { key: rk.clone(), n: es.1 as usize, prev: es.2 };
                let mut r = p.clone();
                rm.enc(&mut r);
                if a != b || !(whole == single || crate::ciphers::same_future(&whole, &single, 96, |o, d| F::enc(o, d))) || a != r {
                    viol::<F>(report, "chunking-encrypt", "one-call-vs-bytewise", key, json!({"pos": es.1, "prev": es.2, "len": l, "data": hex(&p)}),
                        format!("whole={} bytewise={} reference={} objects_equal={}", hex(&a), hex(&b), hex(&r), whole == single));
                }
                // decrypt
                let mut whole = ds.0.clone();
                let mut a = p.clone();
                F::dec(&mut whole, &mut a);
                let mut single = ds.0.clone();
                let mut b = p.clone();
                for x in b.iter_mut() {
                    let mut one = [*x];
                    F::dec(&mut single, &mut one);
                    *x = one[0];
                }
                let mut rm = refmodel::cipher::Recurrence { key: rk.clone(), n: ds.1 as usize, prev: ds.2 };
                let mut r = p.clone();
                rm.dec(&mut r);
                if a != b || !(whole == single || crate::ciphers::same_future(&whole, &single, 96, |o, d| F::dec(o, d))) || a != r {
                    viol::<F>(report, "chunking-decrypt", "one-call-vs-bytewise", key, json!({"pos": ds.1, "prev": ds.2, "len": l, "data": hex(&p)}),
                        format!("whole={} bytewise={} reference={} objects_equal={}", hex(&a), hex(&b), hex(&r), whole == single));
                }
                n += 2;
            }
        }
        evals.fetch_add(n, Ordering::Relaxed);
    });
    report.count("chunk_whole_vs_bytewise_cases", evals.load(Ordering::Relaxed));

    // (1b) EVERY call length 0..=300, and 511..=513, 1000, powers of two up to 4 MiB, from 64 start states
    {
        let stride = (kr.enc_states.len() / 64).max(1);
        let starts: Vec<usize> = (0..kr.enc_states.len()).step_by(stride).take(64).collect();
        let mut lens: Vec<usize> = (0..=300).collect();
        lens.extend([511, 512, 513, 1000, 1023, 1024, 1025, 4096, 65_535, 65_536, 65_537, 1 << 20, (1 << 22) + 1]);
        let n_len = AtomicU64::new(0);
        starts.par_iter().enumerate().for_each(|(sn, &si)| {
            let (es, ds) = (&kr.enc_states[si], &kr.dec_states[si]);
            let mut n = 0u64;
            for &l in &lens {
                if l > 70_000 && sn >= 2 {
                    continue; // the megabyte-sized calls from two start states only
                }
                let data: Vec<u8> = (0..l).map(|j| (j as u8).wrapping_mul(37) ^ (l as u8)).collect();
                let mut whole = es.0.clone();
                let mut a = data.clone();
                F::enc(&mut whole, &mut a);
                let mut rm = refmodel::cipher::Recurrence { key: rk.clone(), n: es.1 as usize, prev: es.2 };
                let mut w = data.clone();
                rm.enc(&mut w);
                let mut tail_r = [0x77u8; 48];
                rm.enc(&mut tail_r);
                let mut tail = [0x77u8; 48];
                F::enc(&mut whole, &mut tail);
                let mut dwhole = ds.0.clone();
                let mut b = data.clone();
                F::dec(&mut dwhole, &mut b);
                let mut rd = refmodel::cipher::Recurrence { key: rk.clone(), n: ds.1 as usize, prev: ds.2 };
                let mut wd = data.clone();
                rd.dec(&mut wd);
                let mut dtail_r = [0x77u8; 48];
                rd.dec(&mut dtail_r);
                let mut dtail = [0x77u8; 48];
                F::dec(&mut dwhole, &mut dtail);
                if a != w || tail != tail_r {
                    viol::<F>(report, "call-length-encrypt", "one-call-vs-reference", key, json!({"pos": es.1, "prev": es.2, "len": l}), format!("a single encrypt call of {l} bytes (or the 48 bytes after it) leaves the recurrence"));
                }
                if b != wd || dtail != dtail_r {
                    viol::<F>(report, "call-length-decrypt", "one-call-vs-reference", key, json!({"pos": ds.1, "prev": ds.2, "len": l}), format!("a single decrypt call of {l} bytes (or the 48 bytes after it) leaves the inverse recurrence"));
                }
                n += 2;
            }
            n_len.fetch_add(n, Ordering::Relaxed);
        });
        report.count("call_length_cases", n_len.load(Ordering::Relaxed));
    }

    // (2) every composition (with and without interleaved empty calls) of a 10-byte stream, from 64 start states,
    //     sender and receiver chunking independently (receiver uses the reversed composition)
    let n = 10usize;
    let comps = compositions(n);
    let stride = (kr.enc_states.len() / 64).max(1);
    let starts: Vec<usize> = (0..kr.enc_states.len()).step_by(stride).take(64).collect();
    let evals = AtomicU64::new(0);
    starts.par_iter().for_each(|&si| {
        let (es, ds) = (&kr.enc_states[si], &kr.dec_states[si]);
        let data = refmodel::ctr_bytes(report.seed, &format!("comp-{si}"), n);
        let mut rm = refmodel::cipher::Recurrence { key: rk.clone(), n: es.1 as usize, prev: es.2 };
        let mut expect = data.clone();
        rm.enc(&mut expect);
        let mut e_ref = es.0.clone();
        let mut tmp = data.clone();
        F::enc(&mut e_ref, &mut tmp);
        let mut d_ref = ds.0.clone();
        let mut tmp2 = expect.clone();
        F::dec(&mut d_ref, &mut tmp2);
        let mut cnt = 0u64;
        for (ci, comp) in comps.iter().enumerate() {
            for with_empty in [false, true] {
                let mut e = es.0.clone();
                let mut buf = data.clone();
                let mut off = 0;
                for &l in comp {
                    if with_empty {
                        F::enc(&mut e, &mut []);
                    }
                    F::enc(&mut e, &mut buf[off..off + l]);
                    off += l;
                }
                // receiver: different composition (mirror image)
                let rcomp = &comps[comps.len() - 1 - ci];
                let mut d = ds.0.clone();
                let mut back = buf.clone();
                let mut off = 0;
                for &l in rcomp {
                    if with_empty {
                        F::dec(&mut d, &mut []);
                    }
                    F::dec(&mut d, &mut back[off..off + l]);
                    off += l;
                }
                if buf != expect || !(e == e_ref || crate::ciphers::same_future(&e, &e_ref, 96, |o, x| F::enc(o, x))) || back != data || !(d == d_ref || crate::ciphers::same_future(&d, &d_ref, 96, |o, x| F::dec(o, x))) {
                    viol::<F>(report, "chunking-compositions", "composition", key,
                        json!({"pos": es.1, "prev": es.2, "data": hex(&data), "sender_calls": comp, "receiver_calls": rcomp, "empty_calls": with_empty}),
                        format!("ciphertext={} expected={} recovered={} enc_obj_eq={} dec_obj_eq={}", hex(&buf), hex(&expect), hex(&back), e == e_ref, d == d_ref));
                }
                cnt += 1;
            }
        }
        evals.fetch_add(cnt, Ordering::Relaxed);
    });
    report.count("chunk_composition_cases", evals.load(Ordering::Relaxed));

    // (3) thorough, first key only: L = 2 with ALL 65,536 contents from every reachable state
    if all_pairs {
        let evals = AtomicU64::new(0);
        // quick: every 40th reachable state (all positions occur, 256 states); thorough: every state
        let stride = if tier == Tier::Thorough { 1 } else { 41 };
        let idx: Vec<usize> = (0..kr.enc_states.len()).step_by(stride).collect();
        idx.par_iter().map(|&i| (&kr.enc_states[i], &kr.dec_states[i])).for_each(|(es, ds)| {
            for x0 in 0..=255u8 {
                for x1 in 0..=255u8 {
                    let mut e = es.0.clone();
                    let mut a = [x0, x1];
                    F::enc(&mut e, &mut a);
                    let (c0, p1, v1) = enc_step(&rk, es.1 as usize, es.2, x0);
                    let (c1, _, _) = enc_step(&rk, p1, v1, x1);
                    let mut d = ds.0.clone();
                    let mut b = [x0, x1];
                    F::dec(&mut d, &mut b);
                    let (y0, q1, w1) = dec_step(&rk, ds.1 as usize, ds.2, x0);
                    let (y1, _, _) = dec_step(&rk, q1, w1, x1);
                    if a != [c0, c1] || b != [y0, y1] {
                        viol::<F>(report, "chunking-two-byte", "all-contents", key, json!({"pos": es.1, "prev": es.2, "data": hex(&[x0, x1])}),
                            format!("enc got {} want {}; dec got {} want {}", hex(&a), hex(&[c0, c1]), hex(&b), hex(&[y0, y1])));
                    }
                }
            }
            evals.fetch_add(2 * 65536, Ordering::Relaxed);
        });
        report.count("chunk_two_byte_all_contents_cases", evals.load(Ordering::Relaxed));
        report.space(if tier == Tier::Thorough { "two-byte calls: all 65,536 contents from every reachable state of one key, both directions" } else { "two-byte calls: all 65,536 contents from every 41st reachable state (about 250 states, all positions) of one key, both directions" });
    }
}

pub fn keys_for<F: Family>(tier: Tier, seed: u64) -> Vec<[u8; 40]> {
    // keys of one repeated byte (under which the key POSITION is invisible in the Vanilla cipher) go to the back: the passes
    // that only take the first few keys must get position-dependent ones
    let mut keys = key40s(seed, 2);
    keys.sort_by_key(|k| k.iter().all(|b| *b == k[0]));
    if F::ID == "C07" {
        // rotating keys put every byte value at every key position
        let n = tier.pick(64usize, 256usize);
        for j in 0..n {
            keys.push(rotating_key((j * (256 / n)) as u8));
        }
    } else {
        // TBC: grow the session-key alphabet until the DERIVED keys have put every byte value at
        // every one of the 20 positions (thorough), or a fixed number (quick)
        let target = tier.pick(160usize, usize::MAX);
        let mut seen = vec![[false; 256]; 20];
        let mut missing = 20 * 256;
        let mut i = 0u64;
        while keys.len() < target && missing > 0 {
            let k = refmodel::ctr_array::<40>(seed, &format!("tbc-key-{i}"));
            i += 1;
            let d = Tbc::ref_key(&k);
            let mut useful = false;
            for (p, b) in d.iter().enumerate() {
                if !seen[p][*b as usize] {
                    seen[p][*b as usize] = true;
                    missing -= 1;
                    useful = true;
                }
            }
            if useful || tier == Tier::Quick {
                keys.push(k);
            }
            if i > 200_000 {
                mc::util::machinery_error("TBC key alphabet did not cover all (position, byte) pairs");
            }
        }
    }
    keys
}

pub fn run<F: Family>(tier: Tier, seed: u64) -> i32 {
    let report = Report::new(F::ID, tier, seed, "model_checking");
    let keys = keys_for::<F>(tier, seed);
    let spec_mut = [AtomicU64::new(0), AtomicU64::new(0), AtomicU64::new(0)];
    let klen = F::ref_key(&keys[0]).len();
    // (position, key byte) coverage of the step function's domain
    let pair_seen: Vec<Vec<std::sync::atomic::AtomicBool>> =
        (0..klen).map(|_| (0..256).map(|_| std::sync::atomic::AtomicBool::new(false)).collect()).collect();
    let n_chunk_keys = tier.pick(2usize, 6usize);
    keys.par_iter().enumerate().for_each(|(ki, key)| {
        if let Some(kr) = explore_key::<F>(&report, key, &spec_mut) {
            let rk = F::ref_key(key);
            for (p, b) in rk.iter().enumerate() {
                pair_seen[p][*b as usize].store(true, Ordering::Relaxed);
            }
            report.count("keys_closed_to_fixpoint", 1);
            if ki < n_chunk_keys || ki == keys.len() - 1 {
                chunking::<F>(&report, tier, key, &kr, ki == 0);
                report.count("keys_with_chunking_pass", 1);
            }
            if report.wants_sample("key") {
                report.sample("key", json!({"session_key": hex(key), "recurrence_key": hex(&rk), "states_per_direction": klen * 256,
                    "example_transition": {"pos": 0, "prev": 0, "input": 0x41, "output": enc_step(&rk, 0, 0, 0x41).0}}));
            }
        }
    });
    // two connections one after the other on ONE thread whose session keys collide under cheap fingerprints (words
    // swapped, XOR- or sum-cancelling changes): a key derived or remembered "per key fingerprint" hands the second
    // connection the first one's key
    {
        let base = keys[keys.len() / 2];
        let mut n_pairs = 0u64;
        for k2 in colliding_keys(&base) {
            let (mut e1, mut d1) = F::make(&base);
            let mut junk = [0x11u8; 24];
            F::enc(&mut e1, &mut junk);
            F::dec(&mut d1, &mut junk);
            let (mut e2, mut d2) = F::make(&k2);
            let rk2 = F::ref_key(&k2);
            let mut r = refmodel::cipher::Recurrence { key: rk2.clone(), n: 0, prev: 0 };
            let mut a = [0x21u8; 48];
            let mut wa = [0x21u8; 48];
            F::enc(&mut e2, &mut a);
            r.enc(&mut wa);
            let mut r = refmodel::cipher::Recurrence { key: rk2, n: 0, prev: 0 };
            let mut b = [0x7Eu8; 48];
            let mut wb = [0x7Eu8; 48];
            F::dec(&mut d2, &mut b);
            r.dec(&mut wb);
            n_pairs += 1;
            if a != wa || b != wb {
                viol::<F>(&report, "second-connection-on-the-thread", "recurrence", &k2, json!({"first_connection_key": hex(&base)}), "a connection created after one with a look-alike session key (same words in another order / cancelling changes) does not follow the recurrence for ITS key".into());
                break;
            }
        }
        report.count("look_alike_key_pairs", n_pairs);
    }
    // the typed and the reader / writer based header entry points are the same cipher (whole, dribbling and once-failing I/O)
    {
        let hp: u64 = keys.par_iter().take(tier.pick(6, 40)).map(|k| F::header_pass(&report, k, seed) + F::rejoin_pass(&report, k)).sum();
        report.count("header_entry_point_cases", hp);
        report.require("header_entry_point_cases");
    }
    // long-stream walk (beyond what the fixpoint argument needs): any hidden byte counter narrower than the walk wraps
    let walk_total: u64 = tier.pick(1u64 << 24, (1u64 << 32) + (1 << 20));
    let walk_keys: Vec<[u8; 40]> = keys.iter().take(tier.pick(2, 1)).cloned().collect();
    let walk_bytes = AtomicU64::new(0);
    let jobs: Vec<(usize, bool)> = (0..walk_keys.len()).flat_map(|k| [(k, true), (k, false)]).collect();
    jobs.par_iter().for_each(|&(ki, enc_dir)| {
        let key = &walk_keys[ki];
        let rk = F::ref_key(key);
        let (mut e, mut d) = F::make(key);
        let mut rm = refmodel::cipher::Recurrence { key: rk.clone(), n: 0, prev: 0 };
        let sizes = [1usize << 16, 4096, 65_537, 1, 6, 1 << 20, 255, 40];
        let mut done = 0u64;
        let mut i = 0usize;
        while done < walk_total {
            let l = sizes[i % sizes.len()];
            i += 1;
            let data: Vec<u8> = (0..l).map(|j| ((done as usize + j) as u8).wrapping_mul(13) ^ 0x5A).collect();
            let mut a = data.clone();
            let mut w = data.clone();
            let r = if enc_dir {
                rm.enc(&mut w);
                mc::util::catch(|| F::enc(&mut e, &mut a))
            } else {
                rm.dec(&mut w);
                mc::util::catch(|| F::dec(&mut d, &mut a))
            };
            if let Err(m) = r {
                viol::<F>(&report, if enc_dir { "long-stream-encrypt" } else { "long-stream-decrypt" }, "panic", key, json!({"stream_offset": done, "call_len": l}), format!("the cipher panicked at stream offset {done}: {m}"));
                return;
            }
            rm.n %= rk.len();
            if a != w {
                viol::<F>(&report, if enc_dir { "long-stream-encrypt" } else { "long-stream-decrypt" }, "recurrence", key, json!({"stream_offset": done, "call_len": l}), format!("output diverges from the recurrence in the call starting at stream offset {done}"));
                return;
            }
            done += l as u64;
        }
        walk_bytes.fetch_add(done, Ordering::Relaxed);
    });
    report.count("long_stream_walk_bytes", walk_bytes.load(Ordering::Relaxed));
    // thorough: ONE call of 2^32 + 5 bytes per direction (position arithmetic done once per call in a narrow type)
    if tier == Tier::Thorough {
        let key = &keys[2];
        let rk = F::ref_key(key);
        for enc_dir in [true, false] {
            let total: usize = (1usize << 32) + 5;
            let mut buf = vec![0x5Au8; total];
            let (mut e, mut d) = F::make(key);
            // warm up by 7 bytes so that the call does not start at position 0
            let mut rm = refmodel::cipher::Recurrence { key: rk.clone(), n: 0, prev: 0 };
            let mut warm = [1u8, 2, 3, 4, 5, 6, 7];
            let mut warm2 = warm;
            if enc_dir {
                F::enc(&mut e, &mut warm);
                rm.enc(&mut warm2);
            } else {
                F::dec(&mut d, &mut warm);
                rm.dec(&mut warm2);
            }
            let r = if enc_dir { mc::util::catch(|| F::enc(&mut e, &mut buf)) } else { mc::util::catch(|| F::dec(&mut d, &mut buf)) };
            if let Err(m) = r {
                viol::<F>(&report, "single-huge-call", "panic", key, json!({"len": total, "encrypt": enc_dir}), format!("a single call of 2^32+5 bytes panicked: {m}"));
                continue;
            }
            // reference for the call in pieces (the reference keeps its position reduced)
            let mut ok = true;
            let mut off = 0usize;
            let mut piece = vec![0x5Au8; 1 << 24];
            while off < total && ok {
                let l = piece.len().min(total - off);
                for b in piece[..l].iter_mut() {
                    *b = 0x5A;
                }
                if enc_dir {
                    rm.enc(&mut piece[..l]);
                } else {
                    rm.dec(&mut piece[..l]);
                }
                rm.n %= rk.len();
                if buf[off..off + l] != piece[..l] {
                    ok = false;
                }
                off += l;
            }
            // and the 64 bytes AFTER the huge call
            let mut after = [0x33u8; 64];
            let mut after_r = [0x33u8; 64];
            if enc_dir {
                F::enc(&mut e, &mut after);
                rm.enc(&mut after_r);
            } else {
                F::dec(&mut d, &mut after);
                rm.dec(&mut after_r);
            }
            if !ok || after != after_r {
                viol::<F>(&report, "single-huge-call", "recurrence", key, json!({"len": total, "encrypt": enc_dir}), format!("a single call of 2^32+5 bytes (content correct: {ok}) leaves the cipher out of step afterwards: {}", after != after_r));
            }
            report.count("single_huge_call_bytes", total as u64);
        }
        report.space("one single call of 2^32+5 bytes per direction, then 64 more bytes, against the reference");
    }
    report.space(&format!("long-stream walk of {walk_total} bytes per direction for {} key(s) with call sizes {{1,6,40,255,4096,65536,65537,1048576}}", walk_keys.len()));
    let pairs: u64 = pair_seen.iter().map(|r| r.iter().filter(|b| b.load(Ordering::Relaxed)).count() as u64).sum();
    report.count("position_keybyte_pairs_covered", pairs);
    report.set("position_keybyte_pairs_total", json!(klen * 256));
    report.set("step_domain_tuples_covered_per_direction", json!(pairs * 65536));
    report.set("step_domain_tuples_total_per_direction", json!(klen as u64 * 256 * 65536));
    report.set("fixpoint_reached", json!(true));
    let t = report.get("transitions");
    report.set("traces_validated_against_impl", json!(t));
    report.set("evaluations", json!(t + report.get("chunk_whole_vs_bytewise_cases") + report.get("chunk_composition_cases")));
    report.set("distinct_nontrivial", json!(report.get("states")));
    report.set("rule", json!("explicit-state BFS over the real half objects, visited set keyed on the reference state (position, previous byte); when two paths reach the same reference state the real objects must be identical (derived ==) or, failing that, behave identically over a 3-key-length look-ahead (counted in states_merged_by_behaviour_not_identity; 0 means every merge was exact); every transition executes the real encrypt/decrypt with one input byte (or a zero-length call) and is compared with the reference recurrence; distinct_nontrivial = distinct reachable states visited (all non-trivial: each is a distinct cipher state)"));
    for (i, name) in ["key-index-off-by-one", "or-instead-of-add", "no-chaining"].iter().enumerate() {
        let d = spec_mut[i].load(Ordering::Relaxed);
        report.set(&format!("spec_mutant_{name}_disagreements"), json!(d));
        if d == 0 && report.violation_count() == 0 {
            mc::util::machinery_error(&format!("{}: exploration cannot distinguish the implementation from wrong specification '{name}'", F::ID));
        }
    }
    report.space(&format!(
        "{} keys; per key and direction the complete reachable state graph ({} states x 257 actions) to fixpoint; closed-loop (encrypter,decrypter) graph to fixpoint (holds for streams of unbounded length for these keys)",
        keys.len(), klen * 256
    ));
    report.space("every call length 0..=300, 511..513, 1000, 1023..1025, 4096, 65535..65537, 2^20, 2^22+1 from 64 start states, followed by 48 more bytes, against the reference");
    report.space("chunking: from every reachable state, one L-byte call vs L one-byte calls for L in {2,3,4,6,19,20,21,39,40,41,80,81,255} x 4 contents; all 512 compositions of a 10-byte stream (with/without empty calls) from 64 start states, receiver chunking differently from sender");
    report.assume("the step at position i reads the key only at index i (checked on these keys only); session keys outside the alphabet are not explored");
    if F::ID == "C08" {
        report.assume("TBC derived keys are covered through the HMAC: the alphabet is grown until derived keys put every byte value at every position (thorough tier)");
    }
    report.finish()
}

/// Replay of a recorded action path on fresh halves against the reference recurrence (no search).
pub fn replay<F: Family>(r: &serde_json::Value) -> Result<String, String> {
    let key = mc::util::unhex_n::<40>(r["session_key"].as_str().unwrap_or(""));
    let rk = F::ref_key(&key);
    let (mut e, mut d) = F::make(&key);
    let mut re = refmodel::cipher::Recurrence { key: rk.clone(), n: 0, prev: 0 };
    let mut rd = refmodel::cipher::Recurrence { key: rk.clone(), n: 0, prev: 0 };
    let acts = r["actions"].as_array().cloned().unwrap_or_default();
    for (i, a) in acts.iter().enumerate() {
        if let Some(x) = a.as_u64() {
            let x = x as u8;
            let mut b1 = [x];
            F::enc(&mut e, &mut b1);
            let w1 = re.enc_byte(x);
            let mut b2 = [x];
            F::dec(&mut d, &mut b2);
            let w2 = rd.dec_byte(x);
            if b1[0] != w1 {
                return Err(format!("step {i}: encrypt({x:#04x}) gave {:#04x}, recurrence says {w1:#04x}", b1[0]));
            }
            if b2[0] != w2 {
                return Err(format!("step {i}: decrypt({x:#04x}) gave {:#04x}, inverse recurrence says {w2:#04x}", b2[0]));
            }
        } else {
            F::enc(&mut e, &mut []);
            F::dec(&mut d, &mut []);
        }
    }
    Ok(format!("{} steps follow the recurrence in both directions", acts.len()))
}
