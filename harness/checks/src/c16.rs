//! C16: PIN hashes follow the keypad-remap scheme; verification is exact. E3 sweeps, public API only.

use crate::common::hex;
use mc::report::{Report, Tier, Violation};
use mc::util::catch;
use rayon::prelude::*;
use refmodel::misc::{pin_hash, pin_layout};
use serde_json::json;
use std::sync::atomic::{AtomicU64, Ordering};
use wow_srp::pin::{calculate_hash, verify_client_pin_hash};

const FACT10: u32 = 3_628_800;

fn viol(report: &Report, class: &str, pin: u32, seed: u32, ss: &[u8; 16], cs: &[u8; 16], msg: String) {
    report.violation(Violation {
        signature: format!("C16|{class}"),
        scenario: "pin".into(),
        replay: json!({"pin": pin, "grid_seed": seed, "server_salt": hex(ss), "client_salt": hex(cs)}),
        detail: json!({ "message": msg }),
    });
}

/// One verification decision against the reference (also the per-case replayer of verify violations).
pub fn check_verify(report: &Report, p: u32, s: u32, ss: &[u8; 16], cs: &[u8; 16], pr: &[u8; 20]) -> Option<bool> {
    let want = pin_hash(p, s, ss, cs) == Some(*pr);
    match catch(|| verify_client_pin_hash(p, s, ss, cs, pr)) {
        Ok(got) => {
            if got != want {
                report.violation(Violation {
                    signature: format!("C16|{}", if got { "verify-accepts-wrong-hash" } else { "verify-rejects-right-hash" }),
                    scenario: "pin-verify".into(),
                    replay: json!({"pin": p, "grid_seed": s, "server_salt": hex(ss), "client_salt": hex(cs), "presented": hex(pr)}),
                    detail: json!({ "message": format!("presented {} -> {got}, expected {want}", hex(pr)) }),
                });
            }
            Some(got)
        }
        Err(m) => {
            viol(report, "panic", p, s, ss, cs, format!("verify_client_pin_hash panicked: {m}"));
            None
        }
    }
}

pub fn check_hash(report: &Report, pin: u32, seed: u32, ss: &[u8; 16], cs: &[u8; 16]) -> bool {
    let want = pin_hash(pin, seed, ss, cs);
    match catch(|| calculate_hash(pin, seed, ss, cs)) {
        Ok(got) => {
            if got != want {
                let class = match (&got, &want) {
                    (Some(_), None) => "hash-for-invalid-pin",
                    (None, Some(_)) => "no-hash-for-valid-pin",
                    _ => "wrong-hash",
                };
                viol(report, class, pin, seed, ss, cs, format!("calculate_hash = {:?}, scheme gives {:?}", got.map(|h| hex(&h)), want.map(|h| hex(&h))));
                return false;
            }
            true
        }
        Err(m) => {
            viol(report, "panic", pin, seed, ss, cs, format!("calculate_hash panicked: {m}"));
            false
        }
    }
}

pub fn run(tier: Tier, seed0: u64) -> i32 {
    let report = Report::new("C16", tier, seed0, "model_checking");
    let ss: [u8; 16] = refmodel::ctr_array::<16>(seed0, "pin-ss");
    let cs: [u8; 16] = refmodel::ctr_array::<16>(seed0, "pin-cs");

    // (0) the reference layout is a permutation for every residue (sanity of the yardstick, cheap)
    // (1) all 10! residues with the 10-distinct-digit PIN 1023456789: the hash pins the entire layout
    let evals = AtomicU64::new(0);
    let table: Vec<[u8; 20]> = (0..FACT10)
        .into_par_iter()
        .map(|s| {
            let l = pin_layout(s);
            let mut seen = [false; 10];
            for d in l {
                seen[d as usize] = true;
            }
            if seen.iter().any(|x| !x) {
                mc::util::machinery_error("reference layout is not a permutation");
            }
            pin_hash(1023456789, s, &ss, &cs).unwrap()
        })
        .collect();
    (0..FACT10).into_par_iter().for_each(|s| {
        match catch(|| calculate_hash(1023456789, s, &ss, &cs)) {
            Ok(Some(h)) => {
                if h != table[s as usize] {
                    viol(&report, "wrong-layout", 1023456789, s, &ss, &cs, format!("hash {} differs from the factorial-base layout's hash {}", hex(&h), hex(&table[s as usize])));
                }
            }
            Ok(None) => viol(&report, "no-hash-for-valid-pin", 1023456789, s, &ss, &cs, "no hash for a 10-digit PIN".into()),
            Err(m) => viol(&report, "panic", 1023456789, s, &ss, &cs, format!("panicked: {m}")),
        }
    });
    evals.fetch_add(FACT10 as u64, Ordering::Relaxed);
    report.count("residues_closed", FACT10 as u64);
    report.space("all 3,628,800 grid-seed residues modulo 10! with a 10-distinct-digit PIN (the hash reveals the whole layout)");

    // (2) seed == seed mod 10!: boundary seeds (quick), all 2^32 seeds (thorough) against the residue table
    let seed_cases = AtomicU64::new(0);
    if tier == Tier::Thorough {
        (0..(1u64 << 32) / (1 << 20)).into_par_iter().for_each(|blk| {
            let lo = blk << 20;
            for s in lo..lo + (1 << 20) {
                let s = s as u32;
                let got = calculate_hash(1023456789, s, &ss, &cs);
                if got != Some(table[(s % FACT10) as usize]) {
                    viol(&report, "seed-not-reduced-mod-10-factorial", 1023456789, s, &ss, &cs, format!("hash for seed {s} differs from the hash for residue {}", s % FACT10));
                    return;
                }
            }
            seed_cases.fetch_add(1 << 20, Ordering::Relaxed);
        });
        report.space("all 2^32 grid seeds on one PIN against the residue table");
    } else {
        let mut seeds: Vec<u32> = vec![FACT10 - 1, FACT10, FACT10 + 1, 2 * FACT10 - 1, 2 * FACT10, 1 << 31, u32::MAX, u32::MAX - 1, 1183 * FACT10, 1183 * FACT10 + 495];
        for k in 0..32 {
            seeds.push(1u32 << k);
            seeds.push((1u32 << k).wrapping_sub(1));
        }
        for i in 0..200_000u32 {
            seeds.push(i.wrapping_mul(2_654_435_761).wrapping_add(12345));
        }
        seeds.par_iter().for_each(|&s| {
            let got = calculate_hash(1023456789, s, &ss, &cs);
            if got != Some(table[(s % FACT10) as usize]) {
                viol(&report, "seed-not-reduced-mod-10-factorial", 1023456789, s, &ss, &cs, format!("hash for seed {s} differs from the hash for residue {}", s % FACT10));
            }
        });
        seed_cases.fetch_add(seeds.len() as u64, Ordering::Relaxed);
        report.space("boundary seeds around multiples of 10!, all powers of two +-1, 200,000 strided seeds (quick)");
    }
    report.count("seed_cases", seed_cases.load(Ordering::Relaxed));

    // (3) PINs
    let mut pins: Vec<u32> = (0..=tier.pick(200_000u32, 1_000_000u32)).collect();
    let mut p10 = 1u64;
    for _ in 0..10 {
        for d in -64i64..=64 {
            let v = p10 as i64 + d;
            if v >= 0 && v <= u32::MAX as i64 {
                pins.push(v as u32);
            }
        }
        p10 *= 10;
    }
    for d in 0..=64u32 {
        pins.push(u32::MAX - d);
    }
    // every digit at every position for lengths 4..=10
    for len in 4..=10u32 {
        for pos in 0..len {
            for digit in 0..=9u64 {
                let mut v: u64 = 0;
                for i in 0..len {
                    let dd = if i == pos { digit } else { 1 + (i as u64 % 9) };
                    v = v * 10 + dd;
                }
                if v <= u32::MAX as u64 {
                    pins.push(v as u32);
                }
            }
        }
    }
    pins.sort();
    pins.dedup();
    let pin_seeds: Vec<u32> = vec![0, 1, 12345, FACT10 - 1, 0xDEADBEEF];
    let n_none = AtomicU64::new(0);
    let n_some = AtomicU64::new(0);
    pins.par_iter().for_each(|&p| {
        for &s in &pin_seeds {
            if check_hash(&report, p, s, &ss, &cs) {
                if p < 1000 {
                    n_none.fetch_add(1, Ordering::Relaxed);
                } else {
                    n_some.fetch_add(1, Ordering::Relaxed);
                }
            }
        }
    });
    // product: a strided subset of the PINs x 200 seeds (specific pin/seed combinations)
    let many_seeds: Vec<u32> = (0..200u32).map(|i| i.wrapping_mul(0x9E37_79B1).rotate_left(i % 32) ^ (i * 3_628_800)).collect();
    let some_pins: Vec<u32> = pins.iter().step_by((pins.len() / 3000).max(1)).cloned().collect();
    some_pins.par_iter().for_each(|&p| {
        for &s in &many_seeds {
            check_hash(&report, p, s, &ss, &cs);
        }
    });
    let mut pin_cases = (pins.len() * pin_seeds.len() + some_pins.len() * many_seeds.len()) as u64;
    if tier == Tier::Thorough {
        // all PINs below 10^8 (every 1..8 digit PIN) for one seed, plus the edges of the 9/10-digit ranges
        let ranges: Vec<(u32, u32)> = vec![(0, 100_000_000), (999_000_000, 1_001_000_000), (u32::MAX - 2_000_000, u32::MAX)];
        for (lo, hi) in ranges {
            let blocks: Vec<u32> = (lo..hi).step_by(1 << 16).collect();
            blocks.par_iter().for_each(|&b| {
                let end = (b as u64 + (1 << 16)).min(hi as u64 + u64::from(hi == u32::MAX)) as u64;
                let mut ok = 0u64;
                let mut none = 0u64;
                for p in b as u64..end {
                    let p = p as u32;
                    if !check_hash(&report, p, 0x1234_5678, &ss, &cs) {
                        return;
                    }
                    if p < 1000 {
                        none += 1
                    } else {
                        ok += 1
                    }
                }
                n_none.fetch_add(none, Ordering::Relaxed);
                n_some.fetch_add(ok, Ordering::Relaxed);
            });
            pin_cases += (hi - lo) as u64;
        }
        report.space("all PINs 0..10^8 (every PIN of up to 8 digits), 999,000,000..1,001,000,000 and the top 2,000,000 u32 values for one seed");
    }
    report.count("pin_cases", pin_cases);
    report.require("pins_without_hash");
    report.require("pins_with_hash");
    report.count("pins_without_hash", n_none.load(Ordering::Relaxed));
    report.count("pins_with_hash", n_some.load(Ordering::Relaxed));
    report.space("PINs 0..=20000, +-64 around every power of ten and u32::MAX, every digit at every position for lengths 4..10, x 5 seeds");

    // (4) salts: every byte lane of both salts matters and matches the reference
    let mut salt_cases = 0u64;
    for lane in 0..16 {
        for v in [0x01u8, 0x80, 0xFF] {
            let mut s2 = ss;
            s2[lane] ^= v;
            let mut c2 = cs;
            c2[lane] ^= v;
            check_hash(&report, 123456, 777, &s2, &cs);
            check_hash(&report, 123456, 777, &ss, &c2);
            if calculate_hash(123456, 777, &s2, &cs) == calculate_hash(123456, 777, &ss, &cs) || calculate_hash(123456, 777, &ss, &c2) == calculate_hash(123456, 777, &ss, &cs) {
                viol(&report, "salt-byte-ignored", 123456, 777, &s2, &c2, format!("changing salt byte {lane} does not change the hash"));
            }
            salt_cases += 2;
        }
    }
    for s in [[0u8; 16], [0xFF; 16]] {
        check_hash(&report, 4321, 1, &s, &cs);
        check_hash(&report, 4321, 1, &ss, &s);
        check_hash(&report, 4321, 1, &s, &s);
        salt_cases += 3;
    }
    // equal salts, salts with zero bytes
    for i in 0..64u64 {
        let s = refmodel::ctr_array::<16>(seed0, &format!("pin-eq-{i}"));
        check_hash(&report, 1000 + i as u32 * 7919, i as u32 * 104_729, &s, &s);
        let mut z = s;
        z[(i % 16) as usize] = 0;
        check_hash(&report, 98765, 4321, &z, &cs);
        check_hash(&report, 98765, 4321, &ss, &z);
        salt_cases += 3;
    }
    report.count("salt_cases", salt_cases);

    // (5) verify_client_pin_hash
    let vcases = AtomicU64::new(0);
    let n_true = AtomicU64::new(0);
    let n_false = AtomicU64::new(0);
    let vpins: Vec<u32> = {
        let mut v: Vec<u32> = (0..1200).collect();
        v.extend((0..tier.pick(600u32, 3800)).map(|i| 1000 + i.wrapping_mul(1_130_021) % 4_000_000_000u32.wrapping_sub(1000)));
        v.extend([9999, 10000, 99999, 100000, 999_999_999, 1_000_000_000, u32::MAX]);
        v
    };
    vpins.par_iter().enumerate().for_each(|(i, &p)| {
        let s = (i as u32).wrapping_mul(97_003);
        // mostly two different salts; every 5th case the client echoes the server's salt, every 7th both are degenerate
        let (ss, cs) = if i % 5 == 4 { (ss, ss) } else if i % 7 == 6 { ([0u8; 16], [0xFF; 16]) } else if i % 11 == 10 { ([0u8; 16], [0u8; 16]) } else { (ss, cs) };
        let reference = pin_hash(p, s, &ss, &cs);
        let mut presented: Vec<[u8; 20]> = vec![[0u8; 20], [0xFF; 20]];
        // the hash the scheme WOULD give without the length gate
        let ungated = {
            let d: Vec<u8> = if p == 0 { vec![] } else { p.to_string().bytes().map(|b| b - b'0').collect() };
            let layout = pin_layout(s);
            let ascii: Vec<u8> = d.iter().map(|x| layout.iter().position(|y| y == x).unwrap() as u8 + b'0').collect();
            let inner = refmodel::hash::sha1_parts(&[&ss, &ascii]);
            refmodel::hash::sha1_parts(&[&cs, &inner])
        };
        presented.push(ungated);
        // the hash of the UNREMAPPED digits (identity layout)
        {
            let d: Vec<u8> = if p == 0 { vec![] } else { p.to_string().bytes().collect() };
            let inner = refmodel::hash::sha1_parts(&[&ss, &d]);
            presented.push(refmodel::hash::sha1_parts(&[&cs, &inner]));
        }
        if let Some(h) = reference {
            if i % 40 == 0 {
                presented.extend(crate::common::altered_proofs(&h, tier == Tier::Thorough && i == 0));
            } else {
                presented.extend(crate::common::altered_proofs(&h, false).into_iter().step_by(7));
            }
        }
        if let Some(h) = reference {
            presented.push(h);
            for bit in 0..160 {
                let mut x = h;
                x[bit / 8] ^= 1 << (bit % 8);
                presented.push(x);
            }
        }
        if let Some(h) = pin_hash(p.wrapping_add(1), s, &ss, &cs) {
            presented.push(h);
        }
        if let Some(h) = pin_hash(p, s.wrapping_add(1), &ss, &cs) {
            presented.push(h);
        }
        for pr in presented {
            match check_verify(&report, p, s, &ss, &cs, &pr) {
                Some(true) => {
                    n_true.fetch_add(1, Ordering::Relaxed);
                }
                Some(false) => {
                    n_false.fetch_add(1, Ordering::Relaxed);
                }
                None => {}
            }
            vcases.fetch_add(1, Ordering::Relaxed);
        }
    });
    report.count("verify_cases", vcases.load(Ordering::Relaxed));
    report.require("verify_true");
    report.require("verify_false");
    report.count("verify_true", n_true.load(Ordering::Relaxed));
    report.count("verify_false", n_false.load(Ordering::Relaxed));

    let total = FACT10 as u64 + seed_cases.load(Ordering::Relaxed) + pin_cases + salt_cases + vcases.load(Ordering::Relaxed);
    report.set("evaluations", json!(total));
    report.set("distinct_nontrivial", json!(FACT10 as u64 + n_none.load(Ordering::Relaxed) + n_false.load(Ordering::Relaxed)));
    report.set("rule", json!("inputs enumerated from ranges and alphabets (distinct by construction); non-trivial = a residue with a non-identity layout, a PIN without hash, or a presented hash that must be rejected; counted as residues + gated PINs + rejecting verifications"));
    report.set("states", json!(total + 1));
    report.set("transitions", json!(total));
    report.set("traces_validated_against_impl", json!(total));
    report.sample("pin", json!({"pin": 1023456789u32, "grid_seed": 1, "layout": pin_layout(1).to_vec(), "hash": hex(&table[1])}));
    report.sample("pin", json!({"pin": 999, "expected": "no hash; verify false for every presented value including the un-gated hash"}));
    report.assume("salts: three values per byte lane plus boundary salts, not the whole salt space");
    report.set("exhaustive", json!(false));
    report.cap_hit("residues (and in the thorough tier all 2^32 seeds) are closed; PINs and salts are ranges/alphabets");
    report.finish()
}
