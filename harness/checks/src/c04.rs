//! C04: public keys are refused exactly when they are congruent to zero modulo N. E3 sweeps.

use crate::common::*;
use mc::report::{Report, Tier, Violation};
use mc::util::catch;
use rayon::prelude::*;
use refmodel::big::U;
use refmodel::srp;
use serde_json::json;
use std::sync::atomic::{AtomicU64, Ordering};
use wow_srp::client::SrpClientChallenge;
use wow_srp::error::InvalidPublicKeyError;
use wow_srp::server::SrpVerifier;
use wow_srp::PublicKey;

#[derive(Debug, PartialEq, Eq, Clone, Copy)]
enum Verdict {
    Accept,
    Zero,
    ModN,
    /// refused with an error kind other than the two the property names
    Other,
}

fn want(k: &[u8; 32]) -> Verdict {
    if k.iter().all(|b| *b == 0) {
        Verdict::Zero
    } else if *k == N_LE {
        Verdict::ModN
    } else {
        Verdict::Accept
    }
}

fn class_of(k: &[u8; 32]) -> &'static str {
    if k.iter().enumerate().all(|(i, b)| *b == 0 || *b == N_LE[i]) {
        "byte-wise-in-{0,N_i}"
    } else {
        "general"
    }
}

/// returns true if ok
pub fn check_key(report: &Report, k: &[u8; 32], origin: &str) -> bool {
    let w = want(k);
    let got = match catch(|| PublicKey::from_le_bytes(*k)) {
        Err(m) => {
            report.violation(Violation {
                signature: format!("C04|from_le_bytes|panic|{}", class_of(k)),
                scenario: "PublicKey::from_le_bytes".into(),
                replay: json!({"key_le": hex(k), "origin": origin}),
                detail: json!({"message": format!("from_le_bytes panicked: {m}")}),
            });
            return false;
        }
        Ok(Ok(p)) => {
            if *p.as_le_bytes() != *k {
                report.violation(Violation {
                    signature: format!("C04|from_le_bytes|accessor-changed-value|{}", class_of(k)),
                    scenario: "PublicKey::from_le_bytes".into(),
                    replay: json!({"key_le": hex(k), "origin": origin}),
                    detail: json!({"message": format!("as_le_bytes returned {}", hex(p.as_le_bytes()))}),
                });
                return false;
            }
            Verdict::Accept
        }
        Ok(Err(InvalidPublicKeyError::PublicKeyIsZero)) => Verdict::Zero,
        Ok(Err(InvalidPublicKeyError::PublicKeyModLargeSafePrimeIsZero)) => Verdict::ModN,
        // a kind this harness does not know (the enum may grow): neither of the two the property names
        #[allow(unreachable_patterns)]
        Ok(Err(_)) => Verdict::Other,
    };
    if got != w {
        let class = match (w, got) {
            (Verdict::Accept, _) => "valid-key-refused",
            (_, Verdict::Accept) => "invalid-key-accepted",
            _ => "wrong-error-kind",
        };
        report.violation(Violation {
            signature: format!("C04|from_le_bytes|{class}|{}", class_of(k)),
            scenario: "PublicKey::from_le_bytes".into(),
            replay: json!({"key_le": hex(k), "origin": origin}),
            detail: json!({"message": format!("integer {} : expected {w:?}, got {got:?}", U::from_le_bytes(k).to_hex_be())}),
        });
        return false;
    }
    true
}

fn family_member(mask: u32) -> [u8; 32] {
    let mut k = [0u8; 32];
    for i in 0..32 {
        if mask >> i & 1 == 1 {
            k[i] = N_LE[i];
        }
    }
    k
}

pub fn run(tier: Tier, seed: u64) -> i32 {
    let report = Report::new("C04", tier, seed, "model_checking");
    if N_LE.iter().any(|b| *b == 0) {
        mc::util::machinery_error("N has a zero byte; the {0,N_i} family is smaller than 2^32");
    }
    let evals = AtomicU64::new(0);
    let refused = AtomicU64::new(0);
    let accepted = AtomicU64::new(0);

    // (1) the {0, N_i} family
    if tier == Tier::Thorough {
        (0..(1u32 << 12)).into_par_iter().for_each(|hi| {
            let mut acc = 0u64;
            for lo in 0..(1u32 << 20) {
                let mask = (hi << 20) | lo;
                let k = family_member(mask);
                if check_key(&report, &k, "family") && want(&k) == Verdict::Accept {
                    acc += 1;
                }
            }
            accepted.fetch_add(acc, Ordering::Relaxed);
            evals.fetch_add(1 << 20, Ordering::Relaxed);
        });
        report.space("all 2^32 arrays whose every byte is 0 or N's byte at that position");
    } else {
        // <= 3 positions deviating from all-zero or from N, plus every contiguous run
        let mut masks: Vec<u32> = vec![0, u32::MAX];
        for a in 0..32 {
            masks.push(1 << a);
            masks.push(!(1u32 << a));
            for b in (a + 1)..32 {
                masks.push(1 << a | 1 << b);
                masks.push(!(1u32 << a | 1 << b));
                for c in (b + 1)..32 {
                    masks.push(1 << a | 1 << b | 1 << c);
                    masks.push(!(1u32 << a | 1 << b | 1 << c));
                }
            }
        }
        for start in 0..32 {
            for len in 1..=(32 - start) {
                let m = if len == 32 { u32::MAX } else { ((1u32 << len) - 1) << start };
                masks.push(m);
                masks.push(!m);
            }
        }
        for i in 0..(1u32 << 24) {
            masks.push(i.wrapping_mul(2_654_435_761));
        }
        masks.sort();
        masks.dedup();
        masks.par_iter().for_each(|&m| {
            let k = family_member(m);
            if check_key(&report, &k, "family") && want(&k) == Verdict::Accept {
                accepted.fetch_add(1, Ordering::Relaxed);
            }
        });
        evals.fetch_add(masks.len() as u64, Ordering::Relaxed);
        report.space("family {0,N_i}^32: all members with <= 3 positions deviating from 0 or from N, every contiguous run, 2^24 strided members (quick)");
        report.set("exhaustive", json!(false));
    }
    report.count("family_members", evals.load(Ordering::Relaxed));

    // (2) neighbours of 0 and N, arithmetic neighbours, powers of two, private-key alphabet
    let mut keys: Vec<([u8; 32], &str)> = vec![];
    for base in [[0u8; 32], N_LE] {
        for pos in 0..32 {
            for v in 0..=255u8 {
                let mut k = base;
                if k[pos] != v {
                    k[pos] = v;
                    keys.push((k, "one-byte-neighbour"));
                }
            }
            for bit in 0..8 {
                let mut k = base;
                k[pos] ^= 1 << bit;
                keys.push((k, "one-bit-neighbour"));
            }
        }
    }
    let n = srp::n_builtin();
    let two256 = U::from_le_bytes(&{
        let mut b = vec![0u8; 33];
        b[32] = 1;
        b
    });
    for d in [1u64, 2, 3, 183, 255, 256, 65536] {
        keys.push((n.add(&U::from_u64(d)).to_le_padded::<32>(), "N+d"));
        keys.push((n.sub(&U::from_u64(d)).to_le_padded::<32>(), "N-d"));
        keys.push((le32_from_u64(d), "small"));
    }
    for k in 0..256usize {
        let mut p = [0u8; 32];
        p[k / 8] = 1 << (k % 8);
        keys.push((p, "2^k"));
        let pk = U::from_le_bytes(&p);
        if n.cmp(&pk) == std::cmp::Ordering::Greater {
            keys.push((n.sub(&pk).to_le_padded::<32>(), "N-2^k"));
        }
        let s = n.add(&pk);
        if s.cmp(&two256) == std::cmp::Ordering::Less {
            keys.push((s.to_le_padded::<32>(), "N+2^k"));
        }
    }
    keys.push((n.add(&n).rem(&two256).to_le_padded::<32>(), "2N mod 2^256"));
    keys.push(([0xFF; 32], "2^256-1"));
    // keys as FAR from N (and from 0) as possible: a comparison that counts differing bits or bytes in a narrow integer
    // overflows on them - the complement of N, the complement in all but one byte / bit, N with every other byte complemented
    {
        let not_n = N_LE.map(|b| !b);
        keys.push((not_n, "complement of N"));
        for i in [0usize, 1, 15, 16, 31] {
            let mut k = not_n;
            k[i] = N_LE[i];
            keys.push((k, "complement of N except one byte"));
            let mut k = not_n;
            k[i] ^= 1;
            keys.push((k, "complement of N except one bit"));
            let mut z = [0xFFu8; 32];
            z[i] ^= 0x80;
            keys.push((z, "all ones except one bit"));
        }
        let mut alt = N_LE;
        for (i, b) in alt.iter_mut().enumerate() {
            if i % 2 == 0 {
                *b = !*b;
            }
        }
        keys.push((alt, "N with every other byte complemented"));
    }
    // N in another byte order: the big-endian spelling of N (a public constant of the library) read as a
    // little-endian key, N with each 2/4/8/16-byte word byte-reversed, N with its words in reverse order
    {
        let mut rev = N_LE;
        rev.reverse();
        keys.push((rev, "big-endian spelling of N"));
        keys.push((wow_srp::LARGE_SAFE_PRIME_BIG_ENDIAN, "big-endian spelling of N"));
        for wsz in [2usize, 4, 8, 16] {
            let mut k = N_LE;
            for w in k.chunks_mut(wsz) {
                w.reverse();
            }
            keys.push((k, "N with each word byte-reversed"));
            let mut k = [0u8; 32];
            let nw = 32 / wsz;
            for w in 0..nw {
                k[(nw - 1 - w) * wsz..(nw - w) * wsz].copy_from_slice(&N_LE[w * wsz..(w + 1) * wsz]);
            }
            keys.push((k, "N with its words in reverse order"));
        }
    }
    for pk in private_keys(seed, true) {
        keys.push((pk, "pk-alphabet"));
    }
    // keys that collide with N or with 0 under a word-wise FOLD (xor / wrapping sum of 1,2,4,8,16-byte words):
    // what a "constant-time" comparison that accumulates with the wrong operator confuses
    for wsz in [1usize, 2, 4, 8, 16] {
        let nw = 32 / wsz;
        // transpositions of N's words (all permutations for 8-byte words and for 4-byte words a strided subset)
        for i in 0..nw {
            for j in (i + 1)..nw {
                let mut k = N_LE;
                for t in 0..wsz {
                    k.swap(i * wsz + t, j * wsz + t);
                }
                if k != N_LE {
                    keys.push((k, "N with two words swapped"));
                }
            }
        }
        // rotations of N's words
        for r in 1..nw {
            let mut k = [0u8; 32];
            for w in 0..nw {
                k[((w + r) % nw) * wsz..((w + r) % nw) * wsz + wsz].copy_from_slice(&N_LE[w * wsz..w * wsz + wsz]);
            }
            if k != N_LE {
                keys.push((k, "N with its words rotated"));
            }
        }
        // the fold value alone in one word, everything else zero (xor fold and wrapping-sum fold)
        let mut xor = vec![0u8; wsz];
        let mut sum = vec![0u8; wsz];
        for w in 0..nw {
            let mut carry = 0u16;
            for t in 0..wsz {
                xor[t] ^= N_LE[w * wsz + t];
                let s = sum[t] as u16 + N_LE[w * wsz + t] as u16 + carry;
                sum[t] = s as u8;
                carry = s >> 8;
            }
        }
        for fold in [&xor, &sum] {
            for pos in 0..nw {
                let mut k = [0u8; 32];
                k[pos * wsz..pos * wsz + wsz].copy_from_slice(fold);
                keys.push((k, "fold of N's words placed in one word"));
            }
        }
        // two equal words, rest zero: folds to zero under xor
        for (i, j) in [(0usize, 1usize), (0, nw - 1), (nw / 2, nw - 1)] {
            if i != j {
                let mut k = [0u8; 32];
                for t in 0..wsz {
                    k[i * wsz + t] = 0xA5 ^ t as u8;
                    k[j * wsz + t] = 0xA5 ^ t as u8;
                }
                keys.push((k, "two equal words, rest zero (xor-folds to 0)"));
                // and a pair that sums to zero
                let mut k2 = [0u8; 32];
                k2[i * wsz] = 1;
                for t in 0..wsz {
                    k2[j * wsz + t] = 0xFF;
                }
                keys.push((k2, "two words summing to 0, rest zero"));
            }
        }
    }
    keys.retain(|(k, _)| !(k.iter().all(|b| *b == 0)) || true);
    for (k, origin) in &keys {
        if check_key(&report, k, origin) {
            match want(k) {
                Verdict::Accept => accepted.fetch_add(1, Ordering::Relaxed),
                _ => refused.fetch_add(1, Ordering::Relaxed),
            };
        }
    }
    report.count("neighbour_and_arithmetic_keys", keys.len() as u64);
    evals.fetch_add(keys.len() as u64, Ordering::Relaxed);

    // (3) the server's own B: v = (T - g^b) * 3^-1 mod N makes into_proof produce B = T exactly
    let inv3 = U::from_u64(3).inv_prime(&n);
    let mut targets: Vec<([u8; 32], &str)> = vec![([0u8; 32], "T=0"), (le32_from_u64(1), "T=1"), (le32_from_u64(183), "T=183"), (n.sub(&U::from_u64(1)).to_le_padded::<32>(), "T=N-1")];
    for m in [1u32 << 31, 0x0000_FFFF, 0xFFFF_0000, 0x5555_5555, 0xAAAA_AAAA, u32::MAX - 1, u32::MAX >> 1] {
        targets.push((family_member(m), "T in family"));
    }
    for k in [8usize, 16, 24] {
        let mut t = [0u8; 32];
        t[k] = 1;
        targets.push((t, "T = 2^(8k): zero low limbs"));
    }
    targets.push((refmodel::ctr_array::<32>(seed, "c04-T").map(|b| b & 0x7F), "T general"));
    let mut own_b = 0u64;
    // the server's private key is any 32 bytes the RNG hands out: ordinary, and 0, 1, 2, all-ones, N-1, N, N+1
    let b_privs: Vec<[u8; 32]> = vec![le32_from_u64(5), [0u8; 32], le32_from_u64(1), le32_from_u64(2), [0xFF; 32], n_plus(-1), n_plus(0), n_plus(1), refmodel::ctr_array::<32>(seed, "c04-own-b")];
    for b_priv in b_privs {
    let gb = U::from_u64(7).modpow(&U::from_le_bytes(&b_priv), &n);
    for (t, name) in &targets {
        let tt = U::from_le_bytes(t).rem(&n);
        let v = U::submod(&tt, &gb, &n).mulmod(&inv3, &n);
        // sanity of the steering in the reference model
        if srp::server_public(&v, &U::from_le_bytes(&b_priv), 7, &n) != tt {
            mc::util::machinery_error("C04: steering of the server public key failed in the reference model");
        }
        let ver = SrpVerifier::from_database_values(ns("A"), v.to_le_padded::<32>(), [0u8; 32]);
        if !taken_as_is(Pinned::ServerKey, &b_priv) {
            NOT_OWNED.fetch_add(1, Ordering::Relaxed);
            continue;
        }
        // the script goes on with a second, ordinary private key: a library that refuses its own B = 0 by drawing AGAIN
        // (instead of the documented panic) gets that one
        let b_again = refmodel::ctr_array::<32>(seed, "c04-own-b-again").map(|x| x & 0x7F);
        let mut script = b_priv.to_vec();
        script.extend_from_slice(&b_again);
        let a_probe = srp::client_public(&U::from_u64(77), 7, &n).to_le_padded::<32>();
        let (r, used, log) = with_script(&script, move || {
            let p = ver.into_proof();
            let bp = *p.server_public_key();
            (bp, p)
        });
        own_b += 1;
        let is_zero = tt.is_zero();
        match r.map(|(bp, p)| (bp, Some(p))) {
            Ok((bpub, proof)) => {
                if used < 32 {
                    mc::util::machinery_error(&format!("C04: into_proof consumed {used} scripted bytes, expected at least 32"));
                }
                if is_zero {
                    // B = 0 must not be handed out. Accepted outcomes: the documented panic (below), or a key re-drawn from the
                    // next RNG answer - then everything the server goes on to compute must belong to THAT private key
                    let redrawn = log.len() >= 2 && log[1].bytes == b_again;
                    let want_b2 = srp::server_public(&v, &U::from_le_bytes(&b_again), 7, &n);
                    let mut consistent = false;
                    if redrawn && !want_b2.is_zero() && bpub == want_b2.to_le_padded::<32>() {
                        // the M1 an honest peer would send for (v, b_again, A): the server must accept it
                        let u = U::from_le_bytes(&srp::u_bytes(&a_probe, &bpub));
                        let s = srp::server_s(&U::from_le_bytes(&a_probe), &v, &u, &U::from_le_bytes(&b_again), &n).to_le_padded::<32>();
                        if let (Some(k), Ok(ak), Some(p)) = (srp::interleave(&s), PublicKey::from_le_bytes(a_probe), proof) {
                            let m1 = srp::m1(b"A", &[0u8; 32], &a_probe, &bpub, &k, 7, &srp::n_builtin_le());
                            consistent = matches!(mc::util::catch(move || p.into_server(ak, m1).is_ok()), Ok(true));
                        }
                    }
                    if !consistent {
                        report.violation(Violation {
                            signature: "C04|server-own-B|zero-key-handed-out".into(),
                            scenario: "SrpVerifier::into_proof".into(),
                            replay: json!({"target_B": hex(t), "verifier": hex(&v.to_le_padded::<32>()), "b": hex(&b_priv), "next_rng_answer": hex(&b_again)}),
                            detail: json!({"message": format!("for a verifier / private key pair whose B is congruent 0 mod N the server neither refused nor consistently re-drew its key: it handed out B = {} (re-drawn key would give {}; draws seen: {})", hex(&bpub), want_b2.to_hex_be(), log.len())}),
                        });
                    } else {
                        refused.fetch_add(1, Ordering::Relaxed);
                    }
                } else if bpub != tt.to_le_padded::<32>() {
                    report.violation(Violation {
                        signature: "C04|server-own-B|wrong-value".into(),
                        scenario: "SrpVerifier::into_proof".into(),
                        replay: json!({"target_B": hex(t), "verifier": hex(&v.to_le_padded::<32>()), "b": hex(&b_priv)}),
                        detail: json!({"message": format!("B = {} but (3v + g^b) mod N = {}", hex(&bpub), hex(&tt.to_le_padded::<32>()))}),
                    });
                } else {
                    accepted.fetch_add(1, Ordering::Relaxed);
                }
            }
            Err(m) => {
                if is_zero {
                    refused.fetch_add(1, Ordering::Relaxed); // documented panic counts as refusal
                } else {
                    report.violation(Violation {
                        signature: format!("C04|server-own-B|valid-key-refused|{}", class_of(&tt.to_le_padded::<32>())),
                        scenario: "SrpVerifier::into_proof".into(),
                        replay: json!({"target_B": hex(t), "name": name, "verifier": hex(&v.to_le_padded::<32>()), "b": hex(&b_priv)}),
                        detail: json!({"message": format!("the server's own valid public key {} was refused: {m}", tt.to_hex_be())}),
                    });
                }
            }
        }
    }
    }
    report.count("server_own_key_cases", own_b);
    evals.fetch_add(own_b, Ordering::Relaxed);

    // (4) the client's own A relative to the announced modulus
    let mods = moduli();
    // a server key for the client to talk to; it is a valid key, so a refusal is a finding, not a harness problem
    let probe = [le32_from_u64(1234567), refmodel::ctr_array::<32>(seed, "c04-probe-B").map(|b| b & 0x7F), [0x11; 32]];
    let b_pub = match probe.iter().find_map(|k| { check_key(&report, k, "probe-B"); PublicKey::from_le_bytes(*k).ok() }) {
        Some(k) => k,
        None => return report.finish(),
    };
    let a_alpha: Vec<[u8; 32]> = vec![le32_from_u64(1), le32_from_u64(2), le32_from_u64(5), le32_from_u64(64), le32_from_u64(128), le32_from_u64(250), refmodel::ctr_array::<32>(seed, "c04-a")];
    let own_a = AtomicU64::new(0);
    let own_a_zero = AtomicU64::new(0);
    let inconclusive = AtomicU64::new(0);
    let gens: Vec<u8> = if tier == Tier::Thorough { (2..=255).collect() } else { vec![2, 3, 4, 5, 7, 11, 13, 16, 183, 250, 251, 255] };
    mods.par_iter().for_each(|(mname, m)| {
        let m_le = m.to_le_padded::<32>();
        for &g in &gens {
            for a in &a_alpha {
                let want_a = U::from_u64(g as u64).modpow(&U::from_le_bytes(a), m);
                if !taken_as_is(Pinned::ClientKey, a) {
                    NOT_OWNED.fetch_add(1, Ordering::Relaxed);
                    continue;
                }
                let (r, _used, _log) = with_script(a, || {
                    let c = SrpClientChallenge::new(ns("A"), ns("A"), g, m_le, b_pub, [7u8; 32]);
                    *c.client_public_key()
                });
                own_a.fetch_add(1, Ordering::Relaxed);
                match r {
                    Ok(apub) => {
                        if want_a.is_zero() {
                            report.violation(Violation {
                                signature: "C04|client-own-A|zero-key-handed-out".into(),
                                scenario: "SrpClientChallenge::new".into(),
                                replay: json!({"g": g, "modulus": mname, "a": hex(a)}),
                                detail: json!({"message": format!("client generated A = {} although g^a mod N' = 0", hex(&apub))}),
                            });
                        } else if apub != want_a.to_le_padded::<32>() {
                            report.violation(Violation {
                                signature: "C04|client-own-A|wrong-value".into(),
                                scenario: "SrpClientChallenge::new".into(),
                                replay: json!({"g": g, "modulus": mname, "a": hex(a)}),
                                detail: json!({"message": format!("A = {} but g^a mod N' = {}", hex(&apub), hex(&want_a.to_le_padded::<32>()))}),
                            });
                        } else {
                            accepted.fetch_add(1, Ordering::Relaxed);
                        }
                    }
                    Err(msg) => {
                        if want_a.is_zero() {
                            own_a_zero.fetch_add(1, Ordering::Relaxed);
                            refused.fetch_add(1, Ordering::Relaxed);
                        } else if msg.contains("Invalid public key generated for client") {
                            report.violation(Violation {
                                signature: "C04|client-own-A|valid-key-refused".into(),
                                scenario: "SrpClientChallenge::new".into(),
                                replay: json!({"g": g, "modulus": mname, "a": hex(a)}),
                                detail: json!({"message": format!("client refused its own valid key A = {} (mod {mname}): {msg}", want_a.to_hex_be())}),
                            });
                        } else {
                            // some other crash after A was accepted (e.g. degenerate S): C14's business, not C04's
                            inconclusive.fetch_add(1, Ordering::Relaxed);
                        }
                    }
                }
            }
        }
    });
    // constructed: A equals the BUILT-IN N exactly under a larger announced modulus (valid there: A mod N' != 0)
    let gw_path = mc::report::verif_root().join("witnesses").join("group_witnesses.json");
    let gw: serde_json::Value = std::fs::read_to_string(&gw_path).ok().and_then(|t| serde_json::from_str(&t).ok()).unwrap_or_else(|| mc::util::machinery_error("cannot read witnesses/group_witnesses.json"));
    let mut gw_cases = 0u64;
    for w in gw.as_array().unwrap_or(&vec![]) {
        let g = w["g"].as_u64().unwrap() as u8;
        let a_exp = w["a"].as_u64().unwrap();
        let m_le = mc::util::unhex_n::<32>(w["modulus_le"].as_str().unwrap());
        let m = U::from_le_bytes(&m_le);
        // re-validate the witness with the reference model (machinery error if it no longer witnesses)
        if U::from_u64(g as u64).modpow(&U::from_u64(a_exp), &m) != n || m.cmp(&n) != std::cmp::Ordering::Greater {
            mc::util::machinery_error("group witness does not satisfy g^a mod N' = built-in N with N' > N");
        }
        let a = le32_from_u64(a_exp);
        if !taken_as_is(Pinned::ClientKey, &a) {
            NOT_OWNED.fetch_add(1, Ordering::Relaxed);
            continue;
        }
        let (r, _, _) = with_script(&a, || {
            let c = SrpClientChallenge::new(ns("A"), ns("A"), g, m_le, b_pub, [7u8; 32]);
            *c.client_public_key()
        });
        gw_cases += 1;
        match r {
            Ok(apub) => {
                if apub != N_LE {
                    report.violation(Violation { signature: "C04|client-own-A|wrong-value".into(), scenario: "SrpClientChallenge::new".into(), replay: json!({"g": g, "a": a_exp, "modulus_le": hex(&m_le)}), detail: json!({"message": format!("A = {} but g^a mod N' = built-in N", hex(&apub))}) });
                } else {
                    accepted.fetch_add(1, Ordering::Relaxed);
                }
            }
            Err(msg) => {
                if msg.contains("nvalid public key") {
                    report.violation(Violation {
                        signature: "C04|client-own-A|valid-key-refused-relative-to-builtin-N".into(),
                        scenario: "SrpClientChallenge::new".into(),
                        replay: json!({"g": g, "a": a_exp, "modulus_le": hex(&m_le)}),
                        detail: json!({"message": format!("under the announced modulus N' > N the client's key A = g^a mod N' equals the built-in N, which is NOT congruent 0 mod N', yet the client refused it: {msg}")}),
                    });
                } else {
                    inconclusive.fetch_add(1, Ordering::Relaxed);
                }
            }
        }
    }
    report.require("client_own_key_equals_builtin_N_cases");
    report.count("client_own_key_equals_builtin_N_cases", gw_cases);
    evals.fetch_add(gw_cases, Ordering::Relaxed);
    report.count("client_own_key_cases", own_a.load(Ordering::Relaxed));
    report.require("client_own_key_zero_refused");
    report.count("client_own_key_zero_refused", own_a_zero.load(Ordering::Relaxed));
    report.count("client_own_key_inconclusive_other_panic", inconclusive.load(Ordering::Relaxed));
    evals.fetch_add(own_a.load(Ordering::Relaxed), Ordering::Relaxed);
    report.space(&format!("client's own A: generators {} x {} prime moduli x 5 private keys, including g = N' (A = 0 must be refused)", gens.len(), mods.len()));

    report.require("accepted");
    report.require("refused");
    report.count("accepted", accepted.load(Ordering::Relaxed));
    report.count("refused", refused.load(Ordering::Relaxed));
    let total = evals.load(Ordering::Relaxed);
    report.set("evaluations", json!(total));
    report.set("distinct_nontrivial", json!(report.get("family_members") + keys.len() as u64));
    report.set("rule", json!("arrays enumerated from a bijective counter over the {0,N_i}^32 family and from explicit neighbour constructions; non-trivial = every array of the family and every array within one byte/bit or a power of two of 0 or N (the ones a shortcut could confuse); counted as family members + neighbour keys"));
    report.set("states", json!(total + 1));
    report.set("transitions", json!(total));
    report.set("traces_validated_against_impl", json!(total));
    report.sample("key", json!({"integer": 183, "le_bytes": hex(&le32_from_u64(183)), "expected": "accepted and returned unchanged"}));
    report.sample("key", json!({"integer": "N", "le_bytes": hex(&N_LE), "expected": "Err(PublicKeyModLargeSafePrimeIsZero)"}));
    report.sample("key", json!({"integer": "N with byte 0 zeroed", "expected": "accepted"}));
    report.space("keys colliding with N or 0 under xor/sum folds of 1,2,4,8,16-byte words (word transpositions and rotations of N, the fold value alone in a word, cancelling word pairs)");
    report.space("every array differing from 0 or N in exactly one byte (2x32x255) or one bit; N+-d, N+-2^k, 2N mod 2^256, 2^256-1, all powers of two, private-key alphabet");
    report.space("server's own B steered to 0 (must be refused), 1, 183, family members, N-1 through a chosen verifier and scripted b");
    report.assume("the rest of the 2^256 space is represented by the alphabets");
    report.set("exhaustive", json!(false));
    report.cap_hit("the 2^32 {0,N_i} family is closed completely in the thorough tier; the rest of the 2^256 key space is represented by neighbours, fold collisions and alphabets");
    report.finish()
}
