//! C05: reconnect proofs verify only against the current, single-use challenge.
//! E2 (deviation-bounded) over histories of reconnect attempts on one real SrpServer.

use crate::common::*;
use mc::choices::{explore, Chooser};
use mc::report::{Report, Tier, Violation};
use mc::util::catch;
use refmodel::srp::reconnect_proof;
use serde_json::json;
use wow_srp::client::SrpClient;
use wow_srp::server::SrpServer;

struct Session {
    name: String,
    user_norm: Vec<u8>,
    k: [u8; 40],
    server: SrpServer,
    client: SrpClient,
}

fn sessions(tier: Tier, seed: u64) -> Vec<Session> {
    let specs: Vec<(&str, &str, &str)> = if tier == Tier::Thorough {
        vec![("A", "A", "s0"), ("alice", "password123", "s1"), ("0123456789abcdef", "x", "s2"), ("A:", "B", "s3"), (" ", "~", "s4"), ("MiXeD", "CaSe", "s5")]
    } else {
        vec![("A", "A", "s0"), ("alice", "password123", "s1"), ("0123456789abcdef", "x", "s2")]
    };
    sessions_of(specs, seed)
}

/// Accounts whose NAME has a shape a shortcut in hashing or normalising the name would get wrong (the reconnect proof
/// hashes the name): blanks at either end, runs of blanks, characters bordering the letter ranges, one character.
fn odd_name_sessions(seed: u64) -> Vec<Session> {
    sessions_of(vec![("bob ", "pw", "n0"), (" lead", "pw", "n1"), ("a  b", "pw", "n2"), ("pass|zone", "pw", "n3"), ("@a[z`{~", "pw", "n4"), ("z", "pw", "n5"), ("0123456789abcde", "pw", "n6"), ("  ", "pw", "n7"), ("o'brien\"\\", "pw", "n8"), ("account{1}xy", "pw", "n9"), ("{|}~{|}~{|}~{|}~", "pw", "n10")], seed)
}

fn sessions_of(specs: Vec<(&str, &str, &str)>, seed: u64) -> Vec<Session> {
    specs
        .into_iter()
        .map(|(u, p, tag)| {
            let inp = LoginInput {
                reg_user: u,
                reg_pass: p,
                typed_user: &u.to_ascii_lowercase(),
                typed_pass: &p.to_ascii_uppercase(),
                salt: refmodel::ctr_array::<32>(seed, &format!("c05-salt-{tag}")),
                b: ordinary_key(seed, &format!("c05-b-{tag}")),
                a: ordinary_key(seed, &format!("c05-a-{tag}")),
                storage_roundtrip: false,
            };
            match real_login(&inp) {
                Ok((rl, server, client)) => Session { name: tag.to_string(), user_norm: refmodel::misc::normalize(u).unwrap(), k: rl.k_server, server, client },
                Err(LoginFail::Redrawn) => {
                    // the library refuses one of these scripted values and draws again: take the session it builds from its own draws
                    let inp2 = LoginInput { b: ordinary_key(seed, &format!("c05-b2-{tag}")), a: ordinary_key(seed, &format!("c05-a2-{tag}")), salt: refmodel::ctr_array::<32>(seed, &format!("c05-salt2-{tag}")), ..inp };
                    match real_login(&inp2) {
                        Ok((rl, server, client)) => Session { name: tag.to_string(), user_norm: refmodel::misc::normalize(u).unwrap(), k: rl.k_server, server, client },
                        Err(e) => mc::util::machinery_error(&format!("C05: cannot set up a logged-in session ({e:?}); see C01")),
                    }
                }
                Err(e) => mc::util::machinery_error(&format!("C05: cannot set up a logged-in session ({e:?}); see C01")),
            }
        })
        .collect()
}

fn fresh16(seed: u64, session: &str, attempt: usize, who: &str) -> [u8; 16] {
    refmodel::ctr_array::<16>(seed, &format!("c05-{session}-{attempt}-{who}"))
}

/// One history. Returns Ok(outcome label) or Err(violation message).
fn history(s: &Session, seed: u64, len: usize, ch: &mut Chooser) -> Result<String, String> {
    let mut server = s.server.clone();
    let mut challenges: Vec<[u8; 16]> = vec![*server.reconnect_challenge_data()];
    let mut earlier: Vec<([u8; 16], [u8; 20])> = vec![];
    // honest pairs of earlier attempts that were NOT sent then (the adversary presented something else and kept them)
    let mut held_back: Vec<([u8; 16], [u8; 20])> = vec![];
    let mut label = String::new();
    for attempt in 0..len {
        // deviation: the application keeps going with a COPY of the server object (sessions are stored in maps and cloned
        // out of them); a copy is the same session: same name, key and the challenge currently on offer
        if ch.pick(2, "continue-on-a-clone") == 1 {
            let c = server.clone();
            drop(std::mem::replace(&mut server, c));
        }
        let current = *server.reconnect_challenge_data();
        if current != *challenges.last().unwrap() {
            return Err(format!("attempt {attempt}: challenge on offer changed without an attempt"));
        }
        // the honest client's values for the challenge currently on offer (fresh client data from the seam; as a deviation
        // the client's RNG happens to answer with the very challenge the server offers, or with all zeros)
        let cdraw = match ch.pick(3, "client-rng-answer") {
            0 => fresh16(seed, &s.name, attempt, "client"),
            1 => current,
            _ => [0u8; 16],
        };
        // (the script goes on with fresh bytes in case the client refuses such an answer and draws again)
        let cdraw = { let mut v = cdraw.to_vec(); v.extend_from_slice(&fresh16(seed, &s.name, attempt, "client-again")); v };
        let (honest, used, _) = with_script(&cdraw, || s.client.calculate_reconnect_values(current));
        let honest = honest.map_err(|m| format!("attempt {attempt}: calculate_reconnect_values panicked: {m}"))?;
        let _ = used; // how the client derives its challenge from the RNG is C15's business
        let want_honest = reconnect_proof(&s.user_norm, &honest.challenge_data, &current, &s.k);
        if honest.proof != want_honest {
            return Err(format!("attempt {attempt}: client's reconnect proof {} != SHA1(U|client_data|server_challenge|K) = {}", hex(&honest.proof), hex(&want_honest)));
        }
        // adversary alphabet
        let n_replay = earlier.len();
        let n_stale = challenges.len() - 1;
        let n = 1 + n_replay + n_stale + 40 + 2 + 160 + 128 + 3 + held_back.len();
        let c = ch.pick(n, "attempt");
        let (cd, proof, what): ([u8; 16], [u8; 20], String) = if c == 0 {
            (honest.challenge_data, honest.proof, "honest".into())
        } else if c <= n_replay {
            let (d, p) = earlier[c - 1];
            (d, p, format!("replay#{}", c - 1))
        } else if c <= n_replay + n_stale {
            let j = c - n_replay - 1;
            let st = s.client.clone();
            let (r, _, _) = with_script(&cdraw[..], || st.calculate_reconnect_values(challenges[j]));
            let r = r.map_err(|m| format!("panic: {m}"))?;
            (r.challenge_data, r.proof, format!("stale-challenge#{j}"))
        } else if c <= n_replay + n_stale + 40 {
            let pos = c - n_replay - n_stale - 1;
            let mut k2 = s.k;
            k2[pos] ^= 0x01;
            (honest.challenge_data, reconnect_proof(&s.user_norm, &honest.challenge_data, &current, &k2), format!("wrong-session-key-byte{pos}"))
        } else if c <= n_replay + n_stale + 42 {
            let which = c - n_replay - n_stale - 41;
            let other: Vec<u8> = if which == 0 {
                let mut u = s.user_norm.clone();
                let l = u.len() - 1;
                u[l] = if u[l] == b'B' { b'C' } else { b'B' };
                u
            } else {
                s.user_norm.to_ascii_lowercase() // the un-normalised spelling hashed raw
            };
            if other == s.user_norm {
                (honest.challenge_data, honest.proof, "honest(same-name)".into())
            } else {
                (honest.challenge_data, reconnect_proof(&other, &honest.challenge_data, &current, &s.k), format!("wrong-username#{which}"))
            }
        } else if c <= n_replay + n_stale + 42 + 160 {
            let bit = c - n_replay - n_stale - 43;
            let mut p = honest.proof;
            p[bit / 8] ^= 1 << (bit % 8);
            (honest.challenge_data, p, format!("proof-bit{bit}"))
        } else if c <= n_replay + n_stale + 42 + 160 + 128 {
            let bit = c - n_replay - n_stale - 43 - 160;
            let mut d = honest.challenge_data;
            d[bit / 8] ^= 1 << (bit % 8);
            (d, honest.proof, format!("client-data-bit{bit}"))
        } else if c <= n_replay + n_stale + 42 + 160 + 128 + 3 {
            // client data of a special shape with the RIGHT proof for it (must be accepted): equal to the
            // server challenge on offer, all zero, all ones
            let which = c - (n_replay + n_stale + 42 + 160 + 128) - 1;
            let d: [u8; 16] = [current, [0u8; 16], [0xFF; 16]][which];
            (d, reconnect_proof(&s.user_norm, &d, &current, &s.k), format!("right-proof-for-special-client-data#{which}"))
        } else {
            // the honest pair of an earlier attempt, held back then (the same client data was presented with a damaged
            // proof, or something else was): right for the challenge of that attempt, not for the one on offer now
            let j = c - (n_replay + n_stale + 42 + 160 + 128 + 3) - 1;
            let (d, p) = held_back[j];
            (d, p, format!("held-back-honest-pair#{j}"))
        };
        // the server's refresh draw: fresh by default, or (deviation) a repeat of an earlier challenge value
        let r = ch.pick(1 + challenges.len() + 2, "refresh");
        let refresh = if r == 0 {
            fresh16(seed, &s.name, attempt, "server")
        } else if r <= challenges.len() {
            challenges[r - 1]
        } else if r == challenges.len() + 1 {
            [0u8; 16] // the RNG is allowed to answer all zeros: the challenge must still be replaced by what was drawn
        } else {
            [0xFF; 16]
        };
        let reference = reconnect_proof(&s.user_norm, &cd, &current, &s.k);
        let want = proof == reference;
        // the script continues with fresh bytes: a site that refuses a degenerate draw and draws again then gets a new value
        let mut refresh_script = refresh.to_vec();
        refresh_script.extend_from_slice(&fresh16(seed, &s.name, attempt, "server-again"));
        let (got, used, log) = with_script(&refresh_script, || server.verify_reconnection_attempt(cd, proof));
        let got = got.map_err(|m| format!("attempt {attempt} ({what}): verify_reconnection_attempt panicked: {m}"))?;
        if got != want {
            return Err(format!(
                "attempt {attempt} ({what}): server returned {got}, but proof {} presented for client data {} {} SHA1(U|client_data|current challenge {}|K)",
                hex(&proof), hex(&cd), if want { "equals" } else { "differs from" }, hex(&current)
            ));
        }
        let after = *server.reconnect_challenge_data();
        let drew_expected = used >= 16 && !log.is_empty();
        let supplied_new = r == 0 || (r > challenges.len() && !challenges.contains(&refresh));
        if supplied_new {
            // bytes never seen before were supplied: the challenge must be new
            if after == current {
                return Err(format!("attempt {attempt} ({what}, verdict {got}): the server challenge was not replaced"));
            }
            if challenges.contains(&after) {
                return Err(format!("attempt {attempt} ({what}): the new challenge repeats an earlier one although the RNG supplied fresh bytes"));
            }
        }
        let _ = drew_expected; // identity of nonce and drawn bytes is recorded by C15, not judged here
        earlier.push((cd, proof));
        if (cd, proof) != (honest.challenge_data, honest.proof) {
            held_back.push((honest.challenge_data, honest.proof));
        }
        challenges.push(after);
        label.push(if got { 'A' } else { 'R' });
    }
    Ok(label)
}

/// One fixed long history on `servers` (attempts go round-robin over the servers): honest / wrong proof / replay of the
/// pair accepted 1, 16, 255, 256 or 4096 attempts earlier / the other server's honest pair. Every verdict and every
/// refresh is judged as in `history`. A counter that saturates or wraps (attempt 256, 65536), a ring of remembered
/// challenges, or state shared between two server objects shows here and in no short history.
fn long_run(ss: &[&Session], seed: u64, n: usize) -> Result<u64, String> {
    let mut servers: Vec<SrpServer> = ss.iter().map(|s| s.server.clone()).collect();
    let mut seen: Vec<std::collections::HashSet<[u8; 16]>> = ss.iter().map(|s| [*s.server.reconnect_challenge_data()].into_iter().collect()).collect();
    let mut accepted_pairs: Vec<Vec<([u8; 16], [u8; 20])>> = vec![vec![]; ss.len()];
    let mut verdicts = 0u64;
    for i in 0..n {
        let si = i % ss.len();
        let s = ss[si];
        let current = *servers[si].reconnect_challenge_data();
        let cdraw = refmodel::ctr_array::<16>(seed, &format!("c05-long-{i}-c"));
        let (honest, _, _) = with_script(&cdraw, || s.client.calculate_reconnect_values(current));
        let honest = honest.map_err(|m| format!("attempt {i}: calculate_reconnect_values panicked: {m}"))?;
        let kind = (i / ss.len()) % 5;
        let (cd, proof, what) = match kind {
            0 | 3 => (honest.challenge_data, honest.proof, "honest".to_string()),
            1 => {
                let mut p = honest.proof;
                p[(i / 7) % 20] ^= 1 << (i % 8);
                (honest.challenge_data, p, "wrong proof".to_string())
            }
            2 => {
                let back = [1usize, 16, 255, 256, 4096][(i / (5 * ss.len())) % 5];
                let ap = &accepted_pairs[si];
                if ap.len() >= back {
                    let (d, p) = ap[ap.len() - back];
                    (d, p, format!("replay of the pair accepted {back} acceptances ago"))
                } else {
                    (honest.challenge_data, honest.proof, "honest".to_string())
                }
            }
            _ => {
                // the honest pair computed by ANOTHER session's client for ITS server's challenge
                let oi = (si + 1) % ss.len();
                if oi == si {
                    (honest.challenge_data, honest.proof, "honest".to_string())
                } else {
                    let oc = *servers[oi].reconnect_challenge_data();
                    let (o, _, _) = with_script(&cdraw, || ss[oi].client.calculate_reconnect_values(oc));
                    let o = o.map_err(|m| format!("attempt {i}: panicked: {m}"))?;
                    (o.challenge_data, o.proof, "another connection's honest pair".to_string())
                }
            }
        };
        let reference = reconnect_proof(&s.user_norm, &cd, &current, &s.k);
        let want = proof == reference;
        let refresh = refmodel::ctr_array::<16>(seed, &format!("c05-long-{i}-s"));
        let (got, _, _) = with_script(&refresh, || servers[si].verify_reconnection_attempt(cd, proof));
        let got = got.map_err(|m| format!("attempt {i} of a long history ({what}): verify_reconnection_attempt panicked: {m}"))?;
        if got != want {
            return Err(format!("attempt {i} of a long history on {} interleaved server(s) ({what}): server returned {got}, but the presented proof {} SHA1(U|client_data|current challenge|K)", ss.len(), if want { "equals" } else { "differs from" }));
        }
        let after = *servers[si].reconnect_challenge_data();
        if after == current {
            return Err(format!("attempt {i} of a long history ({what}, verdict {got}): the server challenge was not replaced"));
        }
        if !seen[si].insert(after) {
            return Err(format!("attempt {i} of a long history ({what}): the new challenge repeats an earlier one although the RNG supplied fresh bytes"));
        }
        for (oi, srv) in servers.iter().enumerate() {
            if oi != si && *srv.reconnect_challenge_data() == after {
                return Err(format!("attempt {i} of a long history: two server objects now offer the same challenge although the RNG supplied different bytes"));
            }
        }
        if got {
            accepted_pairs[si].push((cd, proof));
        }
        verdicts += 1;
    }
    Ok(verdicts)
}

pub fn run(tier: Tier, seed: u64) -> i32 {
    let report = Report::new("C05", tier, seed, "model_checking");
    let ss = sessions(tier, seed);
    // long fixed histories: one server, and three servers interleaved
    {
        let n = tier.pick(70_000usize, 300_000usize);
        // runs of consecutive rejected attempts of every length that a "lock out after N failures" limit or a narrow
        // failure counter would trip over, each followed by an honest attempt that must be accepted
        {
            let s = &ss[2];
            let mut server = s.server.clone();
            let mut n_run = 0u64;
            'runs: for (ri, run_len) in [1usize, 2, 3, 7, 8, 15, 16, 31, 32, 63, 64, 65, 127, 128, 255, 256, 257, 1000, 4096, 65_535, 65_536, 65_537].into_iter().enumerate() {
                for j in 0..run_len {
                    let ch = *server.reconnect_challenge_data();
                    let mut junk = [0u8; 20];
                    junk[j % 20] = 1 + (j % 250) as u8;
                    let (got, _, _) = with_script(&refmodel::ctr_array::<16>(seed, &format!("c05-run-{ri}-{j}")), || server.verify_reconnection_attempt(ch, junk));
                    n_run += 1;
                    if got != Ok(false) && junk != reconnect_proof(&s.user_norm, &ch, &ch, &s.k) {
                        report.violation(Violation { signature: "C05|failure-run|accepted-wrong-proof".into(), scenario: "failure-runs".into(), replay: json!({"seed": seed, "run_length": run_len, "position": j}), detail: json!({"message": format!("junk attempt {j} of a run of {run_len}: {got:?}")}) });
                        break 'runs;
                    }
                }
                let ch = *server.reconnect_challenge_data();
                let (honest, _, _) = with_script(&refmodel::ctr_array::<16>(seed, &format!("c05-run-{ri}-c")), || s.client.calculate_reconnect_values(ch));
                let ok = honest.ok().map(|h| with_script(&refmodel::ctr_array::<16>(seed, &format!("c05-run-{ri}-s")), || server.verify_reconnection_attempt(h.challenge_data, h.proof)).0);
                n_run += 1;
                if ok != Some(Ok(true)) {
                    report.violation(Violation { signature: "C05|failure-run|rejected-right-proof".into(), scenario: "failure-runs".into(), replay: json!({"seed": seed, "run_length": run_len, "session": s.name}), detail: json!({"message": format!("after {run_len} consecutive rejected attempts the honest client's proof for the challenge on offer is answered with {ok:?}")}) });
                    break 'runs;
                }
            }
            report.count("failure_run_attempts", n_run);
        }
        let plans: Vec<Vec<&Session>> = vec![vec![&ss[0]], vec![&ss[0], &ss[1], &ss[2]], vec![&ss[1], &ss[1]]];
        let results: Vec<(usize, Result<u64, String>)> = {
            use rayon::prelude::*;
            plans.par_iter().map(|p| (p.len(), long_run(p, seed, n))).collect()
        };
        for (k, r) in results {
            match r {
                Ok(v) => report.count("long_history_attempts", v),
                Err(msg) => {
                    let class = if msg.contains("not replaced") || msg.contains("same challenge") {
                        "challenge-not-refreshed"
                    } else if msg.contains("server returned true") {
                        "accepted-wrong-proof"
                    } else if msg.contains("server returned false") {
                        "rejected-right-proof"
                    } else if msg.contains("panicked") {
                        "panic"
                    } else {
                        "challenge-value"
                    };
                    report.violation(Violation { signature: format!("C05|long-history|{class}"), scenario: "long-reconnect-history".into(), replay: json!({"seed": seed, "servers_interleaved": k, "attempts": n, "rerun": "./check.sh C05 quick"}), detail: json!({ "message": msg }) });
                }
            }
        }
        report.require("long_history_attempts");
        report.space(&format!("three fixed histories of {n} attempts (one server; three servers of different accounts round-robin; two clones of one server) mixing honest, wrong, replayed (1/16/255/256/4096 acceptances back) and foreign pairs"));
    }
    // accounts with oddly shaped names: every history of length 3 with at most one deviation
    for s in odd_name_sessions(seed) {
        let (st, _outcomes, viols) = explore(Some(1), 3, |ch| history(&s, seed, 3, ch));
        report.count("odd_name_session_executions", st.executions);
        for (choices, msg) in viols {
            report.violation(Violation {
                signature: format!("C05|odd-name|{}", if msg.contains("server returned true") { "accepted-wrong-proof" } else if msg.contains("server returned false") { "rejected-right-proof" } else if msg.contains("client's reconnect proof") { "client-values" } else if msg.contains("not replaced") { "challenge-not-refreshed" } else { "other" }),
                scenario: "reconnect-history".into(),
                replay: json!({"seed": seed, "session": s.name, "history_length": 3, "deviation_bound": 1, "choices": choices, "session_key": hex(&s.k), "username": String::from_utf8_lossy(&s.user_norm)}),
                detail: json!({ "message": msg }),
            });
        }
    }
    report.require("odd_name_session_executions");
    // (length, deviation bound) plans
    let plans: Vec<(usize, usize)> = if tier == Tier::Thorough { vec![(8, 2), (4, 3), (12, 1)] } else { vec![(6, 2), (10, 1)] };
    let mut total_exec = 0u64;
    let mut distinct_outcomes = std::collections::BTreeSet::new();
    for (si, s) in ss.iter().enumerate() {
        for &(len, bound) in &plans {
            // deep plans only for the first session(s)
            if bound >= 3 && si >= 1 {
                continue;
            }
            if len >= 8 && bound == 2 && si >= 2 {
                continue;
            }
            let (st, outcomes, viols) = explore(Some(bound), 3, |ch| history(s, seed, len, ch));
            total_exec += st.executions;
            report.count("choice_points", st.choice_points);
            report.count(&format!("executions_len{len}_dev{bound}"), st.executions);
            for (o, n) in &outcomes {
                distinct_outcomes.insert(o.clone());
                if o.contains('A') && o.contains('R') {
                    report.count("histories_mixing_accept_and_reject", *n);
                }
                if !o.contains('R') && o != "VIOLATION" {
                    report.count("histories_all_accepted", *n);
                }
            }
            for (choices, msg) in viols {
                let class = if msg.contains("not replaced") {
                    "challenge-not-refreshed"
                } else if msg.contains("server returned true") {
                    "accepted-wrong-proof"
                } else if msg.contains("server returned false") {
                    "rejected-right-proof"
                } else if msg.contains("panicked") {
                    "panic"
                } else if msg.contains("client's reconnect proof") || msg.contains("client challenge") {
                    "client-values"
                } else {
                    "challenge-value"
                };
                report.violation(Violation {
                    signature: format!("C05|{class}"),
                    scenario: "reconnect-history".into(),
                    replay: json!({"seed": seed, "session": s.name, "history_length": len, "deviation_bound": bound, "choices": choices, "session_key": hex(&s.k), "username": String::from_utf8_lossy(&s.user_norm)}),
                    detail: json!({ "message": msg }),
                });
            }
        }
    }
    // structured multi-bit alterations of the reconnect proof (a folding / truncating / word-wise
    // comparison accepts patterns that no single-bit change reveals)
    let mut multi = 0u64;
    for s in &ss {
        let current = *s.server.reconnect_challenge_data();
        let (honest, _, _) = with_script(&[0x31; 16], || s.client.calculate_reconnect_values(current));
        let honest = match honest {
            Ok(h) => h,
            Err(_) => continue,
        };
        for alt in altered_proofs(&honest.proof, tier == Tier::Thorough) {
            let mut srv = s.server.clone();
            let (r, _, _) = with_script(&[0x32; 16], || srv.verify_reconnection_attempt(honest.challenge_data, alt));
            multi += 1;
            if r != Ok(false) {
                report.violation(Violation {
                    signature: "C05|accepted-wrong-proof".into(),
                    scenario: "multi-bit-proof-alterations".into(),
                    replay: json!({"session": s.name, "client_data": hex(&honest.challenge_data), "server_challenge": hex(&current), "presented": hex(&alt), "right_proof": hex(&honest.proof)}),
                    detail: json!({"message": format!("verify_reconnection_attempt returned {r:?} for a proof that differs from the right one in {} bit(s)", alt.iter().zip(honest.proof.iter()).map(|(x, y)| (x ^ y).count_ones()).sum::<u32>())}),
                });
                break;
            }
        }
        let mut srv = s.server.clone();
        if with_script(&[0x32; 16], || srv.verify_reconnection_attempt(honest.challenge_data, honest.proof)).0 != Ok(true) {
            report.violation(Violation { signature: "C05|rejected-right-proof".into(), scenario: "multi-bit-proof-alterations".into(), replay: json!({"session": s.name}), detail: json!({"message": "the honest reconnect proof is rejected"}) });
        }
    }
    report.count("multi_bit_alteration_cases", multi);
    total_exec += multi;
    report.count("executions", total_exec);
    report.require("histories_mixing_accept_and_reject");
    report.require("histories_all_accepted");
    report.set("distinct_outcomes", json!(distinct_outcomes.len()));
    let total_exec = total_exec + report.get("long_history_attempts");
    report.set("evaluations", json!(total_exec));
    report.set("distinct_nontrivial", json!(total_exec.saturating_sub(ss.len() as u64 * plans.len() as u64)));
    report.set("rule", json!("every history of the stated length in which at most d attempts/refreshes deviate from {honest proof for the current challenge, fresh refresh}; per attempt the adversary alphabet is {replay of each earlier pair, proof for each stale challenge, 40 wrong-key variants, 2 wrong-username variants, 160 proof bit flips, 128 client-data bit flips, right proof for 3 special client data, the honest pair of each earlier attempt that was held back then}, per refresh {fresh, repeat of each earlier challenge, all-zero, all-ones}, before each attempt {go on with the same server object, go on with a clone of it}; distinct_nontrivial = executions with at least one deviation"));
    report.set("states", json!(report.get("choice_points")));
    report.set("transitions", json!(report.get("choice_points")));
    report.set("traces_validated_against_impl", json!(total_exec));
    report.set("deviation_plans", json!(plans.iter().map(|(l, d)| format!("length {l}, <= {d} deviations")).collect::<Vec<_>>()));
    report.sample("history", json!({"attempts": ["honest (accepted)", "replay#0 (rejected: challenge moved on)", "honest (accepted)"], "refresh": ["fresh", "fresh", "fresh"]}));
    report.sample("history", json!({"attempts": ["honest (accepted)", "replay#0"], "refresh": ["repeat of challenge #0", "fresh"], "expected": "the replay is ACCEPTED because the (scripted) RNG re-issued the same challenge - the implementation keeps no other hidden state"}));
    report.set("exhaustive", json!(false));
    report.cap_hit("history length and deviation count bounded as listed in deviation_plans");
    report.space(&format!("{} sessions (credentials typed in another letter case than registered)", ss.len()));
    report.assume("the verdict oracle is proof == SHA1(U | client_data | current challenge | K) and nothing else; RNG quality is not part of this property");
    report.finish()
}

/// Replay of one recorded history (no explorer).
pub fn replay(r: &serde_json::Value) -> Result<String, String> {
    let seed = r["seed"].as_u64().unwrap_or(0);
    let name = r["session"].as_str().unwrap_or("s0");
    let mut ss = sessions(Tier::Thorough, seed);
    ss.extend(odd_name_sessions(seed));
    let s = ss.iter().find(|s| s.name == name).unwrap_or_else(|| mc::util::machinery_error("C05 replay: unknown session"));
    let choices: Vec<u32> = r["choices"].as_array().map(|a| a.iter().map(|c| c.as_u64().unwrap() as u32).collect()).unwrap_or_default();
    history(s, seed, r["history_length"].as_u64().unwrap_or(6) as usize, &mut Chooser::replay(&choices))
}
