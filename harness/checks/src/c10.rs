//! C10: Wrath server headers of both lengths round-trip and keep the stream in step.
//! E3: all 2^23 sizes x opcode alphabet, all 2^16 opcodes x size alphabet, both client decoding
//! paths, both server emitters. E1: mixed header sequences with exact dedup on the real objects.

use crate::ciphers;
use crate::common::*;
use mc::bfs::bfs;
use mc::report::{Report, Tier, Violation};
use mc::util::catch;
use rayon::prelude::*;
use refmodel::cipher::{wrath_server_header_plain, wrath_stream, Dir};
use serde_json::json;
use std::io::Cursor;
use std::sync::atomic::{AtomicU64, Ordering};
use wow_srp::wrath_header::{ClientDecrypterHalf, ServerEncrypterHalf, WrathServerAttempt};

fn viol(report: &Report, scenario: &str, class: &str, key: &[u8; 40], replay: serde_json::Value, msg: String) {
    report.violation(Violation {
        signature: format!("C10|{scenario}|{class}"),
        scenario: format!("wrath::{scenario}"),
        replay: json!({"session_key": hex(key), "case": replay}),
        detail: json!({ "message": msg }),
    });
}

/// One header through both emitters and both decoders, starting from the given objects (advanced in place).
/// `ks` is the reference keystream positioned at the same offset. Returns Err(class, message).
fn one_header(
    se: &mut ServerEncrypterHalf,
    cd: &mut ClientDecrypterHalf,
    ks: &mut refmodel::hash::Rc4,
    size: u32,
    opcode: u16,
) -> Result<usize, (&'static str, String)> {
    // emitters: slice and Write must agree in bytes and leave equal objects
    let mut se_w = se.clone();
    let emitted: Vec<u8> = catch(|| se.encrypt_server_header(size, opcode).to_vec()).map_err(|m| ("emit-panic", m))?;
    let mut sink: Vec<u8> = Vec::new();
    catch(|| se_w.write_encrypted_server_header(&mut sink, size, opcode))
        .map_err(|m| ("emit-write-panic", m))?
        .map_err(|e| ("emit-write-error", e.to_string()))?;
    if sink != emitted {
        return Err(("emitters-disagree", format!("slice emitter {} vs Write emitter {}", hex(&emitted), hex(&sink))));
    }
    // ... and through a writer that takes one byte per call (a socket buffer that is nearly full)
    {
        struct OneByte(Vec<u8>);
        impl std::io::Write for OneByte {
            fn write(&mut self, b: &[u8]) -> std::io::Result<usize> {
                if b.is_empty() {
                    return Ok(0);
                }
                self.0.push(b[0]);
                Ok(1)
            }
            fn flush(&mut self) -> std::io::Result<()> {
                Ok(())
            }
        }
        let mut se_t = se_w.clone();
        let mut t = OneByte(vec![]);
        let mut probe = se_w.clone();
        let next_typed = catch(|| probe.encrypt_server_header(size, opcode).to_vec()).map_err(|m| ("emit-panic", m))?;
        catch(|| se_t.write_encrypted_server_header(&mut t, size, opcode))
            .map_err(|m| ("emit-write-panic", m))?
            .map_err(|e| ("emit-write-error", format!("with a writer that accepts one byte per call: {e}")))?;
        if t.0 != next_typed {
            return Err(("emitters-disagree", format!("through a writer that accepts one byte per call the next header goes out as {}, the slice emitter gives {}", hex(&t.0), hex(&next_typed))));
        }
    }
    if se_w != *se && !ciphers::same_future(&se_w, se, 64, |o, d| o.encrypt(d)) {
        return Err(("emitters-disagree", "after slice vs Write emission the two encrypters no longer produce the same stream".into()));
    }
    let want_len = if size <= 0x7FFF { 4 } else { 5 };
    if emitted.len() != want_len {
        return Err(("length", format!("emitted {} bytes, expected {want_len}", emitted.len())));
    }
    // wire bytes under the reference keystream
    let mut plain = emitted.clone();
    ks.apply(&mut plain);
    let want_plain = wrath_server_header_plain(size, opcode);
    if plain != want_plain {
        return Err(("layout", format!("plaintext under reference keystream {} != layout {}", hex(&plain), hex(&want_plain))));
    }
    // decoder path A: read-based over a cursor with a sentinel behind the header
    let mut cd_a = cd.clone();
    let mut wire = emitted.clone();
    wire.push(0xAA);
    let mut cur = Cursor::new(&wire[..]);
    let h_a = catch(|| cd_a.read_and_decrypt_server_header(&mut cur))
        .map_err(|m| ("read-panic", m))?
        .map_err(|e| ("read-error", e.to_string()))?;
    if cur.position() as usize != emitted.len() {
        return Err(("consumed", format!("read path consumed {} bytes, {} were emitted", cur.position(), emitted.len())));
    }
    // decoder path A': the same bytes arriving one per read call (a TCP stream may fragment anywhere)
    {
        struct OneByOne<'a>(&'a [u8], usize);
        impl std::io::Read for OneByOne<'_> {
            fn read(&mut self, buf: &mut [u8]) -> std::io::Result<usize> {
                if buf.is_empty() || self.1 >= self.0.len() {
                    return Ok(0);
                }
                buf[0] = self.0[self.1];
                self.1 += 1;
                Ok(1)
            }
        }
        let mut cd_f = cd.clone();
        let mut r = OneByOne(&wire[..], 0);
        let h_f = catch(|| cd_f.read_and_decrypt_server_header(&mut r))
            .map_err(|m| ("read-panic", m))?
            .map_err(|e| ("read-error", format!("with a reader that delivers one byte per call: {e}")))?;
        if (h_f.size, h_f.opcode) != (h_a.size, h_a.opcode) || r.1 != emitted.len() {
            return Err(("fragmented-read", format!("with a reader that delivers one byte per call the header is size={:#x} opcode={:#x} after {} bytes; in one piece size={:#x} opcode={:#x} after {} bytes", h_f.size, h_f.opcode, r.1, h_a.size, h_a.opcode, emitted.len())));
        }
    }
    // decoder path B: attempt, then iff asked one more byte
    let first4: [u8; 4] = [emitted[0], emitted[1], emitted[2], emitted[3]];
    let h_b = match catch(|| cd.attempt_decrypt_server_header(first4)).map_err(|m| ("attempt-panic", m))? {
        WrathServerAttempt::Header(h) => {
            if emitted.len() != 4 {
                return Err(("two-step", "attempt returned a header for a 5-byte emission".into()));
            }
            h
        }
        WrathServerAttempt::AdditionalByteRequired => {
            if emitted.len() != 5 {
                return Err(("two-step", "attempt asked for another byte on a 4-byte emission".into()));
            }
            catch(|| cd.decrypt_large_server_header(emitted[4])).map_err(|m| ("large-panic", m))?
        }
    };
    if (h_a.size, h_a.opcode) != (size, opcode) {
        return Err(("recover-read", format!("read path recovered size={:#x} opcode={:#x}", h_a.size, h_a.opcode)));
    }
    if (h_b.size, h_b.opcode) != (size, opcode) {
        return Err(("recover-two-step", format!("two-step path recovered size={:#x} opcode={:#x}", h_b.size, h_b.opcode)));
    }
    if cd_a != *cd && !ciphers::same_future(&cd_a, cd, 64, |o, d| o.decrypt(d)) {
        return Err(("decoders-disagree", "after read path vs two-step path the two decrypters are no longer at the same stream position".into()));
    }
    Ok(emitted.len())
}

pub fn run(tier: Tier, seed: u64) -> i32 {
    let report = Report::new("C10", tier, seed, "model_checking");
    let key = refmodel::ctr_array::<40>(seed, "c10-key");
    let op_alpha: Vec<u16> = vec![0, 1, 0xFF, 0x100, 0x1EE, 0x7FFF, 0x8000, 0xFF00, 0xFFFF, 0x1234, 0x3412];
    let size_alpha: Vec<u32> = vec![0, 1, 0xFF, 0x100, 0x7FFE, 0x7FFF, 0x8000, 0x8001, 0xFFFF, 0x10000, 0x3FFFFF, 0x400000, 0x7F0000, 0x7FFFFF];

    // size list: the whole range in both tiers (it costs a few seconds)
    let sizes: Vec<u32> = (0..=0x7FFFFFu32).collect();
    let mut op_big = op_alpha.clone();
    for k in 0..16 {
        op_big.push(1u16 << k);
        op_big.push(!(1u16 << k));
    }
    op_big.sort();
    op_big.dedup();
    let mut size_big = size_alpha.clone();
    for k in 0..23 {
        size_big.push(1u32 << k);
        size_big.push((1u32 << k) - 1);
        size_big.push(0x7FFFFF & !(1u32 << k));
    }
    size_big.sort();
    size_big.dedup();
    let ops_for_sizes: Vec<u16> = if tier == Tier::Thorough { op_big.clone() } else { op_alpha.clone() };
    let evals = AtomicU64::new(0);
    let n_short = AtomicU64::new(0);
    let n_long = AtomicU64::new(0);
    let chunk = 1 << 14;
    sizes.par_chunks(chunk).for_each(|part| {
        // every segment runs on its own connection, headers back to back (so sequences are exercised too)
        let (mut se, _) = ciphers::wrath_server(&key).split();
        let (_, mut cd) = ciphers::wrath_client(&key).split();
        let mut ks = wrath_stream(&key, Dir::ServerToClient);
        let mut n = 0u64;
        let (mut ns_, mut nl) = (0u64, 0u64);
        for &size in part {
            for &op in &ops_for_sizes {
                match one_header(&mut se, &mut cd, &mut ks, size, op) {
                    Ok(l) => {
                        if l == 4 {
                            ns_ += 1
                        } else {
                            nl += 1
                        }
                    }
                    Err((class, msg)) => {
                        viol(&report, "size-sweep", class, &key, json!({"size": size, "opcode": op, "first_size_of_segment": part[0]}), msg);
                        return;
                    }
                }
                n += 1;
            }
        }
        evals.fetch_add(n, Ordering::Relaxed);
        n_short.fetch_add(ns_, Ordering::Relaxed);
        n_long.fetch_add(nl, Ordering::Relaxed);
    });
    report.count("size_sweep_headers", evals.load(Ordering::Relaxed));

    // all 2^16 opcodes x size alphabet
    let sizes_for_ops: Vec<u32> = if tier == Tier::Thorough { size_big.clone() } else { size_alpha.clone() };
    let evals2 = AtomicU64::new(0);
    (0..=0xFFFFu32).collect::<Vec<_>>().par_chunks(4096).for_each(|part| {
        let (mut se, _) = ciphers::wrath_server(&key).split();
        let (_, mut cd) = ciphers::wrath_client(&key).split();
        let mut ks = wrath_stream(&key, Dir::ServerToClient);
        let mut n = 0u64;
        let (mut ns_, mut nl) = (0u64, 0u64);
        for &op in part {
            for &size in &sizes_for_ops {
                match one_header(&mut se, &mut cd, &mut ks, size, op as u16) {
                    Ok(l) => {
                        if l == 4 {
                            ns_ += 1
                        } else {
                            nl += 1
                        }
                    }
                    Err((class, msg)) => {
                        viol(&report, "opcode-sweep", class, &key, json!({"size": size, "opcode": op, "first_opcode_of_segment": part[0]}), msg);
                        return;
                    }
                }
                n += 1;
            }
        }
        evals2.fetch_add(n, Ordering::Relaxed);
        n_short.fetch_add(ns_, Ordering::Relaxed);
        n_long.fetch_add(nl, Ordering::Relaxed);
    });
    report.count("opcode_sweep_headers", evals2.load(Ordering::Relaxed));
    // off-axis (size, opcode) pairs: sizes and opcodes whose bytes come from {00,01,12,45,7F,80,C3,FF} (all combinations)
    let bytes8: [u32; 8] = [0x00, 0x01, 0x12, 0x45, 0x7F, 0x80, 0xC3, 0xFF];
    let mut grid_sizes: Vec<u32> = vec![];
    for &a in &bytes8 {
        for &b in &bytes8 {
            for &c in &bytes8 {
                let s = (a & 0x7F) << 16 | b << 8 | c;
                grid_sizes.push(s);
            }
        }
    }
    grid_sizes.sort();
    grid_sizes.dedup();
    let mut grid_ops: Vec<u16> = vec![];
    for &a in &bytes8 {
        for &b in &bytes8 {
            grid_ops.push((a << 8 | b) as u16);
        }
    }
    let grid = AtomicU64::new(0);
    grid_sizes.par_chunks(16).for_each(|part| {
        let (mut se, _) = ciphers::wrath_server(&key).split();
        let (_, mut cd) = ciphers::wrath_client(&key).split();
        let mut ks = wrath_stream(&key, Dir::ServerToClient);
        let mut n = 0u64;
        for &size in part {
            for &op in &grid_ops {
                match one_header(&mut se, &mut cd, &mut ks, size, op) {
                    Ok(_) => n += 1,
                    Err((class, msg)) => {
                        viol(&report, "pair-grid", class, &key, json!({"size": size, "opcode": op, "first_size_of_segment": part[0]}), msg);
                        return;
                    }
                }
            }
        }
        grid.fetch_add(n, Ordering::Relaxed);
    });
    report.count("off_axis_pair_headers", grid.load(Ordering::Relaxed));
    report.space("off-axis pairs: every size x opcode whose bytes are drawn from {00,01,12,45,7F,80,C3,FF} (about 450 sizes x 64 opcodes)");

    // the COMBINED objects (ServerCrypto / ClientCrypto) on a strided subset: emitters and decoders alternate
    let comb = AtomicU64::new(0);
    let stride = tier.pick(5usize, 1usize);
    let comb_sizes: Vec<u32> = (0..=0x7FFFFFu32).step_by(stride).collect();
    comb_sizes.par_chunks(1 << 14).for_each(|part| {
        let mut sc = ciphers::wrath_server(&key);
        let mut cc = ciphers::wrath_client(&key);
        let mut ks = wrath_stream(&key, Dir::ServerToClient);
        let mut n = 0u64;
        for (i, &size) in part.iter().enumerate() {
            let op: u16 = [0x1EEu16, 0xFFFF, 0x8000, 0x0001][i % 4];
            let r = catch(|| {
                let emitted: Vec<u8> = if i % 2 == 0 {
                    sc.encrypt_server_header(size, op).to_vec()
                } else {
                    let mut v = vec![];
                    sc.write_encrypted_server_header(&mut v, size, op).map_err(|e| e.to_string())?;
                    v
                };
                let mut plain = emitted.clone();
                ks.apply(&mut plain);
                if plain != wrath_server_header_plain(size, op) {
                    return Err(format!("combined ServerCrypto emitted {} whose plaintext {} is not the layout for size={size:#x} opcode={op:#x}", hex(&emitted), hex(&plain)));
                }
                let h = if i % 3 == 0 {
                    // the two steps of a large header go through the same or through different handles of the one object
                    // (the combined object itself, its decrypter() accessor)
                    let first = if i % 4 < 2 { cc.attempt_decrypt_server_header([emitted[0], emitted[1], emitted[2], emitted[3]]) } else { cc.decrypter().attempt_decrypt_server_header([emitted[0], emitted[1], emitted[2], emitted[3]]) };
                    match first {
                        WrathServerAttempt::Header(h) => h,
                        WrathServerAttempt::AdditionalByteRequired => {
                            let fifth = *emitted.get(4).ok_or("attempt asks for a fifth byte of a 4-byte header")?;
                            if i % 2 == 0 { cc.decrypt_large_server_header(fifth) } else { cc.decrypter().decrypt_large_server_header(fifth) }
                        }
                    }
                } else {
                    cc.read_and_decrypt_server_header(Cursor::new(&emitted[..])).map_err(|e| e.to_string())?
                };
                if (h.size, h.opcode) != (size, op) {
                    return Err(format!("combined ClientCrypto decoded size={:#x} opcode={:#x} for size={size:#x} opcode={op:#x}", h.size, h.opcode));
                }
                Ok(())
            });
            match r {
                Ok(Ok(())) => n += 1,
                Ok(Err(m)) => {
                    viol(&report, "combined-objects", "mismatch", &key, json!({"size": size, "opcode": op, "first_size_of_segment": part[0], "index_in_segment": i}), m);
                    return;
                }
                Err(m) => {
                    viol(&report, "combined-objects", "panic", &key, json!({"size": size, "opcode": op}), m);
                    return;
                }
            }
        }
        comb.fetch_add(n, Ordering::Relaxed);
    });
    report.count("combined_object_headers", comb.load(Ordering::Relaxed));
    report.require("short_headers");
    report.require("long_headers");
    report.count("short_headers", n_short.load(Ordering::Relaxed));
    report.count("long_headers", n_long.load(Ordering::Relaxed));

    // E1: header sequences on one connection, exact dedup on the real (server encrypter, client decrypter) pair
    #[derive(Clone, Copy, Debug)]
    struct Act {
        size: u32,
        opcode: u16,
        two_step: bool,
    }
    let mut actions = vec![];
    for &(size, opcode) in &[(0u32, 0u16), (0x7FFF, 0xFFFF), (13, 0x1EE), (0x8000, 0), (0x7FFFFF, 0xFFFF), (0x12345, 0x3412)] {
        for two_step in [false, true] {
            actions.push(Act { size, opcode, two_step });
        }
    }
    let depth = tier.pick(6usize, 9usize);
    let keys = key40s(seed, 1);
    for k in keys.iter().take(tier.pick(2, 4)) {
        let (se, _) = ciphers::wrath_server(k).split();
        let (_, cd) = ciphers::wrath_client(k).split();
        let r = bfs(vec![(se, cd, 0u32)], &actions, Some(depth), |s, a| {
            let (se, cd, off) = s;
            let (mut se, mut cd) = (se.clone(), cd.clone());
            let mut ks = wrath_stream(k, Dir::ServerToClient);
            ks.skip(*off as usize);
            let emitted: Vec<u8> = se.encrypt_server_header(a.size, a.opcode).to_vec();
            let mut plain = emitted.clone();
            ks.apply(&mut plain);
            if plain != wrath_server_header_plain(a.size, a.opcode) {
                return Err(format!("sequence: header size={:#x} opcode={:#x} at stream offset {off}: wire plaintext {} != layout", a.size, a.opcode, hex(&plain)));
            }
            let h = if a.two_step {
                match cd.attempt_decrypt_server_header([emitted[0], emitted[1], emitted[2], emitted[3]]) {
                    WrathServerAttempt::Header(h) => h,
                    WrathServerAttempt::AdditionalByteRequired => {
                        if emitted.len() < 5 {
                            return Err(format!("sequence: attempt asks for a 5th byte of a 4-byte header at offset {off}"));
                        }
                        // every other long header is completed on a clone taken after the attempt (the original is dropped)
                        if off % 2 == 1 {
                            cd = cd.clone();
                        }
                        cd.decrypt_large_server_header(emitted[4])
                    }
                }
            } else {
                let mut cur = Cursor::new(&emitted[..]);
                match cd.read_and_decrypt_server_header(&mut cur) {
                    Ok(h) => {
                        if cur.position() as usize != emitted.len() {
                            return Err(format!("sequence: read path consumed {} of {} bytes at offset {off}", cur.position(), emitted.len()));
                        }
                        h
                    }
                    Err(e) => return Err(format!("sequence: read path failed at offset {off}: {e}")),
                }
            };
            if (h.size, h.opcode) != (a.size, a.opcode) {
                return Err(format!("sequence: at offset {off} sent size={:#x} opcode={:#x}, client decoded size={:#x} opcode={:#x}", a.size, a.opcode, h.size, h.opcode));
            }
            Ok(Some((se, cd, off + emitted.len() as u32)))
        });
        report.count("states", r.states);
        report.count("transitions", r.transitions);
        report.count("sequence_states", r.states);
        report.set("sequence_depth", json!(depth));
        if let Some((p, m)) = r.violation {
            viol(&report, "header-sequences", "sequence", k, json!(p.iter().map(|a| json!({"size": a.size, "opcode": a.opcode, "two_step": a.two_step})).collect::<Vec<_>>()), m);
        }
    }
    let total = evals.load(Ordering::Relaxed) + evals2.load(Ordering::Relaxed) + comb.load(Ordering::Relaxed) + grid.load(Ordering::Relaxed);
    report.count("transitions", total);
    report.count("states", total + 1);
    report.set("traces_validated_against_impl", json!(report.get("transitions")));
    report.set("evaluations", json!(total + report.get("sequence_states")));
    report.set("distinct_nontrivial", json!(total));
    report.set("rule", json!("sweeps: (size, opcode) pairs enumerated from ranges/alphabets (distinct by construction), each executed on a running connection through both emitters and both decoders and compared with the reference layout under the reference keystream; sequences: BFS over (server encrypter, client decrypter, offset) with 12 actions; distinct_nontrivial = distinct (size, opcode) header round trips"));
    report.sample("header", json!({"size": 0x8000, "opcode": 0x1EE, "plaintext_layout": hex(&wrath_server_header_plain(0x8000, 0x1EE)), "emitted_len": 5}));
    report.sample("header", json!({"size": 0x7FFF, "opcode": 0x1EE, "plaintext_layout": hex(&wrath_server_header_plain(0x7FFF, 0x1EE)), "emitted_len": 4}));
    report.space(&format!("all 2^23 sizes 0..=0x7FFFFF x {} opcodes; all 2^16 opcodes x {} sizes; both emitters, both decoders", ops_for_sizes.len(), sizes_for_ops.len()));
    report.space(&format!("all header sequences up to depth {depth} over 6 (size, opcode) representatives x 2 decoding paths, exact dedup on the real object pair"));
    report.assume("the full 2^23 x 2^16 product is not enumerated; each dimension is closed against an alphabet of the other");
    report.finish()
}

/// Replay of one recorded (size, opcode) header on a fresh connection through both emitters and both decoders.
pub fn replay(r: &serde_json::Value) -> Option<Result<String, String>> {
    let key = mc::util::unhex_n::<40>(r["session_key"].as_str()?);
    let c = &r["case"];
    let (size, op) = (c["size"].as_u64()? as u32, c["opcode"].as_u64()? as u16);
    let (mut se, _) = ciphers::wrath_server(&key).split();
    let (_, mut cd) = ciphers::wrath_client(&key).split();
    let mut ks = wrath_stream(&key, Dir::ServerToClient);
    // replay the segment up to the recorded header when its start is known
    if let Some(first) = c["first_size_of_segment"].as_u64() {
        let first = first as u32;
        if first <= size && size - first < (1 << 14) {
            for s in first..size {
                for &o in &[0u16, 1, 0xFF, 0x100, 0x1EE, 0x7FFF, 0x8000, 0xFF00, 0xFFFF, 0x1234, 0x3412] {
                    let _ = one_header(&mut se, &mut cd, &mut ks, s, o);
                }
            }
        }
    }
    Some(one_header(&mut se, &mut cd, &mut ks, size, op).map(|l| format!("{l}-byte header round-trips")).map_err(|(c, m)| format!("{c}: {m}")))
}
