//! C14: peer-controlled bytes can never crash the server or the client.
//! E3 over adversarial alphabets (incl. algebraically targeted values) + E1 over header byte
//! sequences; every public call wrapped in catch_unwind; results compared with the reference
//! model wherever it is defined.

use crate::ciphers;
use crate::common::*;
use mc::bfs::bfs;
use mc::report::{Report, Tier, Violation};
use mc::util::catch;
use rayon::prelude::*;
use refmodel::big::U;
use refmodel::srp;
use serde_json::json;
use std::io::Cursor;
use std::sync::atomic::{AtomicU64, Ordering};
use wow_srp::client::SrpClientChallenge;
use wow_srp::server::SrpVerifier;
use wow_srp::verif_hooks;
use wow_srp::{PublicKey, GENERATOR, LARGE_SAFE_PRIME_LITTLE_ENDIAN};

fn viol(report: &Report, side: &str, class: &str, replay: serde_json::Value, msg: String) {
    report.violation(Violation { signature: format!("C14|{side}|{class}"), scenario: format!("{side}::adversarial-input"), replay, detail: json!({ "message": msg }) });
}

/// 32-byte values with k zero bytes at the low or high end.
fn zero_ended(seed: u64) -> Vec<[u8; 32]> {
    let mut v = vec![];
    for k in 1..=31usize {
        let mut lo = refmodel::ctr_array::<32>(seed, &format!("ze-lo-{k}")).map(|b| b | 1);
        for b in lo.iter_mut().take(k) {
            *b = 0;
        }
        lo[31] &= 0x7F;
        v.push(lo);
        let mut hi = refmodel::ctr_array::<32>(seed, &format!("ze-hi-{k}")).map(|b| b | 1);
        for b in hi.iter_mut().skip(32 - k) {
            *b = 0;
        }
        v.push(hi);
    }
    v
}

fn adversarial_keys(seed: u64, full: bool) -> Vec<[u8; 32]> {
    let mut p255 = [0u8; 32];
    p255[31] = 0x80;
    let mut v: Vec<[u8; 32]> = vec![le32_from_u64(1), le32_from_u64(2), le32_from_u64(3), n_plus(-1), n_plus(1), n_plus(-2), p255, [0xFF; 32], le32_from_u64(183), le32_from_u64(256)];
    let ze = zero_ended(seed);
    if full {
        v.extend(ze);
        v.extend(private_keys(seed, true));
    } else {
        v.extend(ze.into_iter().step_by(5));
        v.extend(private_keys(seed, false));
    }
    v.retain(|k| PublicKey::from_le_bytes(*k).is_ok());
    v.sort();
    v.dedup();
    v
}

pub fn run(tier: Tier, seed: u64) -> i32 {
    let report = Report::new("C14", tier, seed, "model_checking");
    let n = srp::n_builtin();
    let full = true; // the whole alphabet costs a few seconds, so both tiers use it
    let mut keys = adversarial_keys(seed, full);
    if tier == Tier::Thorough {
        for i in 0..64 {
            keys.push(refmodel::ctr_array::<32>(seed, &format!("c14-extra-{i}")));
        }
        keys.retain(|k| PublicKey::from_le_bytes(*k).is_ok());
    }
    let calls = AtomicU64::new(0);
    let refused = AtomicU64::new(0);
    let accepted = AtomicU64::new(0);

    // ---------------- server side ----------------
    // stored verifiers that are not multiples of N
    let mut verifiers: Vec<[u8; 32]> = vec![le32_from_u64(1), n_plus(-1), [0xFF; 32], le32_from_u64(2), refmodel::ctr_array::<32>(seed, "c14-v0")];
    for z in zero_ended(seed).into_iter().step_by(if full { 3 } else { 16 }) {
        verifiers.push(z);
    }
    // a proper verifier from credentials
    let salt0 = refmodel::ctr_array::<32>(seed, "c14-salt");
    verifiers.push(srp::verifier(b"ALICE", b"PASSWORD123", &salt0, 7, &n).to_le_padded::<32>());
    verifiers.retain(|v| !U::from_le_bytes(v).rem(&n).is_zero());
    let b_alpha: Vec<[u8; 32]> = if full { private_keys(seed, true) } else { vec![le32_from_u64(1), le32_from_u64(2), n_plus(-1), [0xFF; 32], ordinary_key(seed, "c14-b")] };
    let jobs: Vec<(usize, usize)> = (0..verifiers.len()).flat_map(|v| (0..b_alpha.len()).map(move |b| (v, b))).collect();
    jobs.par_iter().for_each(|&(vi, bi)| {
        let v = verifiers[vi];
        let b = b_alpha[bi];
        let vv = U::from_le_bytes(&v);
        // the server's own B (reference): if it is congruent 0 mod N the documented panic applies - skip
        let b_pub = srp::server_public(&vv, &U::from_le_bytes(&b), 7, &n);
        if b_pub.is_zero() {
            return;
        }
        let b_pub_le = b_pub.to_le_padded::<32>();
        // targeted A values for this (v, b): A = N-1, 1, and v^-1 style values
        let mut a_list = keys.clone();
        a_list.push(b_pub_le); // reflection: the client sends back the server's own public key
        a_list.push(b_pub.add(&U::from_u64(1)).rem(&n).to_le_padded::<32>());
        a_list.push(vv.rem(&n).inv_prime(&n).to_le_padded::<32>());
        a_list.push(U::submod(&n, &vv.rem(&n).inv_prime(&n), &n).to_le_padded::<32>());
        for a_pub in &a_list {
            let ak = match PublicKey::from_le_bytes(*a_pub) {
                Ok(k) => k,
                Err(_) => continue,
            };
            // reference: what M1 would be right for this A
            let u = U::from_le_bytes(&srp::u_bytes(a_pub, &b_pub_le));
            let s = srp::server_s(&U::from_le_bytes(a_pub), &vv, &u, &U::from_le_bytes(&b), &n).to_le_padded::<32>();
            let k = srp::interleave(&s);
            let right_m1 = k.map(|k| srp::m1(b"ALICE", &salt0, a_pub, &b_pub_le, &k, 7, &srp::n_builtin_le()));
            let mut m1s: Vec<[u8; 20]> = vec![[0u8; 20], [0xFF; 20], refmodel::ctr_array::<20>(seed, "c14-m1")];
            if let Some(m) = right_m1 {
                m1s.push(m);
            }
            for m1 in m1s {
                if !taken_as_is(Pinned::ServerKey, &b) {
                    NOT_OWNED.fetch_add(1, Ordering::Relaxed);
                    continue;
                }
                let mut script = b.to_vec();
                script.extend_from_slice(&[0x77; 16]);
                let (r, _, _) = with_script(&script, || {
                    let ver = SrpVerifier::from_database_values(ns("alice"), v, salt0);
                    let proof = ver.into_proof();
                    let sent_b = *proof.server_public_key();
                    let res = proof.into_server(ak, m1);
                    (sent_b, res)
                });
                calls.fetch_add(1, Ordering::Relaxed);
                let rp = || json!({"verifier": hex(&v), "b": hex(&b), "A": hex(a_pub), "M1": hex(&m1), "salt": hex(&salt0), "username": "alice"});
                match r {
                    Err(msg) => {
                        viol(&report, "server", "into_server-panic", rp(), format!("server panicked on a peer-controlled value: {msg}"));
                        return;
                    }
                    Ok((sent_b, res)) => {
                        if sent_b != b_pub_le {
                            viol(&report, "server", "value-mismatch", rp(), format!("B {} != reference {}", hex(&sent_b), hex(&b_pub_le)));
                            return;
                        }
                        let want_ok = right_m1 == Some(m1);
                        match res {
                            Ok((mut server, _m2)) => {
                                accepted.fetch_add(1, Ordering::Relaxed);
                                if right_m1.is_some() && !want_ok {
                                    viol(&report, "server", "accepted-wrong-proof", rp(), "server accepted a proof that differs from the reference".into());
                                    return;
                                }
                                // history: reconnect attempts with adversarial values
                                for (cd, pr) in [([0u8; 16], [0u8; 20]), ([0xFF; 16], [0xFF; 20]), (refmodel::ctr_array::<16>(seed, "c14-cd"), refmodel::ctr_array::<20>(seed, "c14-pr"))] {
                                    let (rr, _, _) = with_script(&[0x42; 16], || server.verify_reconnection_attempt(cd, pr));
                                    calls.fetch_add(1, Ordering::Relaxed);
                                    match rr {
                                        Err(msg) => {
                                            viol(&report, "server", "reconnect-panic", rp(), format!("verify_reconnection_attempt panicked: {msg}"));
                                            return;
                                        }
                                        Ok(true) => {
                                            viol(&report, "server", "reconnect-accepted-garbage", rp(), "garbage reconnect proof accepted".into());
                                            return;
                                        }
                                        Ok(false) => {}
                                    }
                                }
                            }
                            Err(_) => {
                                refused.fetch_add(1, Ordering::Relaxed);
                                if want_ok {
                                    viol(&report, "server", "refused-right-proof", rp(), "server refused the reference proof".into());
                                    return;
                                }
                            }
                        }
                    }
                }
            }
        }
    });
    // a long run of rejected reconnect attempts on one session (then an accepted one, then more): any
    // narrow attempt counter overflows here
    {
        let inp = LoginInput { reg_user: "alice", reg_pass: "password123", typed_user: "alice", typed_pass: "password123", salt: salt0, b: ordinary_key(seed, "c14-lb"), a: ordinary_key(seed, "c14-la"), storage_roundtrip: false };
        match real_login(&inp) {
            Ok((rl, mut server, client)) => {
                let total = tier.pick(66_000u32, 200_000u32);
                let r = catch(|| {
                    for i in 0..total {
                        if server.verify_reconnection_attempt([i as u8; 16], [(i >> 8) as u8; 20]) {
                            return Err(format!("garbage reconnect attempt #{i} accepted"));
                        }
                        if i % 20_011 == 20_010 {
                            let v = client.calculate_reconnect_values(*server.reconnect_challenge_data());
                            if !server.verify_reconnection_attempt(v.challenge_data, v.proof) {
                                return Err(format!("honest reconnect refused after {i} rejected attempts"));
                            }
                        }
                    }
                    Ok(())
                });
                calls.fetch_add(total as u64, Ordering::Relaxed);
                match r {
                    Ok(Ok(())) => {}
                    Ok(Err(m)) => viol(&report, "server", "long-reconnect-run", json!({"session_key": hex(&rl.k_server)}), m),
                    Err(m) => viol(&report, "server", "reconnect-panic-after-many-attempts", json!({"attempts": total}), format!("verify_reconnection_attempt panicked during a run of {total} rejected attempts: {m}")),
                }
            }
            Err(LoginFail::Redrawn) => report.count("long_run_skipped_library_draws_again", 1),
            Err(e) => viol(&report, "server", "honest-login-fails", json!({}), format!("{e:?}")),
        }
    }
    report.count("server_calls", calls.load(Ordering::Relaxed));

    // ---------------- client side (built-in group) ----------------
    let ccalls = AtomicU64::new(0);
    let s_zero_cases = AtomicU64::new(0);
    let cred_alpha: Vec<(&str, &str)> = if full { vec![("A", "A"), ("alice", "password123"), ("0123456789abcdef", "x")] } else { vec![("alice", "password123")] };
    let salt_alpha: Vec<[u8; 32]> = if full { salts(seed, true) } else { vec![[0u8; 32], refmodel::ctr_array::<32>(seed, "c14-cs")] };
    let a_alpha: Vec<[u8; 32]> = if full { private_keys(seed, true) } else { vec![le32_from_u64(1), le32_from_u64(2), n_plus(-1), [0xFF; 32], ordinary_key(seed, "c14-a")] };
    let (nc, nsalt, na) = (cred_alpha.len(), salt_alpha.len(), a_alpha.len());
    let cjobs: Vec<(usize, usize, usize)> = (0..nc).flat_map(|c| (0..nsalt).flat_map(move |s| (0..na).map(move |a| (c, s, a)))).collect();
    cjobs.par_iter().for_each(|&(ci, si, ai)| {
        let (user, pass) = cred_alpha[ci];
        let salt = salt_alpha[si];
        let a = a_alpha[ai];
        let (un, pn) = (refmodel::misc::normalize(user).unwrap(), refmodel::misc::normalize(pass).unwrap());
        let aa = U::from_le_bytes(&a);
        let a_pub = srp::client_public(&aa, 7, &n);
        if a_pub.is_zero() {
            return;
        }
        let a_pub_le = a_pub.to_le_padded::<32>();
        let x = U::from_le_bytes(&srp::x_bytes(&un, &pn, &salt));
        let kv = U::from_u64(3).mul(&U::from_u64(7).modpow(&x, &n)).rem(&n);
        // targeted B: k*v (S = 0), k*v +- 1, k*v + 2^(8j), and the general adversarial alphabet
        let mut b_list: Vec<([u8; 32], &str)> = keys.iter().map(|k| (*k, "alphabet")).collect();
        b_list.push((kv.to_le_padded::<32>(), "B = k*v mod N (forces S = 0)"));
        b_list.push((kv.add(&U::from_u64(1)).rem(&n).to_le_padded::<32>(), "k*v + 1 (S = 1)"));
        b_list.push((U::submod(&kv, &U::from_u64(1), &n).to_le_padded::<32>(), "k*v - 1 (base = -1)"));
        for j in [1usize, 2, 8, 16, 31] {
            let mut p = vec![0u8; 33];
            p[j] = 1;
            b_list.push((kv.add(&U::from_le_bytes(&p)).rem(&n).to_le_padded::<32>(), "k*v + 2^(8j)"));
        }
        for (b_pub, what) in &b_list {
            let bk = match PublicKey::from_le_bytes(*b_pub) {
                Ok(k) => k,
                Err(_) => continue,
            };
            let u = U::from_le_bytes(&srp::u_bytes(&a_pub_le, b_pub));
            let s = srp::client_s(&U::from_le_bytes(b_pub), &x, &aa, &u, 7, &n).to_le_padded::<32>();
            let k = srp::interleave(&s);
            if k.is_none() {
                s_zero_cases.fetch_add(1, Ordering::Relaxed);
            }
            let want_m1 = k.map(|k| srp::m1(&un, &salt, &a_pub_le, b_pub, &k, 7, &srp::n_builtin_le()));
            let right_m2 = match (k, want_m1) {
                (Some(k), Some(m)) => Some(srp::m2(&a_pub_le, &m, &k)),
                _ => None,
            };
            let mut m2s: Vec<[u8; 20]> = vec![[0u8; 20], [0xFF; 20]];
            if let Some(m) = right_m2 {
                m2s.push(m);
            }
            for m2 in m2s {
                if !taken_as_is(Pinned::ClientKey, &a) {
                    NOT_OWNED.fetch_add(1, Ordering::Relaxed);
                    continue;
                }
                let (r, _, _) = with_script(&a, || {
                    let c = SrpClientChallenge::new(ns(user), ns(pass), GENERATOR, LARGE_SAFE_PRIME_LITTLE_ENDIAN, bk, salt);
                    let (ap, m1) = (*c.client_public_key(), *c.client_proof());
                    let res = c.verify_server_proof(m2);
                    let rec = res.as_ref().ok().map(|cl| {
                        let r1 = cl.calculate_reconnect_values([0u8; 16]);
                        let r2 = cl.calculate_reconnect_values([0xFF; 16]);
                        (r1.proof, r2.proof)
                    });
                    (ap, m1, res.map(|cl| *cl.session_key()), rec)
                });
                ccalls.fetch_add(1, Ordering::Relaxed);
                let rp = || json!({"username": user, "password": pass, "salt": hex(&salt), "a": hex(&a), "B": hex(b_pub), "B_kind": what, "M2": hex(&m2)});
                match r {
                    Err(msg) => {
                        let class = if k.is_none() { "client-new-panic-S-zero" } else { "client-panic" };
                        viol(&report, "client", class, rp(), format!("client panicked on a server-controlled value ({what}): {msg}"));
                        break;
                    }
                    Ok((ap, m1, res, _rec)) => {
                        if ap != a_pub_le {
                            viol(&report, "client", "value-mismatch", rp(), format!("A {} != reference {}", hex(&ap), hex(&a_pub_le)));
                            break;
                        }
                        if let Some(wm1) = want_m1 {
                            if m1 != wm1 {
                                viol(&report, "client", "value-mismatch", rp(), format!("M1 {} != reference {}", hex(&m1), hex(&wm1)));
                                break;
                            }
                            let want_ok = right_m2 == Some(m2);
                            if res.is_ok() != want_ok {
                                viol(&report, "client", if want_ok { "refused-right-proof" } else { "accepted-wrong-proof" }, rp(), format!("verify_server_proof returned {:?}", res.map(|k| hex(&k))));
                                break;
                            }
                        }
                    }
                }
            }
        }
    });
    report.count("client_calls", ccalls.load(Ordering::Relaxed));
    report.require("client_cases_where_S_is_zero");
    report.count("client_cases_where_S_is_zero", s_zero_cases.load(Ordering::Relaxed));

    // ---------------- seam level: interleave on all 33 zero-byte shapes including S = 0 ----------------
    let mut seam = 0u64;
    for z in 0..=32usize {
        let mut s = [0x5Bu8; 32];
        for b in s.iter_mut().take(z) {
            *b = 0;
        }
        if let Err(m) = catch(|| verif_hooks::interleave(s)) {
            viol(&report, "seam", if z == 32 { "interleave-panic-S-zero" } else { "interleave-panic" }, json!({"S_le": hex(&s), "low_zero_bytes": z}), format!("interleave panicked with {z} low-order zero bytes: {m}"));
        }
        seam += 1;
    }
    report.count("seam_interleave_shapes", seam);

    // ---------------- account names are peer-supplied text: every constructor answers Ok or Err ----------------
    {
        use std::convert::TryFrom;
        use wow_srp::normalized_string::NormalizedString as NS;
        let mut names: Vec<String> = vec!["".into(), " ".into(), "\0".into(), "A\0".into(), "\u{7f}".into(), "é".into(), "ééééééééé".into(), "€€€€€€".into(), "😀😀😀😀😀".into(), "a😀".into(), "aaaaaaaaaaaaaaaé".into(), "éaaaaaaaaaaaaaaa".into(), "aaaaaaaaaaaaaaaaé".into(), "\u{feff}alice".into(), "ａｌｉｃｅ".into(), "ß".into(), "ǅ".into(), "İ".into()];
        for l in [15usize, 16, 17, 31, 32, 33, 255, 256, 257, 272, 65_535, 65_536, 65_537] {
            names.push("x".repeat(l));
            names.push("é".repeat(l / 2));
            let mut s = "y".repeat(l.saturating_sub(1));
            s.push('€');
            names.push(s);
        }
        for cp in [0x7Fu32, 0x80, 0x81, 0x9F, 0xA0, 0xFF, 0x100, 0x141, 0x7FF, 0x800, 0xFFFF, 0x1_0000, 0x10_FFFF] {
            if let Some(c) = char::from_u32(cp) {
                for l in 1..=17usize {
                    names.push(std::iter::repeat(c).take(l).collect());
                    let mut s = "b".repeat(l - 1);
                    s.push(c);
                    names.push(s);
                }
            }
        }
        let mut n_names = 0u64;
        for nm in &names {
            // whatever a constructor accepts is then USED the way the server uses a name: viewed, printed, copied, registered
            let use_it = |r: Result<NS, wow_srp::error::NormalizedStringError>| {
                if let Ok(n) = r {
                    let _ = n.as_ref().len();
                    let _ = format!("{n}");
                    let c = n.clone();
                    let _ = SrpVerifier::from_username_and_password(c, ns("pw"));
                }
            };
            let rs: [(&str, Result<(), String>); 5] = [
                ("new", catch(|| use_it(NS::new(nm.as_str())))),
                ("from_str", catch(|| use_it(NS::from_str(nm.as_str())))),
                ("from_string", catch(|| use_it(NS::from_string(nm.clone())))),
                ("TryFrom<&str>", catch(|| use_it(NS::try_from(nm.as_str())))),
                ("TryFrom<String>", catch(|| use_it(NS::try_from(nm.clone())))),
            ];
            for (ctor, r) in rs {
                n_names += 1;
                if let Err(m) = r {
                    viol(&report, "name", "constructor-panic", json!({"constructor": ctor, "name_utf8_hex": hex(&nm.as_bytes()[..nm.len().min(64)]), "name_bytes": nm.len(), "name_chars": nm.chars().count()}), format!("NormalizedString::{ctor} panicked on a {}-byte / {}-character name: {m}", nm.len(), nm.chars().count()));
                }
            }
        }
        report.count("hostile_name_constructor_calls", n_names);
    }

    // ---------------- world login: arbitrary proofs and seeds ----------------
    let mut world = 0u64;
    // the peer chooses its seed knowing ours: every pair of {0, 1, 2^32-1, ...} incl. the peer ECHOING our own seed
    // (our seed is pinned through the RNG script)
    let wseeds = [0u32, 1, 0xFFFF_FFFF, 0xDEAD_BEEF, 0x8000_0000];
    let zero_key = [0u8; 40];
    for own in wseeds {
        for seedv in wseeds {
            for proof in [[0u8; 20], [0xFF; 20], refmodel::ctr_array::<20>(seed, "c14-wp")] {
                for key in key40s(seed, 1).into_iter().chain([zero_key, [0xFF; 40]]) {
                    for user in ["A", "0123456789ABCDEF", " ", "'\"\\"] {
                        let u = ns(user);
                        let sc = own.to_le_bytes();
                        let r1 = with_script(&sc, || wow_srp::vanilla_header::ProofSeed::new().into_server_header_crypto(&u, key, proof, seedv).is_ok()).0;
                        let r2 = with_script(&sc, || wow_srp::tbc_header::ProofSeed::new().into_server_header_crypto(&u, key, proof, seedv).is_ok()).0;
                        let r3 = with_script(&sc, || wow_srp::wrath_header::ProofSeed::new().into_server_header_crypto(&u, key, proof, seedv).is_ok()).0;
                        let r4 = with_script(&sc, || wow_srp::wrath_header::ProofSeed::new().into_client_header_crypto(&u, key, seedv).0).0;
                        let r5 = with_script(&sc, || wow_srp::vanilla_header::ProofSeed::new().into_client_header_crypto(&u, key, seedv).0).0;
                        let r6 = with_script(&sc, || wow_srp::tbc_header::ProofSeed::new().into_client_header_crypto(&u, key, seedv).0).0;
                        world += 6;
                        for (name, r) in [("vanilla", r1.map(|_| ())), ("tbc", r2.map(|_| ())), ("wrath", r3.map(|_| ())), ("wrath-client", r4.map(|_| ())), ("vanilla-client", r5.map(|_| ())), ("tbc-client", r6.map(|_| ()))] {
                            if let Err(m) = r {
                                viol(&report, "world", &format!("{name}-panic"), json!({"user": user, "own_seed": own, "peer_seed": seedv, "proof": hex(&proof), "session_key": hex(&key)}), format!("world login panicked: {m}"));
                            }
                        }
                    }
                }
            }
        }
    }
    report.count("world_login_calls", world);

    // ---------------- header bytes in any order and amount (E1) ----------------
    #[derive(Clone, Copy, Debug)]
    enum HA {
        Attempt(u8),
        Large(u8),
        Raw(u8, usize),
        Read(u8, usize),
    }
    let bytes = [0x00u8, 0x7F, 0x80, 0xFF];
    let mut hacts = vec![];
    for &b in &bytes {
        hacts.push(HA::Attempt(b));
        hacts.push(HA::Large(b));
        hacts.push(HA::Raw(b, 1));
        hacts.push(HA::Raw(b, 5));
        for k in 0..=5 {
            hacts.push(HA::Read(b, k));
        }
    }
    hacts.push(HA::Raw(0, 0));
    let depth = tier.pick(4usize, 6usize);
    let key = refmodel::ctr_array::<40>(seed, "c14-hkey");
    let (_, cd) = ciphers::wrath_client(&key).split();
    let r = bfs(vec![(cd, 0u32)], &hacts, Some(depth), |s, a| {
        let (d, n) = s;
        let mut d = d.clone();
        let res = catch(|| match *a {
            HA::Attempt(b) => {
                let _ = d.attempt_decrypt_server_header([b; 4]);
            }
            HA::Large(b) => {
                let _ = d.decrypt_large_server_header(b);
            }
            HA::Raw(b, l) => d.decrypt(&mut vec![b; l]),
            HA::Read(b, k) => {
                let data = vec![b; k];
                let _ = d.read_and_decrypt_server_header(Cursor::new(&data[..]));
            }
        });
        match res {
            Ok(()) => Ok(Some((d, n + 1))),
            Err(m) => Err(format!("{a:?} panicked: {m}")),
        }
    });
    report.count("states", r.states);
    report.count("transitions", r.transitions);
    if let Some((p, m)) = r.violation {
        viol(&report, "header", "wrath-client-decrypter-panic", json!({"session_key": hex(&key), "actions": p.iter().map(|a| format!("{a:?}")).collect::<Vec<_>>()}), m);
    }
    // Vanilla / TBC / Wrath-server decrypters and all encrypters with arbitrary bytes and short readers
    let mut hdr_calls = 0u64;
    for &b in &bytes {
        for k in 0..=6usize {
            let data = vec![b; k];
            let mut v = ciphers::vanilla(&key);
            let mut t = ciphers::tbc(&key);
            let mut ws = ciphers::wrath_server(&key);
            let rs: Vec<(&str, Result<(), String>)> = vec![
                ("vanilla read server", catch(|| { let _ = v.read_and_decrypt_server_header(Cursor::new(&data[..])); })),
                ("vanilla read client", catch(|| { let _ = v.read_and_decrypt_client_header(Cursor::new(&data[..])); })),
                ("tbc read server", catch(|| { let _ = t.read_and_decrypt_server_header(Cursor::new(&data[..])); })),
                ("tbc read client", catch(|| { let _ = t.read_and_decrypt_client_header(Cursor::new(&data[..])); })),
                ("wrath server read client", catch(|| { let _ = ws.read_and_decrypt_client_header(Cursor::new(&data[..])); })),
                ("vanilla raw", catch(|| v.decrypt(&mut data.clone()))),
                ("tbc raw", catch(|| t.decrypt(&mut data.clone()))),
                ("wrath server raw", catch(|| ws.decrypt(&mut data.clone()))),
                ("vanilla typed", catch(|| { let _ = v.decrypt_server_header([b; 4]); let _ = v.decrypt_client_header([b; 6]); })),
                ("tbc typed", catch(|| { let _ = t.decrypt_server_header([b; 4]); let _ = t.decrypt_client_header([b; 6]); })),
                ("wrath server typed", catch(|| { let _ = ws.decrypt_client_header([b; 6]); })),
            ];
            for (name, r) in rs {
                hdr_calls += 1;
                if let Err(m) = r {
                    viol(&report, "header", "decrypter-panic", json!({"entry": name, "byte": b, "len": k}), format!("{name} panicked: {m}"));
                }
            }
        }
    }
    // every raw call length from every key position: a peer decides how many bytes arrive in one read, so the
    // raw decrypt/encrypt entry points see any slice length at any cursor position (hidden narrow counters, index
    // arithmetic on the slice length); lengths 0..=600 x 41 starting offsets x all seven objects
    let max_len = tier.pick(600usize, 1500usize);
    let raw_calls = AtomicU64::new(0);
    (0..=40usize).into_par_iter().for_each(|start| {
        let mut v = ciphers::vanilla(&key);
        let mut t = ciphers::tbc(&key);
        let mut ws = ciphers::wrath_server(&key);
        let mut wc = ciphers::wrath_client(&key);
        let mut pre = vec![0xA5u8; start];
        v.decrypt(&mut pre.clone());
        v.encrypt(&mut pre.clone());
        t.decrypt(&mut pre.clone());
        t.encrypt(&mut pre.clone());
        ws.decrypt(&mut pre.clone());
        ws.encrypt(&mut pre.clone());
        wc.encrypt(&mut pre);
        let mut n = 0u64;
        for len in 0..=max_len {
            let data: Vec<u8> = (0..len).map(|i| (i as u8).wrapping_mul(31) ^ 0xC3).collect();
            let rs: [(&str, Result<(), String>); 7] = [
                ("vanilla raw decrypt", catch(|| v.clone().decrypt(&mut data.clone()))),
                ("vanilla raw encrypt", catch(|| v.clone().encrypt(&mut data.clone()))),
                ("tbc raw decrypt", catch(|| t.clone().decrypt(&mut data.clone()))),
                ("tbc raw encrypt", catch(|| t.clone().encrypt(&mut data.clone()))),
                ("wrath server raw decrypt", catch(|| ws.clone().decrypt(&mut data.clone()))),
                ("wrath server raw encrypt", catch(|| ws.clone().encrypt(&mut data.clone()))),
                ("wrath client raw encrypt", catch(|| wc.clone().encrypt(&mut data.clone()))),
            ];
            for (name, r) in rs {
                n += 1;
                if let Err(m) = r {
                    viol(&report, "header", "raw-call-panic", json!({"entry": name, "bytes_before": start, "call_length": len, "session_key": hex(&key)}), format!("{name} panicked on a {len}-byte call after {start} earlier bytes: {m}"));
                }
            }
        }
        raw_calls.fetch_add(n, Ordering::Relaxed);
    });
    hdr_calls += raw_calls.load(Ordering::Relaxed);
    report.count("raw_call_length_x_position_calls", raw_calls.load(Ordering::Relaxed));
    // plaintext-targeted headers: the peer chooses the PLAINTEXT (it knows the keystream), so sweep the
    // decrypted header bytes, not the ciphertext: every first byte x alphabets for the others, all entry points
    let vals: [u8; 8] = [0x00, 0x01, 0x03, 0x04, 0x7F, 0x80, 0xFE, 0xFF];
    let targeted = AtomicU64::new(0);
    (0..=255u8).into_par_iter().for_each(|p0| {
        let mut n = 0u64;
        for &p1 in &vals {
            for &p2 in &vals {
                for &p3 in &[0x00u8, 0x80, 0xFF] {
                    for &p4 in &[0x00u8, 0x7F, 0xFF] {
                        let plain = [p0, p1, p2, p3, p4, p2];
                        // Wrath client: server -> client stream
                        let mut wire = plain;
                        refmodel::cipher::wrath_stream(&key, refmodel::cipher::Dir::ServerToClient).apply(&mut wire);
                        let (_, mut d1) = ciphers::wrath_client(&key).split();
                        let mut d2 = d1.clone();
                        let mut c3 = ciphers::wrath_client(&key);
                        let r1 = catch(|| match d1.attempt_decrypt_server_header([wire[0], wire[1], wire[2], wire[3]]) {
                            wow_srp::wrath_header::WrathServerAttempt::AdditionalByteRequired => {
                                let _ = d1.decrypt_large_server_header(wire[4]);
                            }
                            wow_srp::wrath_header::WrathServerAttempt::Header(_) => {}
                        });
                        let r2 = catch(|| {
                            let _ = d2.read_and_decrypt_server_header(Cursor::new(&wire[..]));
                        });
                        let r3 = catch(|| {
                            let _ = c3.read_and_decrypt_server_header(Cursor::new(&wire[..]));
                        });
                        // Wrath server: client -> server stream, 6-byte client header
                        let mut wire_c = plain;
                        refmodel::cipher::wrath_stream(&key, refmodel::cipher::Dir::ClientToServer).apply(&mut wire_c);
                        let mut ws = ciphers::wrath_server(&key);
                        let r4 = catch(|| {
                            let _ = ws.decrypt_client_header(wire_c);
                            let _ = ws.read_and_decrypt_client_header(Cursor::new(&wire_c[..]));
                        });
                        // Vanilla / TBC: both header kinds with this plaintext
                        let mut wv = plain;
                        refmodel::cipher::Recurrence::vanilla(&key).enc(&mut wv);
                        let mut v = ciphers::vanilla(&key);
                        let r5 = catch(|| {
                            let _ = v.clone().decrypt_server_header([wv[0], wv[1], wv[2], wv[3]]);
                            let _ = v.clone().read_and_decrypt_server_header(Cursor::new(&wv[..]));
                            let _ = v.clone().read_and_decrypt_client_header(Cursor::new(&wv[..]));
                            let _ = v.decrypt_client_header(wv);
                        });
                        let mut wt = plain;
                        refmodel::cipher::Recurrence::tbc(&key).enc(&mut wt);
                        let mut t = ciphers::tbc(&key);
                        let r6 = catch(|| {
                            let _ = t.clone().decrypt_server_header([wt[0], wt[1], wt[2], wt[3]]);
                            let _ = t.clone().read_and_decrypt_server_header(Cursor::new(&wt[..]));
                            let _ = t.clone().read_and_decrypt_client_header(Cursor::new(&wt[..]));
                            let _ = t.decrypt_client_header(wt);
                        });
                        for (name, r) in [("wrath client two-step", r1), ("wrath client half read", r2), ("wrath client combined read", r3), ("wrath server client-header", r4), ("vanilla", r5), ("tbc", r6)] {
                            if let Err(m) = r {
                                viol(&report, "header", "decrypter-panic-on-chosen-plaintext", json!({"entry": name, "decrypted_header_bytes": hex(&plain), "session_key": hex(&key)}), format!("{name} panicked on a header whose plaintext is {}: {m}", hex(&plain)));
                            }
                        }
                        n += 6;
                    }
                }
            }
        }
        targeted.fetch_add(n, Ordering::Relaxed);
    });
    hdr_calls += targeted.load(Ordering::Relaxed);
    report.count("header_plaintext_targeted_calls", targeted.load(Ordering::Relaxed));

    // every shape of S (low/high zero bytes) on both sides through the internal seam: no conversion may crash
    let mut shape_calls = 0u64;
    let nn = srp::n_builtin();
    for low in 0..32usize {
        for high in 0..(32 - low) {
            let mut sv = [0x01u8; 32];
            for b in sv.iter_mut().take(low) {
                *b = 0;
            }
            for b in sv.iter_mut().skip(32 - high) {
                *b = 0;
            }
            let t = U::from_le_bytes(&sv);
            // server: b = 1, A = T * (v^u)^-1 ; client: a = 1, u = 0, B = T + k*g^x
            let v = U::from_le_bytes(&refmodel::ctr_array::<32>(seed, "c14-sv")).rem(&nn);
            let u = refmodel::ctr_array::<20>(seed, "c14-su");
            let a_pub = t.mulmod(&v.modpow(&U::from_le_bytes(&u), &nn).inv_prime(&nn), &nn).to_le_padded::<32>();
            let x = refmodel::ctr_array::<20>(seed, "c14-sx");
            let b_pub = t.add(&U::from_u64(3).mul(&U::from_u64(7).modpow(&U::from_le_bytes(&x), &nn))).rem(&nn).to_le_padded::<32>();
            let r1 = catch(|| verif_hooks::server_s(a_pub, v.to_le_padded::<32>(), u, le32_from_u64(1)));
            let r2 = catch(|| verif_hooks::client_s(b_pub, x, le32_from_u64(1), [0u8; 20], 7, N_LE));
            shape_calls += 2;
            for (side, r) in [("server", r1.map(|_| ())), ("client", r2.map(|_| ()))] {
                if let Err(m) = r {
                    viol(&report, "seam", &format!("{side}-S-conversion-panic"), json!({"S_target_le": hex(&sv), "low_zero_bytes": low, "high_zero_bytes": high, "A": hex(&a_pub), "B": hex(&b_pub)}), format!("{side} S computation panicked when the secret has {high} high-order and {low} low-order zero bytes: {m}"));
                }
            }
        }
    }
    report.count("seam_S_shape_calls", shape_calls);
    // thorough: more than 2^32 peer-supplied bytes through every decrypter (a narrow byte counter overflows there)
    if tier == Tier::Thorough {
        let which: Vec<u8> = vec![0, 1, 2, 3];
        which.par_iter().for_each(|&m| {
            let total: u64 = (1u64 << 32) + (1 << 21);
            let mut buf = vec![0xC3u8; 1 << 20];
            let r = catch(|| {
                let mut done = 0u64;
                match m {
                    0 => {
                        let mut c = ciphers::vanilla(&key);
                        while done < total {
                            c.decrypt(&mut buf);
                            done += buf.len() as u64;
                        }
                        let _ = c.decrypt_server_header([1, 2, 3, 4]);
                    }
                    1 => {
                        let mut c = ciphers::tbc(&key);
                        while done < total {
                            c.decrypt(&mut buf);
                            done += buf.len() as u64;
                        }
                        let _ = c.decrypt_server_header([1, 2, 3, 4]);
                    }
                    2 => {
                        let mut c = ciphers::wrath_client(&key);
                        while done < total {
                            c.decrypt(&mut buf);
                            done += buf.len() as u64;
                        }
                        let _ = c.attempt_decrypt_server_header([1, 2, 3, 4]);
                    }
                    _ => {
                        let mut c = ciphers::wrath_server(&key);
                        while done < total {
                            c.decrypt(&mut buf);
                            done += buf.len() as u64;
                        }
                        let _ = c.decrypt_client_header([1, 2, 3, 4, 5, 6]);
                    }
                }
            });
            if let Err(msg) = r {
                viol(&report, "header", "decrypter-panic-after-4GiB", json!({"module": (["vanilla", "tbc", "wrath-client", "wrath-server"][m as usize]), "bytes": total}), format!("decrypting more than 2^32 peer-supplied bytes on one connection panicked: {msg}"));
            }
        });
        hdr_calls += 4;
        report.space("more than 2^32 bytes through the decrypter of every module on one connection (thorough)");
    }
    report.count("header_calls", hdr_calls);
    report.count("cases_skipped_because_the_library_draws_again_for_a_degenerate_scripted_value", NOT_OWNED.load(Ordering::Relaxed));

    let total = calls.load(Ordering::Relaxed) + ccalls.load(Ordering::Relaxed) + seam + shape_calls + world + hdr_calls + r.transitions;
    report.count("server_accepted", accepted.load(Ordering::Relaxed));
    report.count("server_refused", refused.load(Ordering::Relaxed));
    report.set("evaluations", json!(total));
    report.set("distinct_nontrivial", json!(calls.load(Ordering::Relaxed) + ccalls.load(Ordering::Relaxed)));
    report.set("rule", json!("peer-controlled fields are swept over adversarial alphabets {1,2,3,N-1,N+1,2^255,2^256-1, 1..31 zero bytes at either end, private-key alphabet} plus algebraically targeted values (client: B = k*v mod N which forces S = 0, k*v+-1, k*v+2^(8j); server: A = v^-1, -v^-1, 1, N-1) with a and b pinned by the RNG script; every public call is wrapped in catch_unwind; distinct_nontrivial = distinct (account, key, peer value) handshakes"));
    report.set("traces_validated_against_impl", json!(total));
    report.sample("client-case", json!({"B": "3*g^x mod N for the client's own x", "expected": "an orderly result (Ok/Err), never a panic"}));
    report.sample("header-sequence", json!({"actions": ["Large(0x80) before any attempt", "Read(0xFF, 3 bytes then EOF)", "Attempt(0x80)", "Raw(0x00 x5)"], "expected": "no panic"}));
    report.space(&format!("server: {} verifiers x {} b x {} client keys x 3-4 proofs, then 3 reconnect attempts after each accepted login; client: {} credentials x {} salts x {} a x ({} + 8 targeted) server keys x 2-3 proofs", verifiers.len(), b_alpha.len(), keys.len() + 2, cred_alpha.len(), salt_alpha.len(), a_alpha.len(), keys.len()));
    report.space(&format!("Wrath client decrypter: every sequence of depth {depth} over {} actions (attempt / large-header byte / raw / short readers, bytes 00 7F 80 FF), incl. decrypt_large_server_header before any attempt", hacts.len()));
    report.set("exhaustive", json!(false));
    report.cap_hit("byte values outside the adversarial alphabets are not explored");
    report.assume("accounts whose stored verifier is a multiple of N are outside the property; the documented panic for an invalid self-generated public key is not a violation");
    report.finish()
}
