//! C19: both big-integer back ends produce identical results (E5 dualbuild).
//! The same enumeration is compiled twice (srp-default-math / srp-fast-math); each build writes a
//! canonical transcript (case id -> bytes / error kind / "panic"); the driver compares the
//! transcripts line by line. The default build is additionally tied to the reference model by
//! C01-C04/C14, so a fault shared by both back ends is still caught there.

use crate::common::*;
use crate::logins::{layer1_cases, layer2_range_cases, layer2_script_case, load_witnesses, Case};
use mc::report::{Report, Tier, Violation};
use mc::util::catch;
use rayon::prelude::*;
use refmodel::big::U;
use refmodel::srp;
use serde_json::json;
use std::io::Write;
use wow_srp::client::SrpClientChallenge;
use wow_srp::server::SrpVerifier;
use wow_srp::verif_hooks;
use wow_srp::{PublicKey, GENERATOR, LARGE_SAFE_PRIME_LITTLE_ENDIAN};

pub fn backend() -> &'static str {
    if cfg!(feature = "fast-math") {
        "srp-fast-math"
    } else {
        "srp-default-math"
    }
}

/// A panic as a transcript entry. Both builds are the SAME source, so a panic raised by the library's own code (an
/// `expect`, an index, an overflow check under /repo/src) must carry the same message at the same place in both; a
/// panic raised inside a back end's own crate is only recorded as such (the two crates word theirs differently).
fn panic_desc(m: &str) -> String {
    match mc::util::library_panic_location(m) {
        // src/bigint.rs holds one arm per back end: a panic there may legitimately sit on different lines in the two builds
        Some(loc) if loc.starts_with("src/bigint.rs") => "panic at src/bigint.rs".to_string(),
        Some(loc) if loc.starts_with("src/") => format!("panic at {loc}: {}", m.replace('\n', " ").replace('\t', " ")),
        Some(_) => "panic inside a dependency".to_string(),
        None => "panic".to_string(),
    }
}

fn login_line(c: &Case) -> String {
    let id = format!("login|{}|{}|{}|{}|{}|{}|{}|{}", c.layer, c.reg_user, c.reg_pass, c.typed_user, c.typed_pass, hex(&c.salt), hex(&c.b), hex(&c.a));
    let obs = |roundtrip: bool| match real_login(&LoginInput { reg_user: &c.reg_user, reg_pass: &c.reg_pass, typed_user: &c.typed_user, typed_pass: &c.typed_pass, salt: c.salt, b: c.b, a: c.a, storage_roundtrip: roundtrip }) {
        Ok((r, _, _)) => format!("ok v={} B={} A={} M1={} M2={} Ks={} Kc={}", hex(&r.v), hex(&r.b_pub), hex(&r.a_pub), hex(&r.m1), hex(&r.m2), hex(&r.k_server), hex(&r.k_client)),
        Err(LoginFail::Panic(stage, m)) => format!("panic@{stage} {}", panic_desc(&m)),
        Err(LoginFail::Refused(stage, _)) => format!("refused@{stage}"),
        Err(LoginFail::Rng(m)) => format!("rng-mismatch {m}"),
        Err(LoginFail::Redrawn) => "skipped: the library draws again for a degenerate scripted value".to_string(),
    };
    format!("{id}\t{}\t{}", obs(false), obs(true))
}

fn explicit_cases(seed: u64) -> Vec<Case> {
    // the rare draws the alphabets of the quick tier leave out: zero private keys, N, N+-1, all ones
    let mut v = vec![];
    let special: Vec<[u8; 32]> = vec![[0u8; 32], le32_from_u64(1), n_plus(0), n_plus(-1), n_plus(1), [0xFF; 32]];
    let salt = refmodel::ctr_array::<32>(seed, "c19-salt");
    let other = refmodel::ctr_array::<32>(seed, "c19-other");
    for s in &special {
        v.push(Case { layer: "special-b", reg_user: "alice".into(), reg_pass: "password123".into(), typed_user: "ALICE".into(), typed_pass: "PASSWORD123".into(), salt, b: *s, a: other });
        v.push(Case { layer: "special-a", reg_user: "alice".into(), reg_pass: "password123".into(), typed_user: "ALICE".into(), typed_pass: "PASSWORD123".into(), salt, b: other, a: *s });
        v.push(Case { layer: "special-ab", reg_user: "A".into(), reg_pass: "A".into(), typed_user: "a".into(), typed_pass: "a".into(), salt: [0u8; 32], b: *s, a: *s });
    }
    v
}

/// All transcript lines of this build, sorted by case id.
pub fn transcript(tier: Tier, seed: u64) -> Vec<String> {
    let mut lines: Vec<String> = vec![];
    // C01 layers
    let mut cases: Vec<Case> = load_witnesses().into_iter().map(|(_, c)| c).collect();
    cases.extend(explicit_cases(seed));
    cases.extend(layer1_cases(tier, seed));
    cases.extend(layer2_range_cases(tier.pick(24, 128)));
    let n_scripts = tier.pick(1u64 << 12, 1 << 18);
    cases.extend((0..n_scripts).map(|i| layer2_script_case(seed, i)));
    lines.extend(cases.par_iter().map(login_line).collect::<Vec<_>>());

    // C03 seam: S shapes and general operands on both sides, interleave
    let n = srp::n_builtin();
    let n_seam = tier.pick(3_000u64, 100_000u64);
    lines.extend(
        (0..n_seam)
            .into_par_iter()
            .map(|i| {
                let a_pub = U::from_le_bytes(&refmodel::ctr_array::<32>(seed, &format!("t-A-{i}"))).rem(&n).to_le_padded::<32>();
                let v = refmodel::ctr_array::<32>(seed, &format!("t-v-{i}"));
                let u = refmodel::ctr_array::<20>(seed, &format!("t-u-{i}"));
                let x = refmodel::ctr_array::<20>(seed, &format!("t-x-{i}"));
                let e = match i % 5 {
                    0 => [0u8; 32],
                    1 => le32_from_u64(1 + i % 9),
                    2 => [0xFF; 32],
                    _ => refmodel::ctr_array::<32>(seed, &format!("t-e-{i}")),
                };
                let ss = catch(|| verif_hooks::server_s(a_pub, v, u, e)).map(|r| r.map(|s| hex(&s)).unwrap_or("refusedA".into())).unwrap_or("panic".into());
                let cs = catch(|| verif_hooks::client_s(a_pub, x, e, u, 7, N_LE)).map(|r| r.map(|s| hex(&s)).unwrap_or("refusedB".into())).unwrap_or("panic".into());
                format!("seam|{i}|A={} v={} u={} x={} e={}\tserverS={ss}\tclientS={cs}", hex(&a_pub), hex(&v), hex(&u), hex(&x), hex(&e))
            })
            .collect::<Vec<_>>(),
    );
    {
        let h20: Vec<[u8; 20]> = {
            let mut top = [0u8; 20];
            top[19] = 0x80;
            let mut one = [0u8; 20];
            one[0] = 1;
            vec![[0u8; 20], one, [0xFF; 20], top]
        };
        let mut p248 = [0u8; 32];
        p248[31] = 1;
        let mut p255 = [0u8; 32];
        p255[31] = 0x80;
        let k32: Vec<[u8; 32]> = vec![le32_from_u64(1), le32_from_u64(2), n_plus(-1), n_plus(1), [0xFF; 32], p248, p255];
        let e32: Vec<[u8; 32]> = vec![[0u8; 32], le32_from_u64(1), le32_from_u64(2), [0xFF; 32], n_plus(-1)];
        let mut i = 0usize;
        let zero32 = [0u8; 32];
        for pk in &k32 {
            for v in &k32 {
                for u in &h20 {
                    for e in &e32 {
                        let v = if i % 7 == 3 { &zero32 } else { v }; // a verifier of 0 in the database: 0^u, and (A*0)^0 when b = 0 too
                        let ss = catch(|| verif_hooks::server_s(*pk, *v, *u, *e)).map(|r| r.map(|s| hex(&s)).unwrap_or("refusedA".into())).unwrap_or("panic".into());
                        let cs = catch(|| verif_hooks::client_s(*pk, *u, *e, h20[i % 4], 7, N_LE)).map(|r| r.map(|s| hex(&s)).unwrap_or("refusedB".into())).unwrap_or("panic".into());
                        lines.push(format!("boundary|{i:05}|pk={} v={} u={} e={}\tserverS={ss}\tclientS={cs}", hex(pk), hex(v), hex(u), hex(e)));
                        i += 1;
                    }
                }
            }
        }
    }
    for (i, (bp, x, a, u, what)) in targeted_client_bases(seed).into_iter().enumerate() {
        let cs = catch(|| verif_hooks::client_s(bp, x, a, u, 7, N_LE)).map(|r| r.map(|s| hex(&s)).unwrap_or("refusedB".into())).unwrap_or("panic".into());
        lines.push(format!("targeted-base|{i:04}|{what}\tclientS={cs}"));
    }
    for low in 0..=32usize {
        let mut s = [0x5Bu8; 32];
        for b in s.iter_mut().take(low) {
            *b = 0;
        }
        let k = catch(|| verif_hooks::interleave(s)).map(|k| hex(&k)).unwrap_or("panic".into());
        lines.push(format!("interleave|{low:02}\t{k}"));
    }

    // C03/C04 announced groups on the client (incl. the even prime 2 and tiny moduli, A = 0 cases)
    let mut mods = moduli();
    // C19 is differential, so it needs no reference: composite and even moduli a server might announce are in
    // ("whatever modulus the server announced"): both back ends must still agree
    {
        let p2 = |e: usize| {
            let mut b = vec![0u8; e / 8 + 1];
            b[e / 8] = 1 << (e % 8);
            U::from_le_bytes(&b)
        };
        mods.push(("2^256-1 (composite)", U::from_le_bytes(&[0xFF; 32])));
        mods.push(("2^255 (even)", p2(255)));
        mods.push(("N-1 (even)", n.sub(&U::from_u64(1))));
        mods.push(("N+2 (composite?)", n.add(&U::from_u64(2))));
        mods.push(("15", U::from_u64(15)));
        mods.push(("6", U::from_u64(6)));
        mods.push(("4", U::from_u64(4)));
        mods.push(("255", U::from_u64(255)));
        mods.push(("10^20", U::from_u64(10_000_000_000).mul(&U::from_u64(10_000_000_000))));
        mods.push(("3*2^64", U::from_u64(3).mul(&p2(64))));
    }
    let gens: Vec<u8> = if tier == Tier::Thorough { (0..=255).collect() } else { vec![0, 1, 2, 3, 4, 5, 7, 8, 11, 13, 16, 64, 128, 183, 250, 251, 254, 255] };
    // 64/128/192: with g a power of two the client's key is 2^(k*a), i.e. has zero low 64-bit limbs
    let a_alpha: Vec<[u8; 32]> = vec![[0u8; 32], le32_from_u64(1), le32_from_u64(2), le32_from_u64(64), le32_from_u64(128), le32_from_u64(192), le32_from_u64(250), n_plus(-1), [0xFF; 32], refmodel::ctr_array::<32>(seed, "t-ga")];
    let b_alpha: Vec<[u8; 32]> = vec![le32_from_u64(1), le32_from_u64(1234567), n_plus(1), [0xFF; 32], refmodel::ctr_array::<32>(seed, "t-gB")];
    let salt = refmodel::ctr_array::<32>(seed, "t-gsalt");
    let jobs: Vec<(usize, u8)> = (0..mods.len()).flat_map(|m| gens.iter().map(move |g| (m, *g))).collect();
    lines.extend(
        jobs.par_iter()
            .flat_map_iter(|&(mi, g)| {
                let (mname, m) = &mods[mi];
                let m_le = m.to_le_padded::<32>();
                let mut out = vec![];
                for a in &a_alpha {
                    for b in &b_alpha {
                        let bk = match PublicKey::from_le_bytes(*b) {
                            Ok(k) => k,
                            Err(_) => {
                                out.push(format!("group|{mname}|g={g}|a={}|B={}\trefusedB", hex(a), hex(b)));
                                continue;
                            }
                        };
                        let (r, _, _) = with_script(a, || {
                            let c = SrpClientChallenge::new(ns("alice"), ns("password123"), g, m_le, bk, salt);
                            (*c.client_public_key(), *c.client_proof())
                        });
                        let o = match r {
                            Ok((ap, m1)) => format!("A={} M1={}", hex(&ap), hex(&m1)),
                            Err(m) => panic_desc(&m),
                        };
                        out.push(format!("group|{mname}|g={g}|a={}|B={}\t{o}", hex(a), hex(b)));
                    }
                }
                out
            })
            .collect::<Vec<_>>(),
    );

    // C04: the server's own B steered into special values; C14: hostile B on the client
    let gb = U::from_u64(7).modpow(&U::from_u64(5), &n);
    let inv3 = U::from_u64(3).inv_prime(&n);
    let limb = |k: usize| {
        let mut t = [0u8; 32];
        t[k] = 1;
        t
    };
    for t in [[0u8; 32], le32_from_u64(1), le32_from_u64(183), n_plus(-1), limb(8), limb(16), limb(24), limb(31)] {
        let tt = U::from_le_bytes(&t).rem(&n);
        let v = U::submod(&tt, &gb, &n).mulmod(&inv3, &n).to_le_padded::<32>();
        let (r, _, _) = with_script(&le32_from_u64(5), || *SrpVerifier::from_database_values(ns("A"), v, [0u8; 32]).into_proof().server_public_key());
        lines.push(format!("ownB|{}\t{}", hex(&t), r.map(|b| hex(&b)).unwrap_or_else(|m| panic_desc(&m))));
    }
    for (ci, (user, pass)) in [("alice", "password123"), ("A", "A")].iter().enumerate() {
        let (un, pn) = (refmodel::misc::normalize(user).unwrap(), refmodel::misc::normalize(pass).unwrap());
        let x = U::from_le_bytes(&srp::x_bytes(&un, &pn, &salt));
        let kv = U::from_u64(3).mul(&U::from_u64(7).modpow(&x, &n)).rem(&n);
        let mut bl = vec![kv.to_le_padded::<32>(), kv.add(&U::from_u64(1)).rem(&n).to_le_padded::<32>(), U::submod(&kv, &U::from_u64(1), &n).to_le_padded::<32>()];
        for j in [1usize, 8, 31] {
            let mut p = vec![0u8; 33];
            p[j] = 1;
            bl.push(kv.add(&U::from_le_bytes(&p)).rem(&n).to_le_padded::<32>());
        }
        for (bi, b) in bl.iter().enumerate() {
            for a in [le32_from_u64(1), le32_from_u64(2), refmodel::ctr_array::<32>(seed, "t-ha")] {
                let bk = match PublicKey::from_le_bytes(*b) {
                    Ok(k) => k,
                    Err(_) => continue,
                };
                let (r, _, _) = with_script(&a, || {
                    let c = SrpClientChallenge::new(ns(user), ns(pass), GENERATOR, LARGE_SAFE_PRIME_LITTLE_ENDIAN, bk, salt);
                    (*c.client_public_key(), *c.client_proof())
                });
                let o = match r {
                    Ok((ap, m1)) => format!("A={} M1={}", hex(&ap), hex(&m1)),
                    Err(m) => panic_desc(&m),
                };
                lines.push(format!("hostileB|{ci}|{bi}|a={}\t{o}", hex(&a)));
            }
        }
    }
    // verifier derivation for the whole credential alphabet
    for (u, p) in creds(true) {
        for s in salts(seed, true) {
            let (r, _, _) = with_script(&s, || *SrpVerifier::from_username_and_password(ns(u), ns(p)).password_verifier());
            lines.push(format!("verifier|{u}|{p}|{}\t{}", hex(&s), r.map(|v| hex(&v)).unwrap_or_else(|m| panic_desc(&m))));
        }
    }
    lines.sort();
    lines
}

pub fn write_transcript(tier: Tier, seed: u64, path: &str) {
    let lines = transcript(tier, seed);
    let mut f = std::io::BufWriter::new(std::fs::File::create(path).unwrap_or_else(|e| mc::util::machinery_error(&format!("{path}: {e}"))));
    writeln!(f, "# backend {}", backend()).unwrap();
    for l in &lines {
        writeln!(f, "{l}").unwrap();
    }
}

pub fn run(tier: Tier, seed: u64) -> i32 {
    let report = Report::new("C19", tier, seed, "model_checking");
    if backend() != "srp-default-math" {
        mc::util::machinery_error("the C19 driver must be the default-math build");
    }
    let mine = transcript(tier, seed);
    let fast_bin_path = mc::report::build_root().join("fast/release/vpcheck");
    let fast_bin = fast_bin_path.to_str().unwrap();
    let out_path = mc::report::build_root().join(format!("transcript-fast-{}.txt", tier.name()));
    let st = std::process::Command::new(fast_bin)
        .args(["transcript", tier.name(), out_path.to_str().unwrap()])
        .env("VERIF_SEED", seed.to_string())
        .status();
    match st {
        Ok(s) if s.success() => {}
        other => mc::util::machinery_error(&format!("fast-math transcript run failed: {other:?}")),
    }
    let text = std::fs::read_to_string(&out_path).unwrap_or_else(|e| mc::util::machinery_error(&format!("{}: {e}", out_path.display())));
    let mut it = text.lines();
    if it.next() != Some("# backend srp-fast-math") {
        mc::util::machinery_error("the second transcript does not come from a srp-fast-math build");
    }
    let theirs: Vec<&str> = it.collect();
    if theirs.len() != mine.len() {
        mc::util::machinery_error(&format!("transcripts have different lengths: default {} vs fast {}", mine.len(), theirs.len()));
    }
    let mut differing = 0u64;
    let mut kinds: std::collections::BTreeMap<String, u64> = Default::default();
    for (a, b) in mine.iter().zip(theirs.iter()) {
        let ida = a.split('\t').next().unwrap_or("");
        let idb = b.split('\t').next().unwrap_or("");
        if ida != idb {
            mc::util::machinery_error(&format!("transcripts are not aligned: {ida} vs {idb}"));
        }
        let kind = ida.split('|').next().unwrap_or("").to_string();
        *kinds.entry(kind.clone()).or_insert(0) += 1;
        if a != b {
            differing += 1;
            let fast_panics = b.contains("panic") && !a.contains("panic");
            let default_panics = a.contains("panic") && !b.contains("panic");
            // classify by the input class that triggers it (stable signature)
            let class = if fast_panics {
                if ida.starts_with("group|2|") {
                    "fast-math-panics-even-modulus".to_string()
                } else if ida.contains(&"0".repeat(64)) {
                    "fast-math-panics-zero-exponent".to_string()
                } else {
                    "fast-math-panics".to_string()
                }
            } else if default_panics {
                "default-math-panics".to_string()
            } else {
                "values-differ".to_string()
            };
            report.violation(Violation {
                signature: format!("C19|{}|{class}", kind.split('|').next().unwrap_or("")),
                scenario: "dual-build-transcript".into(),
                replay: json!({"case_id": ida, "how": "vpcheck transcript <tier> <file> in both builds (/verif/.build/default and /verif/.build/fast), compare this line"}),
                detail: json!({"srp-default-math": a.splitn(2, '\t').nth(1), "srp-fast-math": b.splitn(2, '\t').nth(1)}),
            });
        }
    }
    report.count("transcript_lines", mine.len() as u64);
    report.count("differing_lines", differing);
    report.set("cases_by_kind", json!(kinds));
    let panics_default = mine.iter().filter(|l| l.contains("panic")).count();
    report.set("lines_with_panic_in_default_build", json!(panics_default));
    report.set("evaluations", json!(2 * mine.len() as u64));
    report.set("distinct_nontrivial", json!(mine.len() as u64));
    report.set("rule", json!("every case of the C01 login layers (witnesses, special draws incl. zero private keys, alphabet product, small-key range, counter-mode scripts), C03 seam operands and S shapes, announced groups (incl. the even prime 2), C04 own-key steering and C14 hostile server keys is executed once per back end; per case every observable (bytes, Ok/Err kind, or 'panic') is one transcript line; lines must be identical; distinct_nontrivial = distinct case ids"));
    report.set("states", json!(2 * mine.len() as u64));
    report.set("transitions", json!(2 * mine.len() as u64));
    report.set("traces_validated_against_impl", json!(2 * mine.len() as u64));
    if let Some(l) = mine.iter().find(|l| l.starts_with("login|witness")) {
        report.sample("transcript-line", json!(l.chars().take(400).collect::<String>()));
    }
    if let Some(l) = mine.iter().find(|l| l.starts_with("group|")) {
        report.sample("transcript-line", json!(l));
    }
    report.space("both feature configurations (srp-default-math: num-bigint; srp-fast-math: rug on the system GMP 6.2.1 through the vendored gmp-mpfr-sys version gate)");
    report.assume("GMP 6.2.1 instead of the bundled 6.3.0 (the bundled one cannot be built here: no m4)");
    report.assume("agreement with the reference model is established for the default build by C01-C04/C14; equality of transcripts carries it over");
    report.set("exhaustive", json!(false));
    report.cap_hit("differential over a finite case list, not over all inputs");
    report.finish()
}
