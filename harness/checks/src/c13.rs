//! C13: credential strings - exactly 1..16 printable ASCII bytes, upper-cased. E3 sweeps.

use mc::report::{Report, Tier, Violation};
use mc::util::catch;
use rayon::prelude::*;
use refmodel::misc::{normalize, NormErr};
use serde_json::json;
use std::collections::hash_map::DefaultHasher;
use std::convert::TryFrom;
use std::hash::{Hash, Hasher};
use std::sync::atomic::{AtomicU64, Ordering};
use wow_srp::error::NormalizedStringError;
use wow_srp::normalized_string::NormalizedString;

#[derive(Debug, PartialEq, Eq, Clone)]
enum Obs {
    Ok(Vec<u8>),
    Length,
    Char(char),
    /// an error kind this harness does not know (the enum may grow); never what the rule asks for
    UnknownError,
}

fn obs(r: Result<NormalizedString, NormalizedStringError>) -> Obs {
    match r {
        Ok(n) => Obs::Ok(n.as_ref().as_bytes().to_vec()),
        Err(NormalizedStringError::StringTooLong) => Obs::Length,
        Err(NormalizedStringError::CharacterNotAllowed(c)) => Obs::Char(c),
        #[allow(unreachable_patterns)]
        Err(_) => Obs::UnknownError,
    }
}
fn want(s: &str) -> Obs {
    match normalize(s) {
        Ok(v) => Obs::Ok(v),
        Err(NormErr::Length) => Obs::Length,
        Err(NormErr::Char(c)) => Obs::Char(c),
    }
}

fn viol(report: &Report, class: &str, s: &str, msg: String) {
    report.violation(Violation {
        signature: format!("C13|{class}"),
        scenario: "normalized-string".into(),
        replay: if s.len() > 4096 {
            // long inputs are one character repeated (see the length sweep): store the recipe, not gigabytes
            json!({"repeat_char": s.chars().next().map(|c| c.to_string()), "times": s.chars().count(), "byte_length": s.len()})
        } else {
            json!({"input_utf8_hex": mc::util::hex(s.as_bytes()), "input_debug": format!("{s:?}")})
        },
        detail: json!({ "message": msg }),
    });
}

/// Fast path: `new` and `TryFrom<&str>` against the reference rule.
fn check_fast(report: &Report, s: &str) -> u8 {
    let w = want(s);
    let r = match catch(|| NormalizedString::new(s)) {
        Ok(r) => {
            // a copy is the same credential: text, equality, ordering and hash (Clone is how credentials travel)
            if let Ok(n) = &r {
                match catch(|| n.clone()) {
                    Ok(c) => {
                        let h = |x: &NormalizedString| {
                            let mut hs = DefaultHasher::new();
                            x.hash(&mut hs);
                            hs.finish()
                        };
                        if c.as_ref() != n.as_ref() || c != *n || c.cmp(n) != std::cmp::Ordering::Equal || h(&c) != h(n) || format!("{c}") != format!("{n}") {
                            viol(report, "clone-differs", s, format!("the clone of {:?} is {:?}", n.as_ref(), c.as_ref()));
                        }
                    }
                    Err(m) => viol(report, "panic", s, format!("clone panicked: {m}")),
                }
            }
            obs(r)
        }
        Err(m) => {
            viol(report, "panic", s, format!("NormalizedString::new panicked: {m}"));
            return 3;
        }
    };
    if r != w {
        let class = match (&r, &w) {
            (Obs::Ok(_), Obs::Ok(_)) => "wrong-normalised-text",
            (Obs::Ok(_), _) => "accepted-invalid",
            (_, Obs::Ok(_)) => "rejected-valid",
            _ => "wrong-error-kind",
        };
        viol(report, class, s, format!("new() gave {r:?}, the rule gives {w:?}"));
    }
    match catch(|| NormalizedString::try_from(s)) {
        Ok(r2) => {
            let r2 = obs(r2);
            if r2 != r {
                viol(report, "constructors-disagree", s, format!("TryFrom<&str> gave {r2:?}, new() gave {r:?}"));
            }
        }
        Err(m) => viol(report, "panic", s, format!("TryFrom<&str> panicked: {m}")),
    }
    // the three constructors that take or parse an owned / borrowed string differently: same verdict for every input
    // (strings up to 64 bytes: beyond that only the length gate is of interest and `new` has been judged above)
    if s.len() <= 64 {
        for (name, r2) in [
            ("from_str", catch(|| obs(NormalizedString::from_str(s)))),
            ("from_string", catch(|| obs(NormalizedString::from_string(s.to_string())))),
            ("TryFrom<String>", catch(|| obs(NormalizedString::try_from(s.to_string())))),
        ] {
            match r2 {
                Ok(o) => {
                    if o != r {
                        viol(report, "constructors-disagree", s, format!("{name} gave {o:?}, new() gave {r:?}"));
                    }
                }
                Err(m) => viol(report, "panic", s, format!("{name} panicked: {m}")),
            }
        }
    }
    match w {
        Obs::Ok(_) => 0,
        Obs::Length => 1,
        Obs::Char(_) | Obs::UnknownError => 2,
    }
}

/// Full path: all five constructors, views, idempotence, case-insensitivity.
pub fn check_full(report: &Report, s: &str) {
    check_fast(report, s);
    let base = match catch(|| NormalizedString::new(s)) {
        Ok(r) => r,
        Err(_) => return,
    };
    let b = match &base {
        Ok(n) => Obs::Ok(n.as_ref().as_bytes().to_vec()),
        Err(NormalizedStringError::StringTooLong) => Obs::Length,
        Err(NormalizedStringError::CharacterNotAllowed(c)) => Obs::Char(*c),
        #[allow(unreachable_patterns)]
        Err(_) => Obs::UnknownError,
    };
    let others: Vec<(&str, Result<Obs, String>)> = vec![
        ("from_str", catch(|| obs(NormalizedString::from_str(s)))),
        ("from_string", catch(|| obs(NormalizedString::from_string(s.to_string())))),
        ("TryFrom<String>", catch(|| obs(NormalizedString::try_from(s.to_string())))),
    ];
    for (name, r) in others {
        match r {
            Ok(o) => {
                if o != b {
                    viol(report, "constructors-disagree", s, format!("{name} gave {o:?}, new() gave {b:?}"));
                }
            }
            Err(m) => viol(report, "panic", s, format!("{name} panicked: {m}")),
        }
    }
    if let Ok(n) = base {
        let text = n.as_ref().to_string();
        if format!("{n}") != text {
            viol(report, "display", s, format!("Display {:?} != as_ref {:?}", format!("{n}"), text));
        }
        match NormalizedString::new(&text) {
            Ok(again) => {
                if again != n {
                    viol(report, "idempotence", s, "new(x.as_ref()) != x".into());
                }
            }
            Err(e) => viol(report, "idempotence", s, format!("normalised text rejected on re-normalisation: {e}")),
        }
        for variant in [s.to_ascii_lowercase(), s.to_ascii_uppercase()] {
            match NormalizedString::new(&variant) {
                Ok(v) => {
                    if v != n || hash_of(&v) != hash_of(&n) || v.cmp(&n) != std::cmp::Ordering::Equal {
                        viol(report, "case-insensitivity", s, format!("case respelling {variant:?} is not equal (==, cmp, hash) to the original"));
                    }
                }
                Err(e) => viol(report, "case-insensitivity", s, format!("case respelling {variant:?} rejected: {e}")),
            }
        }
    }
}

fn hash_of(n: &NormalizedString) -> u64 {
    let mut h = DefaultHasher::new();
    n.hash(&mut h);
    h.finish()
}

pub fn run(tier: Tier, seed: u64) -> i32 {
    let report = Report::new("C13", tier, seed, "model_checking");
    let evals = AtomicU64::new(0);
    let classes = [AtomicU64::new(0), AtomicU64::new(0), AtomicU64::new(0)];

    // (1) every Unicode scalar value at every position of a string of byte length L, L = 1..=17 (fill 'a')
    let lens: Vec<usize> = (1..=17).collect();
    let scalars: Vec<u32> = (0..=0x10FFFFu32).filter(|c| char::from_u32(*c).is_some()).collect();
    report.count("unicode_scalars", scalars.len() as u64);
    scalars.par_chunks(4096).for_each(|part| {
        let mut n = 0u64;
        let mut cl = [0u64; 3];
        let mut buf = String::with_capacity(24);
        for &cp in part {
            let c = char::from_u32(cp).unwrap();
            let cl_len = c.len_utf8();
            for &l in &lens {
                if cl_len > l {
                    continue;
                }
                let positions: Vec<usize> = if tier == Tier::Thorough || cp < 0x110000 {
                    (0..=(l - cl_len)).collect()
                } else {
                    // quick tier, astral/CJK ranges: first, middle and last position
                    let mut v = vec![0, (l - cl_len) / 2, l - cl_len];
                    v.dedup();
                    v
                };
                for p in positions {
                    buf.clear();
                    for _ in 0..p {
                        buf.push('a');
                    }
                    buf.push(c);
                    for _ in 0..(l - p - cl_len) {
                        buf.push('a');
                    }
                    let k = check_fast(&report, &buf);
                    if k < 3 {
                        cl[k as usize] += 1;
                    }
                    n += 1;
                }
            }
        }
        evals.fetch_add(n, Ordering::Relaxed);
        for i in 0..3 {
            classes[i].fetch_add(cl[i], Ordering::Relaxed);
        }
    });
    report.count("scalar_position_cases", evals.load(Ordering::Relaxed));

    // (2) all strings of <= 5 characters over a 12-symbol alphabet (all five constructors, views)
    let alpha: Vec<char> = vec!['a', 'Z', '0', ' ', '~', '"', ':', '\u{1f}', '\u{7f}', 'é', '€', '😀'];
    let max_chars = tier.pick(4, 5);
    let mut small: Vec<String> = vec![String::new()];
    let mut frontier: Vec<String> = vec![String::new()];
    for _ in 0..max_chars {
        let mut next = vec![];
        for s in &frontier {
            for &c in &alpha {
                let mut t = s.clone();
                t.push(c);
                next.push(t);
            }
        }
        small.extend(next.iter().cloned());
        frontier = next;
    }
    small.par_iter().for_each(|s| check_full(&report, s));
    report.count("small_alphabet_strings", small.len() as u64);

    // (3) all strings over {a, é, €, 😀} whose byte length is 13..=20 (byte/char confusion at the limit)
    let mb: Vec<char> = vec!['a', 'é', '€', '😀'];
    let mut limit_strings: Vec<String> = vec![];
    fn rec(cur: &mut String, mb: &[char], out: &mut Vec<String>, cap: usize) {
        if cur.len() >= 13 {
            out.push(cur.clone());
        }
        if cur.len() >= 20 || out.len() >= cap {
            return;
        }
        for &c in mb {
            if cur.len() + c.len_utf8() <= 20 {
                cur.push(c);
                rec(cur, mb, out, cap);
                cur.pop();
            }
        }
    }
    rec(&mut String::new(), &mb, &mut limit_strings, tier.pick(400_000, 5_000_000));
    limit_strings.par_iter().for_each(|s| {
        check_fast(&report, s);
    });
    report.count("multibyte_limit_strings", limit_strings.len() as u64);

    // (4) lengths 0..=64 of each fill character
    let mut fills = 0u64;
    for &c in &alpha {
        for l in 0..=64 {
            let s: String = std::iter::repeat(c).take(l).collect();
            check_full(&report, &s);
            fills += 1;
        }
    }
    // (4a) every length up to 1,100 and around the 2^16 / 2^17 / 2^24 (thorough: 2^32) marks: a length held in a narrow
    //      integer wraps there and a too-long string slips through the gate
    {
        let mut lens: Vec<usize> = (65..=1100).collect();
        for base in [1usize << 16, 1 << 17, 3 << 16, 1 << 24] {
            lens.extend(base - 2..=base + 18);
        }
        let long = AtomicU64::new(0);
        if tier == Tier::Thorough {
            // 4 GiB strings one at a time (memory), one fill character
            for l in (1usize << 32) - 1..=(1usize << 32) + 17 {
                let s: String = std::iter::repeat('a').take(l).collect();
                check_fast(&report, &s);
                long.fetch_add(1, Ordering::Relaxed);
            }
        }
        lens.par_iter().for_each(|&l| {
            for c in ['a', 'Z', ' '] {
                let s: String = std::iter::repeat(c).take(l).collect();
                if l <= 70_000 {
                    check_full(&report, &s);
                } else {
                    check_fast(&report, &s);
                }
                long.fetch_add(1, Ordering::Relaxed);
            }
        });
        fills += long.load(Ordering::Relaxed);
        report.count("long_strings", long.load(Ordering::Relaxed));
    }
    // every printable ASCII char at every position of a 16-char string (including the ones the suite's list omits)
    for b in 0x20u8..=0x7E {
        for p in 0..16 {
            let mut v = vec![b'm'; 16];
            v[p] = b;
            check_full(&report, std::str::from_utf8(&v).unwrap());
            fills += 1;
        }
    }
    report.count("fill_and_position_strings", fills);

    // (4b) every ordered PAIR of characters from printable ASCII plus the neighbours of its borders, adjacent,
    //      at the start / middle / end of a 16-byte string and alone as a 2-byte string
    let mut pair_alpha: Vec<char> = (0x20u8..=0x7E).map(|b| b as char).collect();
    pair_alpha.extend(['\u{1f}', '\u{7f}', '\u{80}', 'é']);
    let pair_strings = AtomicU64::new(0);
    pair_alpha.par_iter().for_each(|&c1| {
        let mut n = 0u64;
        for &c2 in &pair_alpha {
            let pair: String = [c1, c2].iter().collect();
            check_fast(&report, &pair);
            n += 1;
            if pair.len() == 2 {
                for p in [0usize, 7, 14] {
                    let mut v = vec![b'm'; 16];
                    v[p] = c1 as u8;
                    v[p + 1] = c2 as u8;
                    check_fast(&report, std::str::from_utf8(&v).unwrap());
                    n += 1;
                }
            }
        }
        pair_strings.fetch_add(n, Ordering::Relaxed);
    });
    report.count("adjacent_pair_strings", pair_strings.load(Ordering::Relaxed));

    // (4c) every TRIPLE of printable ASCII characters as a 3-byte string and at the end of a 16-byte string
    let printable: Vec<u8> = (0x20u8..=0x7E).collect();
    let triple_strings = AtomicU64::new(0);
    printable.par_iter().for_each(|&c1| {
        let mut n = 0u64;
        let mut long = vec![b'q'; 16];
        for &c2 in &printable {
            for &c3 in &printable {
                let t = [c1, c2, c3];
                check_fast(&report, std::str::from_utf8(&t).unwrap());
                long[13] = c1;
                long[14] = c2;
                long[15] = c3;
                check_fast(&report, std::str::from_utf8(&long).unwrap());
                n += 2;
            }
        }
        triple_strings.fetch_add(n, Ordering::Relaxed);
    });
    report.count("triple_strings", triple_strings.load(Ordering::Relaxed));

    // (5) ==, cmp, Hash agree with the normalised texts for all pairs of a ~2000 element set
    let mut set: Vec<String> = small.iter().filter(|s| normalize(s).is_ok()).take(1500).cloned().collect();
    for i in 0..500u32 {
        let n = 1 + (i as usize % 16);
        let bytes = refmodel::ctr_bytes(seed, &format!("c13-{i}"), n);
        set.push(bytes.iter().map(|b| (0x20 + b % 95) as char).collect());
    }
    // strings the library refuses although the rule accepts them are reported by check_full and left out here
    let mut kept: Vec<String> = vec![];
    let mut objs: Vec<(NormalizedString, Vec<u8>)> = vec![];
    for s in &set {
        match catch(|| NormalizedString::new(s)) {
            Ok(Ok(n)) => {
                objs.push((n, normalize(s).unwrap()));
                kept.push(s.clone());
            }
            _ => check_full(&report, s),
        }
    }
    let set = kept;
    let pair_cases = AtomicU64::new(0);
    (0..objs.len()).into_par_iter().for_each(|i| {
        for j in 0..objs.len() {
            let (a, ta) = &objs[i];
            let (b, tb) = &objs[j];
            let eq = a == b;
            if eq != (ta == tb) {
                viol(&report, "eq-vs-text", &set[i], format!("== is {eq} but texts {:?} / {:?}", String::from_utf8_lossy(ta), String::from_utf8_lossy(tb)));
            }
            if a.cmp(b) != ta.cmp(tb) || a.partial_cmp(b) != Some(ta.cmp(tb)) {
                viol(&report, "cmp-vs-text", &set[i], format!("cmp is {:?} but text ordering of {:?} / {:?} is {:?}", a.cmp(b), String::from_utf8_lossy(ta), String::from_utf8_lossy(tb), ta.cmp(tb)));
            }
            if ta == tb && hash_of(a) != hash_of(b) {
                viol(&report, "hash-vs-text", &set[i], "equal texts hash differently".into());
            }
        }
        pair_cases.fetch_add(objs.len() as u64, Ordering::Relaxed);
    });
    report.count("pair_cases", pair_cases.load(Ordering::Relaxed));

    for (i, name) in ["accepted", "length_error", "character_error"].iter().enumerate() {
        report.require(&format!("class_{name}"));
        report.count(&format!("class_{name}"), classes[i].load(Ordering::Relaxed));
    }
    let total = triple_strings.load(Ordering::Relaxed) + pair_strings.load(Ordering::Relaxed) + evals.load(Ordering::Relaxed) + small.len() as u64 + limit_strings.len() as u64 + fills + pair_cases.load(Ordering::Relaxed);
    report.set("evaluations", json!(total));
    report.set("distinct_nontrivial", json!(evals.load(Ordering::Relaxed) - classes[0].load(Ordering::Relaxed).min(evals.load(Ordering::Relaxed)) + small.len() as u64));
    report.set("rule", json!("strings are enumerated (every Unicode scalar x every position x every byte length 1..=17; every string of <=5 chars over a 12-symbol alphabet; every multi-byte string of byte length 13..=20 over {a,e-acute,euro,emoji}); all inputs distinct by construction; non-trivial = input that must be rejected, or contains a character that must be changed or is non-letter (everything except all-'a' fills); counted as cases whose expected result is an error plus the small-alphabet set"));
    report.set("states", json!(total + 1));
    report.set("transitions", json!(total));
    report.set("traces_validated_against_impl", json!(total));
    report.sample("string", json!({"input": "a€aaaaaaaaaaaaaa (16 bytes, 14 chars)", "expected": "Err(CharacterNotAllowed('€'))"}));
    report.sample("string", json!({"input": "😀😀😀😀a (17 bytes)", "expected": "Err(StringTooLong)"}));
    report.sample("string", json!({"input": "aZ~\":", "expected": "Ok(\"AZ~\\\":\")"}));
    report.space("every Unicode scalar value (1,112,064) at every position of a string of every byte length 1..=17");
    report.space("all strings of <= 5 (quick: 4) characters over {a,Z,0,space,~,\",:,0x1F,0x7F,é,€,😀} through all five constructors; all multi-byte strings of byte length 13..=20; all pairs of a 2000-element set for ==/cmp/Hash");
    report.assume("multi-character combinations beyond the small alphabets are not enumerated");
    report.finish()
}
