//! E4: loom-controlled schedules of two real halves (or two connections) driven from two threads.
//! The library has no synchronisation of its own, so a loom atomic "tick" before every library
//! call provides the scheduling points. Per-direction bytes must equal the sequential reference
//! in every schedule. Prints one JSON line; exit 0 = held, 1 = violation, 2 = machinery.

use loom::sync::atomic::{AtomicUsize, Ordering};
use loom::sync::Arc;
use refmodel::cipher::{wrath_stream, Dir, Recurrence};
use std::collections::BTreeSet;
use std::sync::Mutex;
use wow_srp::normalized_string::NormalizedString;

static SCHEDULES: std::sync::atomic::AtomicU64 = std::sync::atomic::AtomicU64::new(0);
static ORDERS: Mutex<BTreeSet<Vec<u8>>> = Mutex::new(BTreeSet::new());
static MISMATCH: Mutex<Option<String>> = Mutex::new(None);

const OPS: usize = 3;
const CHUNKS: [usize; OPS] = [4, 6, 1];

fn key(tag: u8) -> [u8; 40] {
    let mut k = [0u8; 40];
    for (i, b) in k.iter_mut().enumerate() {
        *b = (i as u8).wrapping_mul(37).wrapping_add(tag);
    }
    k
}
fn user() -> NormalizedString {
    NormalizedString::new("A").unwrap()
}
fn plain(thread: u8, op: usize) -> Vec<u8> {
    (0..CHUNKS[op]).map(|i| (i as u8).wrapping_mul(29).wrapping_add(thread * 101 + op as u8 * 7)).collect()
}

/// Run `a` and `b` (OPS operations each) in two loom threads with a scheduling point before every
/// operation; collect outputs; compare with expected.
fn two_threads<A, B>(name: &'static str, mk: impl Fn() -> (A, B) + Sync + Send + 'static, op_a: fn(&mut A, &mut [u8]), op_b: fn(&mut B, &mut [u8]), want_a: Vec<Vec<u8>>, want_b: Vec<Vec<u8>>)
where
    A: Send + 'static,
    B: Send + 'static,
{
    let want_a = std::sync::Arc::new(want_a);
    let want_b = std::sync::Arc::new(want_b);
    let mut builder = loom::model::Builder::new();
    builder.preemption_bound = None;
    builder.check(move || {
        SCHEDULES.fetch_add(1, std::sync::atomic::Ordering::Relaxed);
        let (mut a, mut b) = mk();
        let tick = Arc::new(AtomicUsize::new(0));
        let order = Arc::new(loom::sync::Mutex::new(Vec::<u8>::new()));
        let (t1, o1) = (tick.clone(), order.clone());
        let ha = loom::thread::spawn(move || {
            let mut out = vec![];
            for op in 0..OPS {
                t1.fetch_add(1, Ordering::SeqCst); // scheduling point
                let mut d = plain(0, op);
                op_a(&mut a, &mut d);
                o1.lock().unwrap().push(0);
                out.push(d);
            }
            out
        });
        let (t2, o2) = (tick.clone(), order.clone());
        let hb = loom::thread::spawn(move || {
            let mut out = vec![];
            for op in 0..OPS {
                t2.fetch_add(1, Ordering::SeqCst);
                let mut d = plain(1, op);
                op_b(&mut b, &mut d);
                o2.lock().unwrap().push(1);
                out.push(d);
            }
            out
        });
        let ra = ha.join().unwrap();
        let rb = hb.join().unwrap();
        let ord = order.lock().unwrap().clone();
        if ra != *want_a || rb != *want_b {
            let mut m = MISMATCH.lock().unwrap();
            if m.is_none() {
                *m = Some(format!("{name}: with operation order {ord:?} thread A produced {ra:x?} (sequential reference {:x?}), thread B produced {rb:x?} (reference {:x?})", *want_a, *want_b));
            }
        }
        ORDERS.lock().unwrap().insert(ord);
    });
}

/// Three connections in three threads, two operations each.
fn three_threads(name: &'static str, keys: [[u8; 40]; 3]) {
    let want: Vec<Vec<Vec<u8>>> = keys
        .iter()
        .enumerate()
        .map(|(t, k)| {
            let mut r = Recurrence::vanilla(k);
            (0..2)
                .map(|op| {
                    let mut d = plain(t as u8, op);
                    r.enc(&mut d);
                    d
                })
                .collect()
        })
        .collect();
    let want = std::sync::Arc::new(want);
    let mut builder = loom::model::Builder::new();
    builder.preemption_bound = None;
    builder.check(move || {
        SCHEDULES.fetch_add(1, std::sync::atomic::Ordering::Relaxed);
        let tick = Arc::new(AtomicUsize::new(0));
        let mut hs = vec![];
        for (t, k) in keys.iter().enumerate() {
            let mut c = wow_srp::vanilla_header::ProofSeed::new().into_client_header_crypto(&user(), *k, 0).1;
            let tk = tick.clone();
            hs.push(loom::thread::spawn(move || {
                let mut out = vec![];
                for op in 0..2 {
                    tk.fetch_add(1, Ordering::SeqCst);
                    let mut d = plain(t as u8, op);
                    c.encrypt(&mut d);
                    out.push(d);
                }
                out
            }));
        }
        let got: Vec<Vec<Vec<u8>>> = hs.into_iter().map(|h| h.join().unwrap()).collect();
        if got != *want {
            let mut m = MISMATCH.lock().unwrap();
            if m.is_none() {
                *m = Some(format!("{name}: three connections in three threads produced {got:x?}, sequential reference {:x?}", *want));
            }
        }
    });
}

fn rec_expect(mut r: Recurrence, thread: u8, enc: bool) -> Vec<Vec<u8>> {
    (0..OPS)
        .map(|op| {
            let mut d = plain(thread, op);
            if enc {
                r.enc(&mut d)
            } else {
                r.dec(&mut d)
            }
            d
        })
        .collect()
}
fn rc4_expect(mut r: refmodel::hash::Rc4, thread: u8) -> Vec<Vec<u8>> {
    (0..OPS)
        .map(|op| {
            let mut d = plain(thread, op);
            r.apply(&mut d);
            d
        })
        .collect()
}

fn main() {
    let mut harnesses = 0;
    let k = key(1);
    let k2 = key(2);
    // 1. Vanilla: encrypter half in thread A, decrypter half in thread B
    two_threads(
        "vanilla halves",
        move || wow_srp::vanilla_header::ProofSeed::new().into_client_header_crypto(&user(), k, 0).1.split(),
        |e, d| e.encrypt(d),
        |e, d| e.decrypt(d),
        rec_expect(Recurrence::vanilla(&k), 0, true),
        rec_expect(Recurrence::vanilla(&k), 1, false),
    );
    harnesses += 1;
    // 2. TBC halves
    two_threads(
        "tbc halves",
        move || wow_srp::tbc_header::ProofSeed::new().into_client_header_crypto(&user(), k, 0).1.split(),
        |e, d| e.encrypt(d),
        |e, d| e.decrypt(d),
        rec_expect(Recurrence::tbc(&k), 0, true),
        rec_expect(Recurrence::tbc(&k), 1, false),
    );
    harnesses += 1;
    // 3. Wrath client halves
    two_threads(
        "wrath client halves",
        move || wow_srp::wrath_header::ProofSeed::new().into_client_header_crypto(&user(), k, 0).1.split(),
        |e, d| e.encrypt(d),
        |e, d| e.decrypt(d),
        rc4_expect(wrath_stream(&k, Dir::ClientToServer), 0),
        rc4_expect(wrath_stream(&k, Dir::ServerToClient), 1),
    );
    harnesses += 1;
    // 4. two different Vanilla connections, both encrypting
    two_threads(
        "two vanilla connections",
        move || {
            (
                wow_srp::vanilla_header::ProofSeed::new().into_client_header_crypto(&user(), k, 0).1,
                wow_srp::vanilla_header::ProofSeed::new().into_client_header_crypto(&user(), k2, 0).1,
            )
        },
        |e, d| e.encrypt(d),
        |e, d| e.encrypt(d),
        rec_expect(Recurrence::vanilla(&k), 0, true),
        rec_expect(Recurrence::vanilla(&k2), 1, true),
    );
    harnesses += 1;
    // 5. two Wrath client connections with the same key (same keystream, separately owned state)
    two_threads(
        "two wrath connections same key",
        move || {
            (
                wow_srp::wrath_header::ProofSeed::new().into_client_header_crypto(&user(), k, 0).1,
                wow_srp::wrath_header::ProofSeed::new().into_client_header_crypto(&user(), k, 0).1,
            )
        },
        |e, d| e.encrypt(d),
        |e, d| e.encrypt(d),
        rc4_expect(wrath_stream(&k, Dir::ClientToServer), 0),
        rc4_expect(wrath_stream(&k, Dir::ClientToServer), 1),
    );
    harnesses += 1;

    // 6. three Vanilla connections (two of them with the same key) in three threads
    three_threads("three vanilla connections", [k, k2, k]);
    harnesses += 1;

    let schedules = SCHEDULES.load(std::sync::atomic::Ordering::Relaxed);
    let orders = ORDERS.lock().unwrap().len();
    let mismatch = MISMATCH.lock().unwrap().clone();
    match mismatch {
        Some(m) => {
            println!("{}", serde_json::json!({"ok": false, "harness": m.split(':').next().unwrap_or("?"), "violation": m, "schedules": schedules}));
            std::process::exit(1);
        }
        None => {
            // 2 threads x 3 ops: C(6,3) = 20 distinct operation orders must have been observed
            if orders < 20 {
                println!("{}", serde_json::json!({"ok": false, "machinery": format!("only {orders} of 20 operation orders observed")}));
                std::process::exit(2);
            }
            println!(
                "{}",
                serde_json::json!({"ok": true, "schedules": schedules, "harnesses": harnesses, "threads": "2 threads x 3 ops (five harnesses), 3 threads x 2 ops (one harness)", "ops_per_thread": OPS,
                    "distinct_operation_orders_observed": orders, "distinct_operation_orders_possible": 20, "preemption_bound": "none"})
            );
        }
    }
}
