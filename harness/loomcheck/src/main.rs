fn main() {}
