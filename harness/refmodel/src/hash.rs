//! SHA-1 (FIPS 180), HMAC-SHA1 (RFC 2104), MD5 (RFC 1321), RC4. Written from the standards,
//! no dependency on any crate.

pub fn sha1(data: &[u8]) -> [u8; 20] {
    let mut h: [u32; 5] = [0x67452301, 0xEFCDAB89, 0x98BADCFE, 0x10325476, 0xC3D2E1F0];
    let ml = (data.len() as u64).wrapping_mul(8);
    let mut msg = Vec::with_capacity(data.len() + 72);
    msg.extend_from_slice(data);
    msg.push(0x80);
    while msg.len() % 64 != 56 {
        msg.push(0);
    }
    msg.extend_from_slice(&ml.to_be_bytes());
    let mut w = [0u32; 80];
    for block in msg.chunks_exact(64) {
        for t in 0..16 {
            w[t] = u32::from_be_bytes([block[4 * t], block[4 * t + 1], block[4 * t + 2], block[4 * t + 3]]);
        }
        for t in 16..80 {
            w[t] = (w[t - 3] ^ w[t - 8] ^ w[t - 14] ^ w[t - 16]).rotate_left(1);
        }
        let (mut a, mut b, mut c, mut d, mut e) = (h[0], h[1], h[2], h[3], h[4]);
        for (t, wt) in w.iter().enumerate() {
            let (f, k) = match t {
                0..=19 => ((b & c) | ((!b) & d), 0x5A827999u32),
                20..=39 => (b ^ c ^ d, 0x6ED9EBA1),
                40..=59 => ((b & c) | (b & d) | (c & d), 0x8F1BBCDC),
                _ => (b ^ c ^ d, 0xCA62C1D6),
            };
            let temp = a
                .rotate_left(5)
                .wrapping_add(f)
                .wrapping_add(e)
                .wrapping_add(k)
                .wrapping_add(*wt);
            e = d;
            d = c;
            c = b.rotate_left(30);
            b = a;
            a = temp;
        }
        h[0] = h[0].wrapping_add(a);
        h[1] = h[1].wrapping_add(b);
        h[2] = h[2].wrapping_add(c);
        h[3] = h[3].wrapping_add(d);
        h[4] = h[4].wrapping_add(e);
    }
    let mut out = [0u8; 20];
    for i in 0..5 {
        out[4 * i..4 * i + 4].copy_from_slice(&h[i].to_be_bytes());
    }
    out
}

/// SHA-1 of the concatenation of the parts.
pub fn sha1_parts(parts: &[&[u8]]) -> [u8; 20] {
    let mut v = Vec::new();
    for p in parts {
        v.extend_from_slice(p);
    }
    sha1(&v)
}

pub fn hmac_sha1(key: &[u8], msg: &[u8]) -> [u8; 20] {
    let mut k = [0u8; 64];
    if key.len() > 64 {
        k[..20].copy_from_slice(&sha1(key));
    } else {
        k[..key.len()].copy_from_slice(key);
    }
    let mut inner = Vec::with_capacity(64 + msg.len());
    inner.extend(k.iter().map(|b| b ^ 0x36));
    inner.extend_from_slice(msg);
    let ih = sha1(&inner);
    let mut outer = Vec::with_capacity(84);
    outer.extend(k.iter().map(|b| b ^ 0x5c));
    outer.extend_from_slice(&ih);
    sha1(&outer)
}

pub fn md5(data: &[u8]) -> [u8; 16] {
    const S: [u32; 64] = [
        7, 12, 17, 22, 7, 12, 17, 22, 7, 12, 17, 22, 7, 12, 17, 22, 5, 9, 14, 20, 5, 9, 14, 20, 5, 9, 14, 20, 5, 9,
        14, 20, 4, 11, 16, 23, 4, 11, 16, 23, 4, 11, 16, 23, 4, 11, 16, 23, 6, 10, 15, 21, 6, 10, 15, 21, 6, 10, 15,
        21, 6, 10, 15, 21,
    ];
    let mut k = [0u32; 64];
    for (i, ki) in k.iter_mut().enumerate() {
        *ki = ((i as f64 + 1.0).sin().abs() * 4294967296.0) as u32;
    }
    let (mut a0, mut b0, mut c0, mut d0) = (0x67452301u32, 0xefcdab89u32, 0x98badcfeu32, 0x10325476u32);
    let mut msg = data.to_vec();
    msg.push(0x80);
    while msg.len() % 64 != 56 {
        msg.push(0);
    }
    msg.extend_from_slice(&((data.len() as u64).wrapping_mul(8)).to_le_bytes());
    for block in msg.chunks_exact(64) {
        let mut m = [0u32; 16];
        for i in 0..16 {
            m[i] = u32::from_le_bytes([block[4 * i], block[4 * i + 1], block[4 * i + 2], block[4 * i + 3]]);
        }
        let (mut a, mut b, mut c, mut d) = (a0, b0, c0, d0);
        for i in 0..64 {
            let (mut f, g) = match i / 16 {
                0 => ((b & c) | ((!b) & d), i),
                1 => ((d & b) | ((!d) & c), (5 * i + 1) % 16),
                2 => (b ^ c ^ d, (3 * i + 5) % 16),
                _ => (c ^ (b | (!d)), (7 * i) % 16),
            };
            f = f.wrapping_add(a).wrapping_add(k[i]).wrapping_add(m[g]);
            a = d;
            d = c;
            c = b;
            b = b.wrapping_add(f.rotate_left(S[i]));
        }
        a0 = a0.wrapping_add(a);
        b0 = b0.wrapping_add(b);
        c0 = c0.wrapping_add(c);
        d0 = d0.wrapping_add(d);
    }
    let mut out = [0u8; 16];
    out[0..4].copy_from_slice(&a0.to_le_bytes());
    out[4..8].copy_from_slice(&b0.to_le_bytes());
    out[8..12].copy_from_slice(&c0.to_le_bytes());
    out[12..16].copy_from_slice(&d0.to_le_bytes());
    out
}

/// Textbook RC4.
#[derive(Clone)]
pub struct Rc4 {
    s: [u8; 256],
    i: usize,
    j: usize,
}

impl Rc4 {
    pub fn new(key: &[u8]) -> Self {
        let mut s = [0u8; 256];
        for (i, x) in s.iter_mut().enumerate() {
            *x = i as u8;
        }
        let mut j = 0usize;
        for i in 0..256 {
            j = (j + s[i] as usize + key[i % key.len()] as usize) % 256;
            s.swap(i, j);
        }
        Rc4 { s, i: 0, j: 0 }
    }

    pub fn next_byte(&mut self) -> u8 {
        self.i = (self.i + 1) % 256;
        self.j = (self.j + self.s[self.i] as usize) % 256;
        self.s.swap(self.i, self.j);
        self.s[(self.s[self.i] as usize + self.s[self.j] as usize) % 256]
    }

    pub fn skip(&mut self, n: usize) {
        for _ in 0..n {
            self.next_byte();
        }
    }

    pub fn apply(&mut self, data: &mut [u8]) {
        for d in data {
            *d ^= self.next_byte();
        }
    }
}

fn hex(b: &[u8]) -> String {
    b.iter().map(|x| format!("{:02x}", x)).collect()
}

/// Published vectors: FIPS 180 (SHA-1), RFC 2202 (HMAC-SHA1), RFC 1321 (MD5), RFC 6229 (RC4).
pub fn selftest() -> Result<(), String> {
    let chk = |name: &str, got: String, want: &str| -> Result<(), String> {
        if got == want {
            Ok(())
        } else {
            Err(format!("refmodel primitive {name}: got {got} want {want}"))
        }
    };
    chk("sha1 abc", hex(&sha1(b"abc")), "a9993e364706816aba3e25717850c26c9cd0d89d")?;
    chk("sha1 empty", hex(&sha1(b"")), "da39a3ee5e6b4b0d3255bfef95601890afd80709")?;
    chk(
        "sha1 448",
        hex(&sha1(b"abcdbcdecdefdefgefghfghighijhijkijkljklmklmnlmnomnopnopq")),
        "84983e441c3bd26ebaae4aa1f95129e5e54670f1",
    )?;
    chk("sha1 1M a", hex(&sha1(&vec![b'a'; 1_000_000])), "34aa973cd4c4daa4f61eeb2bdbad27316534016f")?;
    chk("hmac 1", hex(&hmac_sha1(&[0x0b; 20], b"Hi There")), "b617318655057264e28bc0b6fb378c8ef146be00")?;
    chk(
        "hmac 2",
        hex(&hmac_sha1(b"Jefe", b"what do ya want for nothing?")),
        "effcdf6ae5eb2fa2d27416d5f184df9c259a7c79",
    )?;
    chk("hmac 3", hex(&hmac_sha1(&[0xaa; 20], &[0xdd; 50])), "125d7342b9ac11cd91a39af48aa17b4f63f175d3")?;
    chk(
        "hmac 6 (80-byte key)",
        hex(&hmac_sha1(&[0xaa; 80], b"Test Using Larger Than Block-Size Key - Hash Key First")),
        "aa4ae5e15272d00e95705637ce8a3b55ed402112",
    )?;
    chk("md5 empty", hex(&md5(b"")), "d41d8cd98f00b204e9800998ecf8427e")?;
    chk("md5 abc", hex(&md5(b"abc")), "900150983cd24fb0d6963f7d28e17f72")?;
    chk(
        "md5 alnum",
        hex(&md5(b"ABCDEFGHIJKLMNOPQRSTUVWXYZabcdefghijklmnopqrstuvwxyz0123456789")),
        "d174ab98d277d9f5a5611c2c9f419d9f",
    )?;
    // RFC 6229, 40-bit key 0102030405: offsets 0 and 1024
    let mut r = Rc4::new(&[1, 2, 3, 4, 5]);
    let mut ks = vec![0u8; 1040];
    r.apply(&mut ks);
    chk("rc4 off 0", hex(&ks[0..16]), "b2396305f03dc027ccc3524a0a1118a8")?;
    chk("rc4 off 1024", hex(&ks[1024..1040]), "30abbcc7c20b01609f23ee2d5f6bb7df")?;
    // 128-bit key 0102..10, offset 0
    let key: Vec<u8> = (1..=16).collect();
    let mut r = Rc4::new(&key);
    let mut ks = vec![0u8; 16];
    r.apply(&mut ks);
    chk("rc4 128 off 0", hex(&ks), "9ac7cc9a609d1ef7b2932899cde41b97")?;
    Ok(())
}
