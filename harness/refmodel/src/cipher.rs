//! Header ciphers: the Vanilla/TBC recurrence and Wrath's RC4-drop1024.

use crate::hash::{hmac_sha1, Rc4};

pub const TBC_SEED: [u8; 16] = [
    0x38, 0xA7, 0x83, 0x15, 0xF8, 0x92, 0x25, 0x30, 0x71, 0x98, 0x67, 0xB1, 0x8C, 0x04, 0xE2, 0xAA,
];
/// Wrath client->server constant (client encrypts, server decrypts).
pub const WRATH_C2S: [u8; 16] = [
    0xC2, 0xB3, 0x72, 0x3C, 0xC6, 0xAE, 0xD9, 0xB5, 0x34, 0x3C, 0x53, 0xEE, 0x2F, 0x43, 0x67, 0xCE,
];
/// Wrath server->client constant (server encrypts, client decrypts).
pub const WRATH_S2C: [u8; 16] = [
    0xCC, 0x98, 0xAE, 0x04, 0xE8, 0x97, 0xEA, 0xCA, 0x12, 0xDD, 0xC0, 0x93, 0x42, 0x91, 0x53, 0x57,
];

/// c_n = (x_n XOR key[n mod len]) + c_(n-1) mod 256, c_(-1) = 0
#[derive(Clone, Debug, PartialEq, Eq, Hash)]
pub struct Recurrence {
    pub key: Vec<u8>,
    pub n: usize,
    pub prev: u8,
}

impl Recurrence {
    pub fn vanilla(session_key: &[u8; 40]) -> Self {
        Recurrence { key: session_key.to_vec(), n: 0, prev: 0 }
    }
    pub fn tbc(session_key: &[u8; 40]) -> Self {
        Recurrence { key: hmac_sha1(&TBC_SEED, session_key).to_vec(), n: 0, prev: 0 }
    }
    pub fn enc_byte(&mut self, x: u8) -> u8 {
        let c = (x ^ self.key[self.n % self.key.len()]).wrapping_add(self.prev);
        self.n += 1;
        self.prev = c;
        c
    }
    pub fn dec_byte(&mut self, c: u8) -> u8 {
        let x = c.wrapping_sub(self.prev) ^ self.key[self.n % self.key.len()];
        self.n += 1;
        self.prev = c;
        x
    }
    pub fn enc(&mut self, d: &mut [u8]) {
        for b in d {
            *b = self.enc_byte(*b);
        }
    }
    pub fn dec(&mut self, d: &mut [u8]) {
        for b in d {
            *b = self.dec_byte(*b);
        }
    }
}

/// Pure step functions of the recurrence on an explicit (position, previous byte) state.
pub fn enc_step(key: &[u8], pos: usize, prev: u8, x: u8) -> (u8, usize, u8) {
    let c = (x ^ key[pos]).wrapping_add(prev);
    (c, (pos + 1) % key.len(), c)
}
pub fn dec_step(key: &[u8], pos: usize, prev: u8, c: u8) -> (u8, usize, u8) {
    let x = c.wrapping_sub(prev) ^ key[pos];
    (x, (pos + 1) % key.len(), c)
}

#[derive(Clone, Copy, Debug, PartialEq, Eq)]
pub enum Dir {
    ClientToServer,
    ServerToClient,
}

/// RC4 keyed by HMAC-SHA1(direction constant, session key), first 1024 bytes discarded.
pub fn wrath_stream(session_key: &[u8; 40], dir: Dir) -> Rc4 {
    let c = match dir {
        Dir::ClientToServer => WRATH_C2S,
        Dir::ServerToClient => WRATH_S2C,
    };
    let mut r = Rc4::new(&hmac_sha1(&c, session_key));
    r.skip(1024);
    r
}

/// Plaintext Wrath server header: 4 bytes if size <= 0x7FFF else 5 with the 0x80 marker.
pub fn wrath_server_header_plain(size: u32, opcode: u16) -> Vec<u8> {
    let s = size.to_be_bytes();
    let o = opcode.to_le_bytes();
    if size > 0x7FFF {
        vec![s[1] | 0x80, s[2], s[3], o[0], o[1]]
    } else {
        vec![s[2], s[3], o[0], o[1]]
    }
}
/// Vanilla/TBC server header: big-endian size, little-endian opcode.
pub fn server_header_plain(size: u16, opcode: u16) -> [u8; 4] {
    let s = size.to_be_bytes();
    let o = opcode.to_le_bytes();
    [s[0], s[1], o[0], o[1]]
}
pub fn client_header_plain(size: u16, opcode: u32) -> [u8; 6] {
    let s = size.to_be_bytes();
    let o = opcode.to_le_bytes();
    [s[0], s[1], o[0], o[1], o[2], o[3]]
}
