//! Plain unsigned big integers: little-endian `u32` limbs, schoolbook multiplication, Knuth
//! algorithm D division. Mathematical `mod` (result always in `[0, m)`). Deliberately boring.

use std::cmp::Ordering;

#[derive(Clone, Debug, PartialEq, Eq, Hash)]
pub struct U {
    /// little-endian limbs, no trailing zero limbs (zero is the empty vector)
    l: Vec<u32>,
}

impl U {
    pub fn zero() -> U {
        U { l: vec![] }
    }
    pub fn from_u64(v: u64) -> U {
        let mut u = U { l: vec![v as u32, (v >> 32) as u32] };
        u.trim();
        u
    }
    fn trim(&mut self) {
        while let Some(&0) = self.l.last() {
            self.l.pop();
        }
    }
    pub fn is_zero(&self) -> bool {
        self.l.is_empty()
    }
    pub fn is_even(&self) -> bool {
        self.l.first().map_or(true, |x| x & 1 == 0)
    }
    pub fn from_le_bytes(b: &[u8]) -> U {
        let mut l = Vec::with_capacity(b.len() / 4 + 1);
        for c in b.chunks(4) {
            let mut w = [0u8; 4];
            w[..c.len()].copy_from_slice(c);
            l.push(u32::from_le_bytes(w));
        }
        let mut u = U { l };
        u.trim();
        u
    }
    /// Minimal little-endian bytes (empty for zero).
    pub fn to_le_bytes(&self) -> Vec<u8> {
        let mut v = Vec::with_capacity(self.l.len() * 4);
        for w in &self.l {
            v.extend_from_slice(&w.to_le_bytes());
        }
        while let Some(&0) = v.last() {
            v.pop();
        }
        v
    }
    /// Little-endian, zero padded to exactly `n` bytes. Panics if the value does not fit.
    pub fn to_le_padded<const N: usize>(&self) -> [u8; N] {
        let v = self.to_le_bytes();
        assert!(v.len() <= N, "value does not fit in {} bytes", N);
        let mut out = [0u8; N];
        out[..v.len()].copy_from_slice(&v);
        out
    }
    pub fn bits(&self) -> usize {
        match self.l.last() {
            None => 0,
            Some(t) => self.l.len() * 32 - t.leading_zeros() as usize,
        }
    }
    pub fn bit(&self, i: usize) -> bool {
        let (w, b) = (i / 32, i % 32);
        w < self.l.len() && (self.l[w] >> b) & 1 == 1
    }
    pub fn cmp(&self, o: &U) -> Ordering {
        if self.l.len() != o.l.len() {
            return self.l.len().cmp(&o.l.len());
        }
        for i in (0..self.l.len()).rev() {
            if self.l[i] != o.l[i] {
                return self.l[i].cmp(&o.l[i]);
            }
        }
        Ordering::Equal
    }
    pub fn add(&self, o: &U) -> U {
        let n = self.l.len().max(o.l.len());
        let mut l = Vec::with_capacity(n + 1);
        let mut c = 0u64;
        for i in 0..n {
            let s = *self.l.get(i).unwrap_or(&0) as u64 + *o.l.get(i).unwrap_or(&0) as u64 + c;
            l.push(s as u32);
            c = s >> 32;
        }
        if c > 0 {
            l.push(c as u32);
        }
        U { l }
    }
    /// self - o, requires self >= o.
    pub fn sub(&self, o: &U) -> U {
        assert!(self.cmp(o) != Ordering::Less, "U::sub underflow");
        let mut l = Vec::with_capacity(self.l.len());
        let mut borrow = 0i64;
        for i in 0..self.l.len() {
            let mut d = self.l[i] as i64 - *o.l.get(i).unwrap_or(&0) as i64 - borrow;
            if d < 0 {
                d += 1 << 32;
                borrow = 1;
            } else {
                borrow = 0;
            }
            l.push(d as u32);
        }
        assert_eq!(borrow, 0);
        let mut u = U { l };
        u.trim();
        u
    }
    pub fn mul(&self, o: &U) -> U {
        if self.is_zero() || o.is_zero() {
            return U::zero();
        }
        let mut l = vec![0u32; self.l.len() + o.l.len()];
        for i in 0..self.l.len() {
            let mut c = 0u64;
            let a = self.l[i] as u64;
            for j in 0..o.l.len() {
                let t = a * o.l[j] as u64 + l[i + j] as u64 + c;
                l[i + j] = t as u32;
                c = t >> 32;
            }
            l[i + o.l.len()] = c as u32;
        }
        let mut u = U { l };
        u.trim();
        u
    }
    /// (quotient, remainder); panics on division by zero.
    pub fn divrem(&self, v: &U) -> (U, U) {
        assert!(!v.is_zero(), "division by zero");
        if self.cmp(v) == Ordering::Less {
            return (U::zero(), self.clone());
        }
        let n = v.l.len();
        let m = self.l.len();
        if n == 1 {
            let d = v.l[0] as u64;
            let mut q = vec![0u32; m];
            let mut r = 0u64;
            for i in (0..m).rev() {
                let cur = (r << 32) | self.l[i] as u64;
                q[i] = (cur / d) as u32;
                r = cur % d;
            }
            let mut q = U { l: q };
            q.trim();
            return (q, U::from_u64(r));
        }
        // Knuth D, after Hacker's Delight divmnu
        const B: u64 = 1 << 32;
        let s = v.l[n - 1].leading_zeros();
        let mut vn = vec![0u32; n];
        for i in (1..n).rev() {
            vn[i] = (v.l[i] << s) | if s == 0 { 0 } else { v.l[i - 1] >> (32 - s) };
        }
        vn[0] = v.l[0] << s;
        let mut un = vec![0u32; m + 1];
        un[m] = if s == 0 { 0 } else { self.l[m - 1] >> (32 - s) };
        for i in (1..m).rev() {
            un[i] = (self.l[i] << s) | if s == 0 { 0 } else { self.l[i - 1] >> (32 - s) };
        }
        un[0] = self.l[0] << s;
        let mut q = vec![0u32; m - n + 1];
        for j in (0..=m - n).rev() {
            let num = ((un[j + n] as u64) << 32) | un[j + n - 1] as u64;
            let mut qhat = num / vn[n - 1] as u64;
            let mut rhat = num % vn[n - 1] as u64;
            while qhat >= B || qhat * vn[n - 2] as u64 > ((rhat << 32) | un[j + n - 2] as u64) {
                qhat -= 1;
                rhat += vn[n - 1] as u64;
                if rhat >= B {
                    break;
                }
            }
            let mut k: i64 = 0;
            let mut t: i64;
            for i in 0..n {
                let p = qhat * vn[i] as u64;
                t = un[i + j] as i64 - k - (p & 0xFFFF_FFFF) as i64;
                un[i + j] = t as u32;
                k = (p >> 32) as i64 - (t >> 32);
            }
            t = un[j + n] as i64 - k;
            un[j + n] = t as u32;
            q[j] = qhat as u32;
            if t < 0 {
                q[j] = q[j].wrapping_sub(1);
                let mut c = 0u64;
                for i in 0..n {
                    let t2 = un[i + j] as u64 + vn[i] as u64 + c;
                    un[i + j] = t2 as u32;
                    c = t2 >> 32;
                }
                un[j + n] = (un[j + n] as u64 + c) as u32;
            }
        }
        let mut r = vec![0u32; n];
        for i in 0..n {
            r[i] = (un[i] >> s) | if s == 0 { 0 } else { ((un[i + 1] as u64) << (32 - s)) as u32 };
        }
        let mut q = U { l: q };
        q.trim();
        let mut r = U { l: r };
        r.trim();
        (q, r)
    }
    pub fn rem(&self, m: &U) -> U {
        self.divrem(m).1
    }
    pub fn mulmod(&self, o: &U, m: &U) -> U {
        self.mul(o).rem(m)
    }
    /// self^e mod m, mathematical (0^0 = 1 mod m; anything mod 1 = 0).
    pub fn modpow(&self, e: &U, m: &U) -> U {
        assert!(!m.is_zero(), "modulus is zero");
        let one = U::from_u64(1).rem(m);
        let base = self.rem(m);
        let mut acc = one;
        for i in (0..e.bits()).rev() {
            acc = acc.mulmod(&acc, m);
            if e.bit(i) {
                acc = acc.mulmod(&base, m);
            }
        }
        acc
    }
    /// (a - b) mod m, mathematical.
    pub fn submod(a: &U, b: &U, m: &U) -> U {
        let a = a.rem(m);
        let b = b.rem(m);
        if a.cmp(&b) != Ordering::Less {
            a.sub(&b)
        } else {
            a.add(m).sub(&b)
        }
    }
    /// Modular inverse for prime m via Fermat (m must be prime, self != 0 mod m).
    pub fn inv_prime(&self, m: &U) -> U {
        self.modpow(&m.sub(&U::from_u64(2)), m)
    }
    pub fn to_hex_be(&self) -> String {
        let mut b = self.to_le_bytes();
        if b.is_empty() {
            return "0".into();
        }
        b.reverse();
        b.iter().map(|x| format!("{:02x}", x)).collect()
    }
    pub fn from_hex_be(s: &str) -> U {
        let s = if s.len() % 2 == 1 { format!("0{s}") } else { s.to_string() };
        let mut b: Vec<u8> = (0..s.len() / 2).map(|i| u8::from_str_radix(&s[2 * i..2 * i + 2], 16).unwrap()).collect();
        b.reverse();
        U::from_le_bytes(&b)
    }
}
