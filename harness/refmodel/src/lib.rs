//! Independent reference model for the wow_srp properties. No dependency on wow_srp, sha1, hmac,
//! md5, rand, num-bigint or rug: everything is written here from the standards and the property
//! statements, and validated against published vectors, Python and the repository's vector files.

pub mod big;
pub mod cipher;
pub mod hash;
pub mod misc;
pub mod srp;

/// Deterministic "random-looking" bytes: SHA-1 in counter mode over (seed, label).
pub fn ctr_bytes(seed: u64, label: &str, n: usize) -> Vec<u8> {
    let mut out = Vec::with_capacity(n + 20);
    let mut c = 0u64;
    while out.len() < n {
        out.extend_from_slice(&hash::sha1_parts(&[b"verif", &seed.to_le_bytes(), label.as_bytes(), &c.to_le_bytes()]));
        c += 1;
    }
    out.truncate(n);
    out
}
pub fn ctr_array<const N: usize>(seed: u64, label: &str) -> [u8; N] {
    let v = ctr_bytes(seed, label, N);
    let mut a = [0u8; N];
    a.copy_from_slice(&v);
    a
}
