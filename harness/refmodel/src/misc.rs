//! Credential strings, PIN, integrity, matrix card — straight from the property statements.

use crate::hash::{hmac_sha1, md5, sha1_parts, Rc4};

#[derive(Debug, Clone, PartialEq, Eq)]
pub enum NormErr {
    Length,
    Char(char),
}

/// 1..=16 bytes, all chars in 0x20..=0x7E; a..z -> A..Z. Length is checked first, then the first
/// offending character is reported.
pub fn normalize(s: &str) -> Result<Vec<u8>, NormErr> {
    if s.is_empty() || s.len() > 16 {
        return Err(NormErr::Length);
    }
    let mut out = Vec::new();
    for c in s.chars() {
        let v = c as u32;
        if !(0x20..=0x7E).contains(&v) {
            return Err(NormErr::Char(c));
        }
        let b = v as u8;
        out.push(if b.is_ascii_lowercase() { b - 32 } else { b });
    }
    Ok(out)
}

/// Keypad layout for a grid seed: factorial-base selection without replacement.
pub fn pin_layout(seed: u32) -> [u8; 10] {
    let mut pool: Vec<u8> = (0..10).collect();
    let mut s = seed as u64;
    let mut out = [0u8; 10];
    for (slot, radix) in (1..=10u64).rev().enumerate() {
        let r = (s % radix) as usize;
        s /= radix;
        out[slot] = pool.remove(r);
    }
    out
}

pub fn pin_digits(pin: u32) -> Vec<u8> {
    if pin == 0 {
        return vec![];
    }
    pin.to_string().bytes().map(|b| b - b'0').collect()
}

pub fn pin_hash(pin: u32, seed: u32, server_salt: &[u8; 16], client_salt: &[u8; 16]) -> Option<[u8; 20]> {
    let d = pin_digits(pin);
    if d.len() < 4 || d.len() > 10 {
        return None;
    }
    let layout = pin_layout(seed);
    let ascii: Vec<u8> = d
        .iter()
        .map(|x| layout.iter().position(|y| y == x).expect("layout is a permutation") as u8 + b'0')
        .collect();
    let inner = sha1_parts(&[server_salt, &ascii]);
    Some(sha1_parts(&[client_salt, &inner]))
}

/// SHA-1(client public key | HMAC-SHA1(salt, all files concatenated))
pub fn integrity(all_files: &[u8], salt: &[u8; 16], key: &[u8; 32]) -> [u8; 20] {
    let c = hmac_sha1(salt, all_files);
    sha1_parts(&[key, &c])
}
pub fn reconnect_integrity(salt: &[u8; 16]) -> [u8; 20] {
    sha1_parts(&[salt, &[0u8; 20]])
}

/// Matrix card: challenged cell indices for a seed (selection without replacement,
/// successive seed mod / div over the shrinking index list).
pub fn matrix_cells(width: u8, height: u8, count: u8, seed: u64) -> Vec<u8> {
    let cells = width as usize * height as usize;
    let mut pool: Vec<u8> = (0..cells).map(|i| i as u8).collect();
    let mut s = seed;
    let mut out = vec![];
    for _ in 0..count {
        let c = pool.len() as u64;
        let i = (s % c) as usize;
        out.push(pool.remove(i));
        s /= c;
    }
    out
}

/// HMAC-SHA1 keyed by MD5(seed LE | K) over the RC4(MD5(seed LE | K))-encrypted digits.
pub fn matrix_proof(seed: u64, session_key: &[u8; 40], digits: &[u8]) -> [u8; 20] {
    let mut pre = seed.to_le_bytes().to_vec();
    pre.extend_from_slice(session_key);
    let key = md5(&pre);
    let mut rc4 = Rc4::new(&key);
    let mut enc = digits.to_vec();
    rc4.apply(&mut enc);
    hmac_sha1(&key, &enc)
}
