//! WoW flavour of SRP6, written from the property statements:
//! SHA-1, k = 3, 32-byte little-endian fields, SHA_Interleave over the little-endian secret with
//! leading zero bytes removed (and one more if an odd number remain).

use crate::big::U;
use crate::hash::{sha1, sha1_parts};

/// The built-in modulus N, big-endian hex as printed in every WoW emulator.
pub const N_HEX_BE: &str = "894B645E89E1535BBDAD5B8B290650530801B18EBFBF5E8FAB3C82872A3E9BB7";
pub const G: u8 = 7;
pub const K: u64 = 3;

pub fn n_builtin() -> U {
    U::from_hex_be(&N_HEX_BE.to_lowercase())
}
pub fn n_builtin_le() -> [u8; 32] {
    n_builtin().to_le_padded::<32>()
}

/// x = H(salt | H(U ":" P)), as a little-endian integer. `user`/`pass` are already normalised.
pub fn x_bytes(user: &[u8], pass: &[u8], salt: &[u8; 32]) -> [u8; 20] {
    let inner = sha1_parts(&[user, b":", pass]);
    sha1_parts(&[salt, &inner])
}

pub fn verifier(user: &[u8], pass: &[u8], salt: &[u8; 32], g: u8, n: &U) -> U {
    let x = U::from_le_bytes(&x_bytes(user, pass, salt));
    U::from_u64(g as u64).modpow(&x, n)
}

/// B = (k*v + g^b) mod N
pub fn server_public(v: &U, b: &U, g: u8, n: &U) -> U {
    U::from_u64(K).mul(v).add(&U::from_u64(g as u64).modpow(b, n)).rem(n)
}

/// A = g^a mod N
pub fn client_public(a: &U, g: u8, n: &U) -> U {
    U::from_u64(g as u64).modpow(a, n)
}

/// u = H(A | B) over the 32-byte little-endian encodings.
pub fn u_bytes(a_pub: &[u8; 32], b_pub: &[u8; 32]) -> [u8; 20] {
    sha1_parts(&[a_pub, b_pub])
}

/// S = (A * v^u)^b mod N
pub fn server_s(a_pub: &U, v: &U, u: &U, b: &U, n: &U) -> U {
    a_pub.mul(&v.modpow(u, n)).rem(n).modpow(b, n)
}

/// S = (B - k*g^x)^(a + u*x) mod N, mathematical mod (a negative base is reduced into [0, N)).
pub fn client_s(b_pub: &U, x: &U, a: &U, u: &U, g: u8, n: &U) -> U {
    let kgx = U::from_u64(K).mul(&U::from_u64(g as u64).modpow(x, n));
    let base = U::submod(b_pub, &kgx, n);
    let e = a.add(&u.mul(x));
    base.modpow(&e, n)
}

/// Is B - k*g^x negative before reduction?
pub fn client_base_negative(b_pub: &U, x: &U, g: u8, n: &U) -> bool {
    let kgx = U::from_u64(K).mul(&U::from_u64(g as u64).modpow(x, n));
    b_pub.cmp(&kgx) == std::cmp::Ordering::Less
}

/// SHA_Interleave over the 32-byte little-endian S. Returns None for S = 0 (excluded by the
/// properties; the library is only required not to crash there).
pub fn interleave(s: &[u8; 32]) -> Option<[u8; 40]> {
    let mut t: &[u8] = &s[..];
    while !t.is_empty() && t[0] == 0 {
        t = &t[1..];
    }
    if t.is_empty() {
        return None;
    }
    if t.len() % 2 == 1 {
        t = &t[1..];
    }
    let e: Vec<u8> = t.iter().step_by(2).copied().collect();
    let f: Vec<u8> = t.iter().skip(1).step_by(2).copied().collect();
    let g = sha1(&e);
    let h = sha1(&f);
    let mut k = [0u8; 40];
    for i in 0..20 {
        k[2 * i] = g[i];
        k[2 * i + 1] = h[i];
    }
    Some(k)
}

/// What the library's fixed repair produces for S = 0: interleave of the empty string.
pub fn interleave_of_empty() -> [u8; 40] {
    let g = sha1(&[]);
    let mut k = [0u8; 40];
    for i in 0..20 {
        k[2 * i] = g[i];
        k[2 * i + 1] = g[i];
    }
    k
}

/// M1 = H( H(N) xor H(g) | H(U) | salt | A | B | K ), N as 32 LE bytes, g as one byte.
pub fn m1(user: &[u8], salt: &[u8; 32], a_pub: &[u8; 32], b_pub: &[u8; 32], k: &[u8; 40], g: u8, n_le: &[u8; 32]) -> [u8; 20] {
    let hn = sha1(n_le);
    let hg = sha1(&[g]);
    let mut x = [0u8; 20];
    for i in 0..20 {
        x[i] = hn[i] ^ hg[i];
    }
    let hu = sha1(user);
    sha1_parts(&[&x, &hu, salt, a_pub, b_pub, k])
}

/// M2 = H(A | M1 | K)
pub fn m2(a_pub: &[u8; 32], m1: &[u8; 20], k: &[u8; 40]) -> [u8; 20] {
    sha1_parts(&[a_pub, m1, k])
}

/// reconnect proof = H(U | client_data | server_data | K)
pub fn reconnect_proof(user: &[u8], client_data: &[u8; 16], server_data: &[u8; 16], k: &[u8; 40]) -> [u8; 20] {
    sha1_parts(&[user, client_data, server_data, k])
}

/// world proof = H(U | 00000000 | client_seed LE | server_seed LE | K)
pub fn world_proof(user: &[u8], client_seed: u32, server_seed: u32, k: &[u8; 40]) -> [u8; 20] {
    sha1_parts(&[user, &[0, 0, 0, 0], &client_seed.to_le_bytes(), &server_seed.to_le_bytes(), k])
}

/// Everything an honest login produces, from the reference model's point of view.
#[derive(Clone, Debug)]
pub struct Login {
    pub v: [u8; 32],
    pub b_pub: [u8; 32],
    pub a_pub: [u8; 32],
    pub s_server: [u8; 32],
    pub s_client: [u8; 32],
    pub k: Option<[u8; 40]>,
    pub m1: Option<[u8; 20]>,
    pub m2: Option<[u8; 20]>,
    pub base_negative: bool,
    /// u = H(A|B) and the client's x, 20 bytes little-endian each
    pub u: [u8; 20],
    pub x: [u8; 20],
}

/// Reference login with the built-in group. `reg_*` are the registered (normalised) credentials,
/// `typed_*` the ones the client uses (normalised). b, a little-endian 32 bytes.
pub fn login(
    reg_user: &[u8],
    reg_pass: &[u8],
    typed_user: &[u8],
    typed_pass: &[u8],
    salt: &[u8; 32],
    b: &[u8; 32],
    a: &[u8; 32],
) -> Login {
    let n = n_builtin();
    let n_le = n_builtin_le();
    let v = verifier(reg_user, reg_pass, salt, G, &n);
    let bb = U::from_le_bytes(b);
    let aa = U::from_le_bytes(a);
    let b_pub = server_public(&v, &bb, G, &n);
    let a_pub = client_public(&aa, G, &n);
    let b_pub_le = b_pub.to_le_padded::<32>();
    let a_pub_le = a_pub.to_le_padded::<32>();
    let u_arr = u_bytes(&a_pub_le, &b_pub_le);
    let u = U::from_le_bytes(&u_arr);
    let ss = server_s(&a_pub, &v, &u, &bb, &n);
    let x_arr = x_bytes(typed_user, typed_pass, salt);
    let x = U::from_le_bytes(&x_arr);
    let sc = client_s(&b_pub, &x, &aa, &u, G, &n);
    let s_server = ss.to_le_padded::<32>();
    let s_client = sc.to_le_padded::<32>();
    let k = interleave(&s_server);
    let m1v = k.map(|k| m1(reg_user, salt, &a_pub_le, &b_pub_le, &k, G, &n_le));
    let m2v = match (k, m1v) {
        (Some(k), Some(m)) => Some(m2(&a_pub_le, &m, &k)),
        _ => None,
    };
    Login {
        v: v.to_le_padded::<32>(),
        b_pub: b_pub_le,
        a_pub: a_pub_le,
        s_server,
        s_client,
        k,
        m1: m1v,
        m2: m2v,
        base_negative: client_base_negative(&b_pub, &x, G, &n),
        u: u_arr,
        x: x_arr,
    }
}
