//! E1: explicit-state breadth-first search over real library objects.
//!
//! A state is whatever `S` the scenario chooses (real objects deriving Clone+Eq+Hash, plus the
//! reference model's state). The visited set is keyed by the concrete state, so merging two paths
//! is exact: equal objects have equal futures. Breadth-first, so a counterexample is shortest.

use std::collections::HashMap;
use std::hash::Hash;

pub struct BfsResult<A, S> {
    /// every distinct state visited, in BFS order
    pub all_states: Vec<S>,
    pub states: u64,
    pub transitions: u64,
    pub max_depth: usize,
    /// true if the frontier emptied (all reachable states visited); false if `max_depth` stopped it
    pub fixpoint: bool,
    /// shortest action path to a violated transition, and the message
    pub violation: Option<(Vec<A>, String)>,
}

/// `step(state, action)`: Ok(Some(next)) = transition, Ok(None) = action not enabled,
/// Err(msg) = the invariant failed on this transition.
pub fn bfs<S, A, F>(init: Vec<S>, actions: &[A], max_depth: Option<usize>, mut step: F) -> BfsResult<A, S>
where
    S: Clone + Eq + Hash,
    A: Clone,
    F: FnMut(&S, &A) -> Result<Option<S>, String>,
{
    let mut index: HashMap<S, usize> = HashMap::new();
    let mut states: Vec<S> = Vec::new();
    let mut parent: Vec<(usize, usize)> = Vec::new();
    let mut frontier: Vec<usize> = Vec::new();
    for s in init {
        if !index.contains_key(&s) {
            index.insert(s.clone(), states.len());
            frontier.push(states.len());
            states.push(s);
            parent.push((usize::MAX, usize::MAX));
        }
    }
    let mut transitions = 0u64;
    let mut depth = 0usize;
    let mut fixpoint = true;
    while !frontier.is_empty() {
        if let Some(md) = max_depth {
            if depth >= md {
                fixpoint = false;
                break;
            }
        }
        let mut next = Vec::new();
        for &si in &frontier {
            for (ai, a) in actions.iter().enumerate() {
                let cur = states[si].clone();
                match step(&cur, a) {
                    Ok(None) => {}
                    Ok(Some(n)) => {
                        transitions += 1;
                        if !index.contains_key(&n) {
                            index.insert(n.clone(), states.len());
                            next.push(states.len());
                            states.push(n);
                            parent.push((si, ai));
                        }
                    }
                    Err(msg) => {
                        transitions += 1;
                        let mut path = vec![a.clone()];
                        let mut p = si;
                        while parent[p].0 != usize::MAX {
                            path.push(actions[parent[p].1].clone());
                            p = parent[p].0;
                        }
                        path.reverse();
                        return BfsResult {
                            states: states.len() as u64,
                            all_states: states,
                            transitions,
                            max_depth: depth + 1,
                            fixpoint: false,
                            violation: Some((path, msg)),
                        };
                    }
                }
            }
        }
        if !next.is_empty() {
            depth += 1;
        }
        frontier = next;
    }
    BfsResult { states: states.len() as u64, all_states: states, transitions, max_depth: depth, fixpoint, violation: None }
}


/// Variant for objects whose concrete state space may be unbounded although their BEHAVIOUR is
/// finite-state (e.g. a cipher object that also carries a running byte counter): the visited set
/// is keyed by `key(state)` (the reference model's state); when a second path reaches an already
/// visited key, `same(old, new)` must confirm that the two concrete states behave alike (a
/// bounded look-ahead), otherwise that is reported as a violation. Sound up to the look-ahead of
/// `same`; evidence must say so.
pub fn bfs_by_key<S, K, A, F, G, H>(init: Vec<S>, actions: &[A], max_depth: Option<usize>, key: G, same: H, mut step: F) -> BfsResult<A, S>
where
    S: Clone,
    K: Eq + Hash + Clone,
    A: Clone,
    F: FnMut(&S, &A) -> Result<Option<S>, String>,
    G: Fn(&S) -> K,
    H: Fn(&S, &S) -> bool,
{
    let mut index: HashMap<K, usize> = HashMap::new();
    let mut states: Vec<S> = Vec::new();
    let mut parent: Vec<(usize, usize)> = Vec::new();
    let mut frontier: Vec<usize> = Vec::new();
    for s in init {
        let k = key(&s);
        if !index.contains_key(&k) {
            index.insert(k, states.len());
            frontier.push(states.len());
            states.push(s);
            parent.push((usize::MAX, usize::MAX));
        }
    }
    let mut transitions = 0u64;
    let mut depth = 0usize;
    let mut fixpoint = true;
    let path_to = |parent: &Vec<(usize, usize)>, mut p: usize, last: &A| {
        let mut path = vec![last.clone()];
        while parent[p].0 != usize::MAX {
            path.push(actions[parent[p].1].clone());
            p = parent[p].0;
        }
        path.reverse();
        path
    };
    while !frontier.is_empty() {
        if let Some(md) = max_depth {
            if depth >= md {
                fixpoint = false;
                break;
            }
        }
        let mut next = Vec::new();
        for &si in &frontier {
            for (ai, a) in actions.iter().enumerate() {
                let cur = states[si].clone();
                match step(&cur, a) {
                    Ok(None) => {}
                    Ok(Some(n)) => {
                        transitions += 1;
                        let k = key(&n);
                        match index.get(&k) {
                            None => {
                                index.insert(k, states.len());
                                next.push(states.len());
                                states.push(n);
                                parent.push((si, ai));
                            }
                            Some(&old) => {
                                if !same(&states[old], &n) {
                                    let path = path_to(&parent, si, a);
                                    return BfsResult { states: states.len() as u64, all_states: states, transitions, max_depth: depth + 1, fixpoint: false, violation: Some((path, "two paths to the same reference state lead to objects that behave differently".into())) };
                                }
                            }
                        }
                    }
                    Err(msg) => {
                        transitions += 1;
                        let path = path_to(&parent, si, a);
                        return BfsResult { states: states.len() as u64, all_states: states, transitions, max_depth: depth + 1, fixpoint: false, violation: Some((path, msg)) };
                    }
                }
            }
        }
        if !next.is_empty() {
            depth += 1;
        }
        frontier = next;
    }
    BfsResult { states: states.len() as u64, all_states: states, transitions, max_depth: depth, fixpoint, violation: None }
}
