//! E2: stateless, deviation-bounded exploration of environment answers.
//!
//! The scenario body runs real code and calls `Chooser::pick(n)` wherever the environment (RNG,
//! reader, writer, adversary, next operation) decides something. Option 0 is the default,
//! well-behaved answer. Every choice sequence with at most `bound` non-zero picks is executed
//! (bound None = the whole finite tree). Executions always run to completion.

use rayon::prelude::*;

#[derive(Clone, Debug, PartialEq, Eq)]
pub struct Pick {
    pub choice: u32,
    pub options: u32,
}

pub struct Chooser {
    prefix: Vec<Pick>,
    pub trace: Vec<Pick>,
    pub labels: Vec<&'static str>,
}

impl Chooser {
    pub fn new(prefix: Vec<Pick>) -> Self {
        Chooser { prefix, trace: Vec::new(), labels: Vec::new() }
    }
    /// Replay of a stored choice sequence (only the choices; options are re-learnt).
    pub fn replay(choices: &[u32]) -> Self {
        Chooser {
            prefix: choices.iter().map(|c| Pick { choice: *c, options: 0 }).collect(),
            trace: Vec::new(),
            labels: Vec::new(),
        }
    }
    pub fn pick(&mut self, n: usize, label: &'static str) -> usize {
        assert!(n >= 1, "pick with no options");
        let i = self.trace.len();
        let c = if i < self.prefix.len() {
            let p = &self.prefix[i];
            if p.options != 0 && p.options as usize != n {
                crate::util::machinery_error(&format!(
                    "choice replay diverged at point {i} ({label}): recorded {} options, now {n}",
                    p.options
                ));
            }
            if p.choice as usize >= n {
                crate::util::machinery_error(&format!(
                    "choice replay out of range at point {i} ({label}): choice {} of {n}",
                    p.choice
                ));
            }
            p.choice as usize
        } else {
            0
        };
        self.trace.push(Pick { choice: c as u32, options: n as u32 });
        self.labels.push(label);
        c
    }
    pub fn deviations(&self) -> usize {
        self.trace.iter().filter(|p| p.choice != 0).count()
    }
    pub fn choices(&self) -> Vec<u32> {
        self.trace.iter().map(|p| p.choice).collect()
    }
}

#[derive(Default, Debug, Clone)]
pub struct ExploreStats {
    pub executions: u64,
    pub choice_points: u64,
    pub max_trace_len: usize,
    /// executions per deviation count
    pub per_deviation: Vec<u64>,
    pub bound_completed: Option<usize>,
    pub whole_tree: bool,
}

/// Explore every choice sequence with at most `bound` deviations (None: all). `body` returns
/// Ok(outcome label) or Err(violation message). Returns stats, the list of distinct outcome
/// labels with counts, and the first few violations as (choices, message).
///
/// Depth-first and streaming: a node's children are generated after its execution and explored
/// recursively (in parallel), so memory stays O(depth x branching) however many executions there are.
pub fn explore<F>(bound: Option<usize>, max_violations: usize, body: F) -> (ExploreStats, Vec<(String, u64)>, Vec<(Vec<u32>, String)>)
where
    F: Fn(&mut Chooser) -> Result<String, String> + Sync,
{
    use std::sync::atomic::{AtomicBool, AtomicU64, AtomicUsize, Ordering};
    use std::sync::Mutex;
    struct Shared<'a, F> {
        body: &'a F,
        bound: Option<usize>,
        max_violations: usize,
        executions: AtomicU64,
        choice_points: AtomicU64,
        max_trace_len: AtomicUsize,
        per_deviation: Vec<AtomicU64>,
        cut: AtomicBool,
        outcomes: Mutex<std::collections::BTreeMap<String, u64>>,
        violations: Mutex<Vec<(Vec<u32>, String)>>,
    }
    fn go<F: Fn(&mut Chooser) -> Result<String, String> + Sync>(sh: &Shared<F>, prefix: Vec<Pick>, level: usize) {
        let plen = prefix.len();
        let mut ch = Chooser::new(prefix);
        let r = (sh.body)(&mut ch);
        let trace = ch.trace;
        sh.executions.fetch_add(1, Ordering::Relaxed);
        sh.choice_points.fetch_add(trace.len() as u64, Ordering::Relaxed);
        sh.max_trace_len.fetch_max(trace.len(), Ordering::Relaxed);
        if let Some(c) = sh.per_deviation.get(level) {
            c.fetch_add(1, Ordering::Relaxed);
        }
        match r {
            Ok(label) => *sh.outcomes.lock().unwrap().entry(label).or_insert(0) += 1,
            Err(msg) => {
                *sh.outcomes.lock().unwrap().entry("VIOLATION".into()).or_insert(0) += 1;
                let mut v = sh.violations.lock().unwrap();
                if v.len() < sh.max_violations {
                    v.push((trace.iter().map(|p| p.choice).collect(), msg));
                }
            }
        }
        let expand = sh.bound.map_or(true, |b| level < b);
        let has_alternatives = trace[plen..].iter().any(|p| p.options > 1);
        if !expand {
            if has_alternatives {
                sh.cut.store(true, Ordering::Relaxed);
            }
            return;
        }
        let mut children: Vec<Vec<Pick>> = Vec::new();
        for i in plen..trace.len() {
            for alt in 1..trace[i].options {
                let mut p: Vec<Pick> = trace[..i].to_vec();
                p.push(Pick { choice: alt, options: trace[i].options });
                children.push(p);
            }
        }
        children.into_par_iter().for_each(|p| go(sh, p, level + 1));
    }
    let sh = Shared {
        body: &body,
        bound,
        max_violations,
        executions: AtomicU64::new(0),
        choice_points: AtomicU64::new(0),
        max_trace_len: AtomicUsize::new(0),
        per_deviation: (0..64).map(|_| AtomicU64::new(0)).collect(),
        cut: AtomicBool::new(false),
        outcomes: Mutex::new(Default::default()),
        violations: Mutex::new(vec![]),
    };
    go(&sh, vec![], 0);
    let per: Vec<u64> = sh.per_deviation.iter().map(|a| a.load(Ordering::Relaxed)).collect();
    let last = per.iter().rposition(|c| *c > 0).unwrap_or(0);
    let stats = ExploreStats {
        executions: sh.executions.load(Ordering::Relaxed),
        choice_points: sh.choice_points.load(Ordering::Relaxed),
        max_trace_len: sh.max_trace_len.load(Ordering::Relaxed),
        per_deviation: per[..=last].to_vec(),
        bound_completed: Some(bound.map_or(last, |b| b.min(last.max(b.min(last))))),
        whole_tree: !sh.cut.load(Ordering::Relaxed),
    };
    let mut viols = sh.violations.into_inner().unwrap();
    viols.sort();
    (stats, sh.outcomes.into_inner().unwrap().into_iter().collect(), viols)
}
