//! E2: stateless, deviation-bounded exploration of environment answers.
//!
//! The scenario body runs real code and calls `Chooser::pick(n)` wherever the environment (RNG,
//! reader, writer, adversary, next operation) decides something. Option 0 is the default,
//! well-behaved answer. Every choice sequence with at most `bound` non-zero picks is executed
//! (bound None = the whole finite tree). Executions always run to completion.

use rayon::prelude::*;

#[derive(Clone, Debug, PartialEq, Eq)]
pub struct Pick {
    pub choice: u32,
    pub options: u32,
}

pub struct Chooser {
    prefix: Vec<Pick>,
    pub trace: Vec<Pick>,
    pub labels: Vec<&'static str>,
}

impl Chooser {
    pub fn new(prefix: Vec<Pick>) -> Self {
        Chooser { prefix, trace: Vec::new(), labels: Vec::new() }
    }
    /// Replay of a stored choice sequence (only the choices; options are re-learnt).
    pub fn replay(choices: &[u32]) -> Self {
        Chooser {
            prefix: choices.iter().map(|c| Pick { choice: *c, options: 0 }).collect(),
            trace: Vec::new(),
            labels: Vec::new(),
        }
    }
    pub fn pick(&mut self, n: usize, label: &'static str) -> usize {
        assert!(n >= 1, "pick with no options");
        let i = self.trace.len();
        let c = if i < self.prefix.len() {
            let p = &self.prefix[i];
            if p.options != 0 && p.options as usize != n {
                crate::util::machinery_error(&format!(
                    "choice replay diverged at point {i} ({label}): recorded {} options, now {n}",
                    p.options
                ));
            }
            if p.choice as usize >= n {
                crate::util::machinery_error(&format!(
                    "choice replay out of range at point {i} ({label}): choice {} of {n}",
                    p.choice
                ));
            }
            p.choice as usize
        } else {
            0
        };
        self.trace.push(Pick { choice: c as u32, options: n as u32 });
        self.labels.push(label);
        c
    }
    pub fn deviations(&self) -> usize {
        self.trace.iter().filter(|p| p.choice != 0).count()
    }
    pub fn choices(&self) -> Vec<u32> {
        self.trace.iter().map(|p| p.choice).collect()
    }
}

#[derive(Default, Debug, Clone)]
pub struct ExploreStats {
    pub executions: u64,
    pub choice_points: u64,
    pub max_trace_len: usize,
    /// executions per deviation count
    pub per_deviation: Vec<u64>,
    pub bound_completed: Option<usize>,
    pub whole_tree: bool,
}

/// Explore every choice sequence with at most `bound` deviations (None: all). `body` returns
/// Ok(outcome label) or Err(violation message). Returns stats, the list of distinct outcome
/// labels with counts, and the first few violations as (choices, message).
pub fn explore<F>(bound: Option<usize>, max_violations: usize, body: F) -> (ExploreStats, Vec<(String, u64)>, Vec<(Vec<u32>, String)>)
where
    F: Fn(&mut Chooser) -> Result<String, String> + Sync,
{
    let mut stats = ExploreStats::default();
    let mut outcomes: std::collections::BTreeMap<String, u64> = Default::default();
    let mut violations: Vec<(Vec<u32>, String)> = Vec::new();
    let mut frontier: Vec<Vec<Pick>> = vec![vec![]];
    let mut level = 0usize;
    loop {
        let results: Vec<(Vec<Pick>, usize, Result<String, String>)> = frontier
            .par_iter()
            .map(|prefix| {
                let mut ch = Chooser::new(prefix.clone());
                let r = body(&mut ch);
                (ch.trace, prefix.len(), r)
            })
            .collect();
        stats.per_deviation.push(results.len() as u64);
        let mut next: Vec<Vec<Pick>> = Vec::new();
        let expand = bound.map_or(true, |b| level < b);
        for (trace, plen, r) in results {
            stats.executions += 1;
            stats.choice_points += trace.len() as u64;
            stats.max_trace_len = stats.max_trace_len.max(trace.len());
            match r {
                Ok(label) => *outcomes.entry(label).or_insert(0) += 1,
                Err(msg) => {
                    *outcomes.entry("VIOLATION".into()).or_insert(0) += 1;
                    if violations.len() < max_violations {
                        violations.push((trace.iter().map(|p| p.choice).collect(), msg));
                    }
                }
            }
            if expand {
                for i in plen..trace.len() {
                    for alt in 1..trace[i].options {
                        let mut p: Vec<Pick> = trace[..i].to_vec();
                        p.push(Pick { choice: alt, options: trace[i].options });
                        next.push(p);
                    }
                }
            }
        }
        if next.is_empty() {
            stats.whole_tree = expand;
            stats.bound_completed = Some(level);
            break;
        }
        frontier = next;
        level += 1;
    }
    (stats, outcomes.into_iter().collect(), violations)
}
