//! Engines and reporting shared by all checks.
pub mod bfs;
pub mod choices;
pub mod report;
pub mod util;
