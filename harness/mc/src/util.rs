use std::panic::{catch_unwind, AssertUnwindSafe};
use std::sync::atomic::{AtomicBool, Ordering};

pub fn hex(b: &[u8]) -> String {
    let mut s = String::with_capacity(b.len() * 2);
    for x in b {
        s.push_str(&format!("{:02x}", x));
    }
    s
}
pub fn unhex(s: &str) -> Vec<u8> {
    let s = s.trim();
    assert!(s.len() % 2 == 0, "odd hex length: {s}");
    (0..s.len() / 2).map(|i| u8::from_str_radix(&s[2 * i..2 * i + 2], 16).expect("hex")).collect()
}
pub fn unhex_n<const N: usize>(s: &str) -> [u8; N] {
    let v = unhex(s);
    assert_eq!(v.len(), N, "expected {N} bytes of hex");
    let mut a = [0u8; N];
    a.copy_from_slice(&v);
    a
}

static QUIET: AtomicBool = AtomicBool::new(false);

/// Panics raised at a source location inside the repository under test: (message, location).
/// Filled by the panic hook; used by the top level to tell a library panic that no check caught
/// (a verdict: none of the properties allows a crash) from a panic of the harness (machinery error).
static LIB_PANICS: std::sync::Mutex<Vec<(String, String)>> = std::sync::Mutex::new(Vec::new());

pub fn library_panic_location(message: &str) -> Option<String> {
    LIB_PANICS.lock().ok()?.iter().rev().find(|(m, _)| m == message).map(|(_, l)| l.clone())
}

/// Install a panic hook that prints nothing while library calls are wrapped in `catch`.
/// Panics of the harness itself (machinery errors) are still printed because they go through
/// `machinery_error`, which writes before panicking.
pub fn install_quiet_panic_hook() {
    if QUIET.swap(true, Ordering::SeqCst) {
        return;
    }
    let default = std::panic::take_hook();
    let repo = crate::report::repo_root().to_string_lossy().to_string();
    std::panic::set_hook(Box::new(move |info| {
        if let Some(loc) = info.location() {
            // crates only the library (never the harness) depends on: a panic inside one of them was reached through a library call
            const LIB_ONLY_DEPS: [&str; 14] = ["/num-bigint-", "/num-integer-", "/num-traits-", "/rug-", "/gmp-mpfr-sys", "/sha-1-", "/sha1-", "/hmac-", "/md-5-", "/digest-", "/rand-", "/rand_core-", "/rand_chacha-", "/generic-array-"];
            if loc.file().starts_with(&repo) || LIB_ONLY_DEPS.iter().any(|d| loc.file().contains(d)) {
                let p = info.payload();
                let msg = if let Some(s) = p.downcast_ref::<&str>() {
                    s.to_string()
                } else if let Some(s) = p.downcast_ref::<String>() {
                    s.clone()
                } else {
                    "panic (non-string payload)".to_string()
                };
                if let Ok(mut v) = LIB_PANICS.lock() {
                    if v.len() < 4096 {
                        let shown = if loc.file().starts_with(&repo) { loc.file()[repo.len()..].trim_start_matches('/').to_string() } else { loc.file().rsplit("/registry/src/").next().unwrap_or(loc.file()).to_string() };
                        v.push((msg, format!("{}:{}", shown, loc.line())));
                    }
                }
            }
        }
        if std::env::var_os("VERIF_PANIC_VERBOSE").is_some() {
            default(info);
        }
    }));
}

/// Run `f`, converting an unwind into Err(message).
pub fn catch<R>(f: impl FnOnce() -> R) -> Result<R, String> {
    match catch_unwind(AssertUnwindSafe(f)) {
        Ok(r) => Ok(r),
        Err(e) => {
            let msg = if let Some(s) = e.downcast_ref::<&str>() {
                s.to_string()
            } else if let Some(s) = e.downcast_ref::<String>() {
                s.clone()
            } else {
                "panic (non-string payload)".to_string()
            };
            Err(msg)
        }
    }
}

/// A problem of the verification machinery itself: never a verdict. Exit code 2, no VIOLATION line.
pub fn machinery_error(msg: &str) -> ! {
    eprintln!("MACHINERY-ERROR: {msg}");
    println!("MACHINERY-ERROR: {msg}");
    std::process::exit(2);
}
