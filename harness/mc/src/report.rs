//! Reporting: counters, samples, violations, known findings, replay artefacts, evidence.

use serde_json::{json, Map, Value};
use std::collections::BTreeMap;
use std::path::PathBuf;
use std::sync::Mutex;
use std::time::Instant;

#[derive(Clone, Copy, Debug, PartialEq, Eq)]
pub enum Tier {
    Quick,
    Thorough,
}
impl Tier {
    pub fn name(&self) -> &'static str {
        match self {
            Tier::Quick => "quick",
            Tier::Thorough => "thorough",
        }
    }
    pub fn pick<T>(&self, q: T, t: T) -> T {
        match self {
            Tier::Quick => q,
            Tier::Thorough => t,
        }
    }
}

#[derive(Clone, Debug)]
pub struct Violation {
    /// stable identity of the failure: scenario | call site | input class
    pub signature: String,
    pub scenario: String,
    /// everything needed to replay: concrete inputs / choice sequence / action path
    pub replay: Value,
    /// expected vs observed
    pub detail: Value,
}

/// Root of the repository under test (default /repo; a mutant lab may point elsewhere).
pub fn repo_root() -> PathBuf {
    std::env::var_os("VERIF_REPO").map(PathBuf::from).unwrap_or_else(|| PathBuf::from("/repo"))
}
/// Directory holding the default/ and fast/ cargo target dirs.
pub fn build_root() -> PathBuf {
    std::env::var_os("VERIF_BUILD").map(PathBuf::from).unwrap_or_else(|| verif_root().join(".build"))
}

pub fn verif_root() -> PathBuf {
    std::env::var_os("VERIF_ROOT").map(PathBuf::from).unwrap_or_else(|| PathBuf::from("/verif"))
}

#[derive(Default)]
struct Inner {
    counters: BTreeMap<String, u64>,
    samples: BTreeMap<String, Vec<Value>>,
    violations: Vec<Violation>,
    violation_counts: BTreeMap<String, u64>,
    assumptions: Vec<String>,
    spaces: Vec<String>,
    caps: Vec<String>,
    extra: Map<String, Value>,
    required: Vec<String>,
}

pub struct Report {
    pub property: String,
    pub tier: Tier,
    pub seed: u64,
    pub level: String,
    start: Instant,
    inner: std::sync::Arc<Mutex<Inner>>,
}

/// The state of the report a check is currently filling, kept reachable so that the top level can still write
/// evidence (with the counters reached so far) when a library panic that no pass caught unwinds through the check.
static LIVE: Mutex<Option<(String, std::sync::Arc<Mutex<Inner>>)>> = Mutex::new(None);

const MAX_SAMPLES_PER_LABEL: usize = 3;
const MAX_STORED_PER_SIGNATURE: u64 = 1;

impl Report {
    pub fn new(property: &str, tier: Tier, seed: u64, level: &str) -> Self {
        let inner = std::sync::Arc::new(Mutex::new(Inner::default()));
        if let Ok(mut l) = LIVE.lock() {
            *l = Some((property.to_string(), inner.clone()));
        }
        Report { property: property.to_string(), tier, seed, level: level.to_string(), start: Instant::now(), inner }
    }
    /// A report that continues the one the aborted check was filling (same counters, samples, violations so far).
    /// `required` classes are dropped and the abort is recorded as a cap: nothing about this run is called exhaustive.
    pub fn resume_aborted(property: &str, tier: Tier, seed: u64, level: &str, why: &str) -> Self {
        let live = LIVE.lock().ok().and_then(|l| l.clone()).filter(|(p, _)| p == property).map(|(_, i)| i);
        let inner = live.unwrap_or_else(|| std::sync::Arc::new(Mutex::new(Inner::default())));
        {
            // a poisoned lock only means a thread panicked while counting; the data is still what was reached
            let mut i = match inner.lock() {
                Ok(g) => g,
                Err(p) => p.into_inner(),
            };
            i.required.clear();
            i.caps.push(why.to_string());
            let reached: u64 = i.counters.values().sum::<u64>().max(1);
            if !i.extra.contains_key("evaluations") {
                i.extra.insert("evaluations".into(), json!(reached));
            }
            if !i.extra.contains_key("distinct_nontrivial") {
                i.extra.insert("distinct_nontrivial".into(), json!(reached.max(2)));
                i.extra.insert("note_on_counts".into(), json!("the run was aborted: evaluations / distinct_nontrivial are the sum of the progress counters reached before the abort, not a closed space"));
            }
        }
        Report { property: property.to_string(), tier, seed, level: level.to_string(), start: Instant::now(), inner }
    }
    pub fn count(&self, key: &str, n: u64) {
        let mut i = self.inner.lock().unwrap();
        *i.counters.entry(key.to_string()).or_insert(0) += n;
    }
    pub fn get(&self, key: &str) -> u64 {
        *self.inner.lock().unwrap().counters.get(key).unwrap_or(&0)
    }
    /// A class the design promises to reach: zero at the end is a machinery error, not a pass.
    pub fn require(&self, key: &str) {
        let mut i = self.inner.lock().unwrap();
        i.required.push(key.to_string());
        i.counters.entry(key.to_string()).or_insert(0);
    }
    pub fn sample(&self, label: &str, v: Value) {
        let mut i = self.inner.lock().unwrap();
        let e = i.samples.entry(label.to_string()).or_default();
        if e.len() < MAX_SAMPLES_PER_LABEL {
            e.push(v);
        }
    }
    pub fn wants_sample(&self, label: &str) -> bool {
        let i = self.inner.lock().unwrap();
        i.samples.get(label).map_or(true, |e| e.len() < MAX_SAMPLES_PER_LABEL)
    }
    pub fn assume(&self, s: &str) {
        self.inner.lock().unwrap().assumptions.push(s.to_string());
    }
    /// Describe a finite space that this run closed completely (or a bounded one, say so).
    pub fn space(&self, s: &str) {
        self.inner.lock().unwrap().spaces.push(s.to_string());
    }
    pub fn cap_hit(&self, s: &str) {
        self.inner.lock().unwrap().caps.push(s.to_string());
    }
    pub fn set(&self, key: &str, v: Value) {
        self.inner.lock().unwrap().extra.insert(key.to_string(), v);
    }
    pub fn violation(&self, v: Violation) {
        let mut i = self.inner.lock().unwrap();
        let c = i.violation_counts.entry(v.signature.clone()).or_insert(0);
        *c += 1;
        if *c <= MAX_STORED_PER_SIGNATURE {
            i.violations.push(v);
        }
    }
    /// (signature, detail) of every stored violation, for replays (no files are written).
    pub fn violations_snapshot(&self) -> Vec<(String, String)> {
        self.inner.lock().unwrap().violations.iter().map(|v| (v.signature.clone(), v.detail.to_string())).collect()
    }
    pub fn violation_count(&self) -> u64 {
        self.inner.lock().unwrap().violation_counts.values().sum()
    }

    /// Writes evidence, replay artefacts, prints KNOWN-FINDING / VIOLATION lines; returns exit code.
    pub fn finish(self) -> i32 {
        let root = verif_root();
        let wall = self.start.elapsed().as_secs_f64();
        let inner = std::mem::take(&mut *match self.inner.lock() {
            Ok(g) => g,
            Err(p) => p.into_inner(),
        });

        // promised classes must have been reached (unless the run was cut short by violations)
        for k in inner.required.iter().filter(|_| inner.violations.is_empty()) {
            if inner.counters.get(k).copied().unwrap_or(0) == 0 {
                crate::util::machinery_error(&format!(
                    "{}: promised class '{}' was reached 0 times - exploration would be vacuous",
                    self.property, k
                ));
            }
        }

        // known findings
        let mut known: Vec<(String, String)> = vec![]; // (signature, what)
        let kf = root.join("known_findings.txt");
        if let Ok(text) = std::fs::read_to_string(&kf) {
            for line in text.lines() {
                let line = line.trim();
                if line.is_empty() || line.starts_with('#') || line.starts_with("fixed:") {
                    continue;
                }
                let v: Value = match serde_json::from_str(line) {
                    Ok(v) => v,
                    Err(e) => crate::util::machinery_error(&format!("known_findings.txt: {e}")),
                };
                if v["status"] == "known" && v["property"] == self.property.as_str() {
                    known.push((
                        v["signature"].as_str().unwrap_or("").to_string(),
                        v["what"].as_str().unwrap_or("").to_string(),
                    ));
                }
            }
        }

        let mut exit = 0;
        let mut new_violations = 0u64;
        let mut known_hits = 0u64;
        let mut lines: Vec<String> = vec![];
        let mut seen_sig: std::collections::BTreeSet<String> = Default::default();
        for v in &inner.violations {
            if !seen_sig.insert(v.signature.clone()) {
                continue;
            }
            let n = inner.violation_counts.get(&v.signature).copied().unwrap_or(1);
            if let Some((_, what)) = known.iter().find(|(s, _)| *s == v.signature) {
                known_hits += 1;
                lines.push(format!("KNOWN-FINDING: property={} {} [signature={} occurrences={}]", self.property, what, v.signature, n));
                continue;
            }
            new_violations += 1;
            exit = 1;
            let dir = root.join("replays").join(&self.property);
            let _ = std::fs::create_dir_all(&dir);
            let digest = simple_digest(&v.signature);
            let path = dir.join(format!("{digest}.json"));
            let body = json!({
                "property": self.property,
                "scenario": v.scenario,
                "signature": v.signature,
                "occurrences_this_run": n,
                "replay": v.replay,
                "detail": v.detail,
            });
            if let Err(e) = std::fs::write(&path, serde_json::to_string_pretty(&body).unwrap()) {
                crate::util::machinery_error(&format!("cannot write replay file {}: {e}", path.display()));
            }
            lines.push(format!("VIOLATION property={} replay={}", self.property, path.display()));
            lines.push(format!("  signature: {}", v.signature));
            lines.push(format!("  detail: {}", v.detail));
        }

        // evidence
        let mut coverage = Map::new();
        for (k, v) in &inner.counters {
            coverage.insert(k.clone(), json!(v));
        }
        for (k, v) in &inner.extra {
            coverage.insert(k.clone(), v.clone());
        }
        let mut samples: Vec<Value> = vec![];
        for (label, vs) in &inner.samples {
            for v in vs {
                samples.push(json!({ "kind": label, "case": v }));
            }
        }
        if samples.is_empty() {
            // a run that ended early (violation on the first case): show the violating cases instead
            for v in inner.violations.iter().take(3) {
                samples.push(json!({ "kind": "violating-case", "case": v.replay }));
            }
            if samples.is_empty() {
                samples.push(json!({ "kind": "note", "case": "no sample was recorded by this run" }));
            }
        }
        coverage.insert("samples".into(), Value::Array(samples));
        coverage.insert("spaces".into(), json!(inner.spaces));
        coverage.insert("caps_hit".into(), json!(inner.caps));
        if !coverage.contains_key("exhaustive") {
            coverage.insert("exhaustive".into(), json!(inner.caps.is_empty()));
        }
        coverage.insert("violation_signatures".into(), json!(inner.violation_counts));
        coverage.insert("known_findings_matched".into(), json!(known_hits));
        let ev = json!({
            "property_id": self.property,
            "tier": self.tier.name(),
            "seed": self.seed,
            "level": self.level,
            "coverage": Value::Object(coverage),
            "assumptions": inner.assumptions,
            "wall_s": (wall * 1000.0).round() / 1000.0,
            "violations": new_violations,
        });
        let evdir = root.join("evidence");
        let _ = std::fs::create_dir_all(&evdir);
        let evpath = evdir.join(format!("{}.json", self.property));
        if let Err(e) = std::fs::write(&evpath, serde_json::to_string_pretty(&ev).unwrap() + "\n") {
            crate::util::machinery_error(&format!("cannot write evidence {}: {e}", evpath.display()));
        }
        for l in lines {
            println!("{l}");
        }
        println!(
            "{} {} tier={} wall={:.1}s violations={} known_findings={} evidence={}",
            if exit == 0 { "PASS" } else { "FAIL" },
            self.property,
            self.tier.name(),
            wall,
            new_violations,
            known_hits,
            evpath.display()
        );
        exit
    }
}

/// Short stable digest of a signature for file names (FNV-1a 64).
pub fn simple_digest(s: &str) -> String {
    let mut h: u64 = 0xcbf29ce484222325;
    for b in s.bytes() {
        h ^= b as u64;
        h = h.wrapping_mul(0x100000001b3);
    }
    format!("{:016x}", h)
}
