#!/usr/bin/env python3
"""Generate operator-level mutants of /repo/src (one small textual change each) as patch files.

usage: gen_op_mutants.py <out-dir> [max-per-file]

Operators (applied to non-test, non-comment, non-attribute code lines, one site per mutant):
  relational   <= <-> <   >= <-> >   == <-> !=
  arithmetic   ' + ' <-> ' - '   ' * ' -> ' + '   ' % ' -> ' / '   '+= ' <-> '-= '
  bitwise      ' | ' <-> ' & '   ' ^ ' -> ' | '   '|=' <-> '&='  '^=' -> '|='   '<<' <-> '>>'
  logical      '&&' <-> '||'   'true' <-> 'false'
  methods      wrapping_add <-> wrapping_sub   to_le_bytes <-> to_be_bytes   from_le_bytes <-> from_be_bytes (integers)
  constants    decimal / hex integer literal n -> n+1 and n-1 (n > 0)
  statements   delete a line that is a single statement ending in ';' and assigns / calls (not let / return)
The test modules (everything from the first top-level `#[cfg(test)]\nmod` to the end of a file, and items
under an indented #[cfg(test)]) are left alone, as are verif_hooks.rs, error.rs, hex.rs, lib.rs and test.rs.
"""
import os, re, sys, subprocess, hashlib

SRC = "/repo/src"
SKIP = {"verif_hooks.rs", "error.rs", "hex.rs", "lib.rs", "test.rs"}
out = sys.argv[1]
cap = int(sys.argv[2]) if len(sys.argv) > 2 else 10**9
os.makedirs(out, exist_ok=True)

def code_lines(path):
    """yield (lineno0, line) for mutable lines"""
    lines = open(path).read().split("\n")
    # end of production code: first top-level '#[cfg(test)]' followed by 'mod'
    end = len(lines)
    for i, l in enumerate(lines):
        if l.startswith("#[cfg(test)]") and i + 1 < len(lines) and lines[i + 1].lstrip().startswith(("mod ", "pub mod ", "pub(crate) mod ")):
            end = i
            break
    skip_item = 0
    res = []
    i = 0
    while i < end:
        l = lines[i]
        s = l.strip()
        if s.startswith("#[cfg(test)]") or s.startswith('#[cfg(feature = "verif-hooks")]'):
            # skip the attribute and the item it guards (up to the matching close of the first brace block, or one line)
            j = i + 1
            depth = 0
            opened = False
            while j < end:
                depth += lines[j].count("{") - lines[j].count("}")
                if "{" in lines[j]:
                    opened = True
                if (opened and depth <= 0) or (not opened and lines[j].rstrip().endswith(";")):
                    break
                j += 1
            i = j + 1
            continue
        if s.startswith(("//", "#[", "#![", "use ", "pub use ", "///", "//!", "*", "/*")) or s == "" or "macro_rules" in s:
            i += 1
            continue
        if "assert" in s or "debug_assert" in s or "panic!" in s or "expect(" in s:
            i += 1
            continue
        res.append((i, l))
        i += 1
    return lines, res

def strip_strings(l):
    # positions inside string literals or trailing comments are not mutated
    out = []
    ins = False
    k = 0
    while k < len(l):
        c = l[k]
        if not ins and l.startswith("//", k):
            break
        if c == '"' and (k == 0 or l[k - 1] != "\\"):
            ins = not ins
        out.append((k, c, ins))
        k += 1
    return out

REPL = [
    (r"<=", "<"), (r"(?<![<=-])<(?![=<])(?=\s)", "<="), (r">=", ">"), (r"(?<![->=])>(?![=>])(?=\s)", ">="),
    (r"==", "!="), (r"!=", "=="),
    (r" \+ ", " - "), (r" - ", " + "), (r" \* ", " + "), (r" % ", " / "), (r"\+= ", "-= "), (r"-= ", "+= "),
    (r" \| ", " & "), (r" & ", " | "), (r" \^ ", " | "), (r"\|=", "&="), (r"&=", "|="), (r"\^=", "|="), (r"<<", ">>"), (r">>", "<<"),
    (r"&&", "||"), (r"\|\|", "&&"), (r"\btrue\b", "false"), (r"\bfalse\b", "true"),
    (r"wrapping_add", "wrapping_sub"), (r"wrapping_sub", "wrapping_add"),
    (r"to_le_bytes", "to_be_bytes"), (r"u(16|32|64)::from_le_bytes", r"u\1::from_be_bytes"),
]
NUM = re.compile(r"(?<![\w.])(0x[0-9a-fA-F_]+|\d[\d_]*)(?![\w.]*\w)")

def mutants_of_line(l):
    """list of (description, new line)"""
    res = []
    code_end = len(l)
    # cut trailing comment
    m = re.search(r"(?<!:)//", l)
    if m:
        code_end = m.start()
    code = l[:code_end]
    in_str = [False] * (len(code) + 1)
    ins = False
    for k, c in enumerate(code):
        if c == '"' and (k == 0 or code[k - 1] != "\\"):
            ins = not ins
        in_str[k] = ins
    for pat, rep in REPL:
        for m in re.finditer(pat, code):
            if in_str[m.start()]:
                continue
            # generic parameters and references are not comparisons / bit ops
            if pat in (r"(?<![<=-])<(?![=<])(?=\s)", r"(?<![->=])>(?![=>])(?=\s)") and ("->" in code[max(0, m.start() - 2):m.end() + 1]):
                continue
            new = code[:m.start()] + m.expand(rep) + code[m.end():] + l[code_end:]
            res.append((f"{m.group(0).strip()} -> {m.expand(rep).strip()} at col {m.start()}", new))
    for m in NUM.finditer(code):
        if in_str[m.start()]:
            continue
        tok = m.group(1)
        # skip array-type lengths and suffix-typed literals handled by \w check; skip indexes in tuple access (.0)
        if m.start() > 0 and code[m.start() - 1] == ".":
            continue
        try:
            v = int(tok.replace("_", ""), 16) if tok.startswith("0x") else int(tok.replace("_", ""))
        except ValueError:
            continue
        for d in (1, -1):
            nv = v + d
            if nv < 0:
                continue
            nt = hex(nv) if tok.startswith("0x") else str(nv)
            new = code[:m.start()] + nt + code[m.end():] + l[code_end:]
            res.append((f"literal {tok} -> {nt} at col {m.start()}", new))
    s = code.strip()
    if s.endswith(";") and not s.startswith(("let ", "return", "pub ", "const ", "static ", "type ", "}", "fn ", "break", "continue")) and ("=" in s or "(" in s) and s.count("(") == s.count(")") and s.count("{") == s.count("}"):
        res.append(("statement deleted", re.match(r"\s*", l).group(0) + "// (deleted)"))
    return res

count = 0
index = []
for root, _, files in os.walk(SRC):
    for f in sorted(files):
        if not f.endswith(".rs") or f in SKIP:
            continue
        path = os.path.join(root, f)
        rel = os.path.relpath(path, "/repo")
        lines, cl = code_lines(path)
        per_file = 0
        for (i, l) in cl:
            for desc, new in mutants_of_line(l):
                if new == l:
                    continue
                if per_file >= cap:
                    break
                mutated = lines[:]
                mutated[i] = new
                a = "\n".join(lines)
                b = "\n".join(mutated)
                import difflib
                diff = "".join(difflib.unified_diff(a.splitlines(True), b.splitlines(True), "a/" + rel, "b/" + rel, n=3))
                if not diff.endswith("\n"):
                    diff += "\n"
                h = hashlib.sha1((rel + str(i) + desc).encode()).hexdigest()[:8]
                name = f"{rel.replace('/', '_').replace('.rs', '')}_L{i + 1}_{h}"
                open(os.path.join(out, name + ".patch"), "w").write(diff)
                index.append(f"{name}\t{rel}:{i + 1}\t{desc}\t{l.strip()[:100]}")
                per_file += 1
                count += 1
open(os.path.join(out, "INDEX.tsv"), "w").write("\n".join(index) + "\n")
print(count, "mutants")
