#!/bin/sh
# Run every patch listed in mutants/INDEX.txt in the mutant lab against the checks named there
# (an id suffixed with x is a property the patch should NOT break and is skipped).
cd /verif || exit 2
tools/mutant_lab.sh init || exit 2
while read -r name ids; do
  run=""; for i in $ids; do case $i in *x) ;; *) run="$run $i" ;; esac; done
  echo "== $name ($run)"
  tools/mutant_lab.sh run mutants/$name.patch $run 2>&1
done < mutants/INDEX.txt
