#!/bin/sh
# Build the harness from /repo's CURRENT working tree (cargo path dependency, hooks feature on).
# Quiet on success; on failure prints the compiler errors and exits 2 (machinery error, never a verdict).
# usage: tools/build.sh [default|fast|all]
set -u
export CARGO_NET_OFFLINE=true
mkdir -p /verif/.build
WHAT=${1:-default}
cd /verif/harness || exit 2
build() {
  # $1 = target dir, rest = cargo args
  td=$1; shift
  log=/verif/.build/build-$(basename "$td").log
  if ! cargo build --release --offline --target-dir "$td" "$@" >"$log" 2>&1; then
    echo "MACHINERY-ERROR: harness build failed ($*), see $log"
    grep -E "^error" -A 12 "$log" | head -80
    exit 2
  fi
}
(
  flock 9
  case "$WHAT" in
    default) build /verif/.build/default -p checks ;;
    fast)    build /verif/.build/fast -p checks --features fast-math ;;
    loom)    build /verif/.build/default -p loomcheck ;;
    all)     build /verif/.build/default -p checks -p loomcheck; build /verif/.build/fast -p checks --features fast-math ;;
  esac
) 9>/verif/.build/build.lock
