#!/bin/sh
# Operator-mutation campaign (developer aid, not a registered check).
# usage: MLAB_DIR=/tmp/mlabN MLAB_WT=/tmp/wt/labN tools/op_mutation_run.sh <mutant-dir> <list-of-names> <result-file>
# For each mutant patch: apply it in the lab's scratch worktree; if it does not compile -> NOCOMPILE; if the
# repository's own suite (cargo test --offline: unit tests + doctests) fails -> SUITE-KILLS (not interesting:
# the existing tests already catch it); otherwise run the checks of the properties anchored in the mutated file
# (quick tier) in the lab -> DETECTED <by which> / SURVIVED.
set -u
LAB=${MLAB_DIR:?}; WT=${MLAB_WT:?}
DIR=$1; LIST=$2; OUT=$3
checks_for() {
  case "$1" in
    src/normalized_string.rs) echo "C13 C01 C02" ;;
    src/key.rs) echo "C04 C03 C01 C14 C05 C15 C02" ;;
    src/bigint.rs) echo "C03 C01 C04 C14 C19" ;;
    src/primes.rs|src/srp_internal.rs|src/srp_internal_client.rs|src/client.rs|src/server.rs) echo "C03 C01 C02 C04 C05 C14 C15" ;;
    src/vanilla_header/*) echo "C07 C06 C11 C12 C14 C15" ;;
    src/tbc_header/*) echo "C08 C06 C11 C12 C14 C15" ;;
    src/wrath_header/*|src/rc4.rs) echo "C09 C10 C11 C12 C06 C14 C15" ;;
    src/pin.rs) echo "C16 C15" ;;
    src/integrity.rs) echo "C17 C15" ;;
    src/matrix_card.rs) echo "C18 C15" ;;
    *) echo "C01 C03" ;;
  esac
}
while read -r name; do
  [ -n "$name" ] || continue
  P=$DIR/$name.patch
  file=$(grep -m1 "^$name	" $DIR/INDEX.tsv | cut -f2 | sed 's/:.*//')
  git -C $WT reset -q --hard main; git -C $WT clean -fdq
  if ! git -C $WT apply "$P" 2>/dev/null; then echo "$name	NOAPPLY" >> $OUT; continue; fi
  if ! ( cd $WT && CARGO_TARGET_DIR=$LAB/repotest cargo build --offline >/dev/null 2>&1 ); then echo "$name	NOCOMPILE" >> $OUT; continue; fi
  feat=""; [ "$file" = "src/matrix_card.rs" ] && feat="--features matrix-card"
  if ! ( cd $WT && CARGO_TARGET_DIR=$LAB/repotest timeout 600 cargo test --offline $feat >$LAB/repotest.log 2>&1 ); then echo "$name	SUITE-KILLS" >> $OUT; continue; fi
  res=$(cd /verif && tools/mutant_lab.sh run "$P" $(checks_for "$file") 2>&1)
  det=$(printf '%s\n' "$res" | grep '^DETECTED' | sed 's/DETECTED \(C[0-9]*\):.*/\1/' | tr '\n' ' ')
  mach=$(printf '%s\n' "$res" | grep -c '^MACHINERY\|BUILD-FAILS')
  if [ -n "$det" ]; then echo "$name	DETECTED	$det" >> $OUT
  elif [ "$mach" != 0 ]; then echo "$name	MACHINERY	$(printf '%s' "$res" | grep -m1 'MACHINERY\|BUILD-FAILS' | cut -c1-200)" >> $OUT
  else echo "$name	SURVIVED" >> $OUT; fi
done < $LIST
git -C $WT reset -q --hard main; git -C $WT clean -fdq
echo "DONE" >> $OUT
