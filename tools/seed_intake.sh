#!/bin/sh
# Confirm a sub-agent's seeded change in ITS scratch worktree and file it under /verif/seeded/.
# usage: tools/seed_intake.sh <worktree-id> <n> <property-id> [checks to run ...]
# Confirms: (a) repo test suite passes with the change, (b) demo fails with the change,
# (c) demo passes without it. Then runs the given checks against /repo with the patch applied.
set -u
WID=$1; N=$2; PID=$3; shift 3
WT=/tmp/wt/$WID
OUT=$WT/_out
DEST=/verif/seeded/${PID}-${WID}-$N
export CARGO_TARGET_DIR=$WT/target
cd $WT || exit 2
git checkout -q -- src ; rm -f tests/vp_demo.rs
git apply $OUT/change$N.patch || { echo "patch does not apply in worktree"; exit 2; }
cargo test --offline >$OUT/seed_base.log 2>&1; base_rc=$?
nok=$(grep -c '^test .* ok$' $OUT/seed_base.log)
mkdir -p tests; cp $OUT/demo$N.rs tests/vp_demo.rs
FEAT=""; grep -q verif_hooks $OUT/demo$N.rs && FEAT="--features verif-hooks"
grep -q matrix_card $OUT/demo$N.rs && FEAT="--features verif-hooks,matrix-card"
[ -n "${EXTRA_FEATURES:-}" ] && FEAT="--features verif-hooks,$EXTRA_FEATURES"
cargo test --offline $FEAT --test vp_demo >$OUT/seed_with.log 2>&1; with_rc=$?
git checkout -q -- src
cargo test --offline $FEAT --test vp_demo >$OUT/seed_without.log 2>&1; without_rc=$?
rm -f tests/vp_demo.rs
echo "suite-with-change: rc=$base_rc ok-tests=$nok | demo-with-change: rc=$with_rc | demo-without: rc=$without_rc"
if [ $base_rc != 0 ] || [ $with_rc = 0 ] || [ $without_rc != 0 ]; then echo "NOT CONFIRMED"; tail -5 $OUT/seed_with.log; tail -5 $OUT/seed_without.log; exit 1; fi
mkdir -p $DEST
cp $OUT/change$N.patch $DEST/patch.diff; cp $OUT/demo$N.rs $DEST/demo.rs
res=$(cd /verif && tools/mutant_lab.sh run $DEST/patch.diff "$@" 2>&1)
echo "$res"
python3 - "$DEST" "$PID" "$WID" "$N" "$nok" "$res" <<'PY'
import json,sys,re
dest,pid,wid,n,nok,res=sys.argv[1:7]
notes=open(f"/tmp/wt/{wid}/_out/notes.md").read()
# the section for this change
secs=re.split(r"\n## ", notes)
sec=next((s for s in secs if s.lower().startswith(f"change {n}")), "")
meta={"breaks_property":pid,"source":"fresh sub-agent given only the property text and a scratch worktree","what_it_needs_to_manifest_and_why":sec.strip()[:3000],
 "confirmed":{"repo_suite_with_change":f"cargo test --offline: {nok} tests ok, exit 0","demo_with_change":"fails (cargo test --test vp_demo, exit != 0)","demo_without_change":"passes"},
 "checks_run_against_it":res.strip().splitlines()}
json.dump(meta,open(dest+"/meta.json","w"),indent=1)
PY
