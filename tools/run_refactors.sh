#!/bin/sh
# Silence check: run ALL 19 checks (quick) against every behaviour-preserving refactoring in refactors/.
# Prints only non-silent results; exit 1 if any check reports a violation or a machinery error.
cd /verif || exit 2
tools/mutant_lab.sh init || exit 2
ALL="C01 C02 C03 C04 C05 C06 C07 C08 C09 C10 C11 C12 C13 C14 C15 C16 C17 C18 C19"
bad=0
for p in refactors/*.patch; do
  out=$(tools/mutant_lab.sh run "$p" $ALL 2>&1 | grep -v "^MISSED")
  if [ -n "$out" ]; then echo "== $p"; echo "$out"; bad=1; else echo "== $p: all 19 checks silent"; fi
done
exit $bad
