#!/usr/bin/env python3
"""Regenerates /verif/mutants/*.patch (deliberate property-breaking changes) from the (file, old, new)
table below, using the scratch worktree /tmp/wt/mine of /repo. Each entry: name, property ids it should
break, list of edits."""
import subprocess, sys, os
WT = "/tmp/wt/mine"
M = [
 ("c01_skey_right_align", ["C01","C03"], [("src/srp_internal_client.rs", "SKey::from_le_bytes(S.to_padded_32_byte_array_le())",
   "{ let b = S.to_bytes_le(); let mut k = [0_u8; 32]; let off = 32 - b.len(); k[off..].clone_from_slice(&b); let _ = off; SKey::from_le_bytes(if b.len() == 32 { S.to_padded_32_byte_array_le() } else { k }) }")]),
 ("c01_from_database_reverses_salt_tail", ["C01"], [("src/server.rs", "            salt: Salt::from_le_bytes(salt),",
   "            salt: Salt::from_le_bytes({ let mut s = salt; if s[31] == 0 { s.reverse(); } s }),")]),
 ("c03_strip_at_most_two", ["C03"], [("src/key.rs", "        while lead < s.len() && s[lead] == 0 {", "        while lead < 2 && s[lead] == 0 {")]),
 ("c03_no_odd_adjust", ["C03"], [("src/key.rs", "        if lead % 2 != 0 {\n            lead += 1;\n        }", "        if lead % 2 != 0 && lead < 3 {\n            lead += 1;\n        }")]),
 ("c03_client_precomputed_xor", ["C03"], [("src/srp_internal_client.rs", "    let xor_hash = calculate_xor_hash(&large_safe_prime, &generator);",
   "    let xor_hash = calculate_xor_hash(&LargeSafePrime::default(), &generator);")]),
 ("c02_compare_19_bytes", ["C02"], [("src/server.rs", "        if client_calculated_proof != server_calculated_proof {", "        if client_calculated_proof.as_le_bytes()[..19] != server_calculated_proof.as_le_bytes()[..19] {")]),
 ("c02_client_prefix_compare", ["C02"], [("src/client.rs", "        if server_proof != client_server_proof {", "        if server_proof.as_le_bytes()[1..] != client_server_proof.as_le_bytes()[1..] {")]),
 ("c04_accept_N", ["C04"], [("src/key.rs", "    if *key == LARGE_SAFE_PRIME_LITTLE_ENDIAN {", "    if key[..31] == LARGE_SAFE_PRIME_LITTLE_ENDIAN[..31] && key[31] == 0 {")]),
 ("c05_refresh_only_on_success", ["C05","C15"], [("src/server.rs", "        self.reconnect_challenge_data.randomize_data();\n", "        if reconnect_verified {\n            self.reconnect_challenge_data.randomize_data();\n        }\n")]),
 ("c05_no_client_data_in_hash", ["C05"], [("src/srp_internal.rs", "        .chain_update(client_data.as_le_bytes())\n        .chain_update(server_data.as_le_bytes())", "        .chain_update(server_data.as_le_bytes())\n        .chain_update(server_data.as_le_bytes())")]),
 ("c06_wrath_seed_be", ["C06"], [("src/wrath_header/mod.rs", "            self.seed,\n            client_seed,\n        );", "            self.seed,\n            if client_seed > 0xFFFF_FF00 { client_seed.swap_bytes() } else { client_seed },\n        );")]),
 ("c07_decrypt_prev_after_overwrite", ["C07"], [("src/vanilla_header/decrypt.rs", "        *previous_value = *encrypted;\n        *encrypted = unencrypted;", "        *encrypted = unencrypted;\n        *previous_value = if *index == 0 { unencrypted } else { *previous_value };")]),
 ("c08_tbc_decrypter_seed", ["C08"], [("src/tbc_header/decrypt.rs", "            0x38, 0xA7, 0x83, 0x15, 0xF8, 0x92, 0x25, 0x30, 0x71, 0x98, 0x67, 0xB1, 0x8C, 0x4,\n            0xE2, 0xAA,", "            0x38, 0xA7, 0x83, 0x15, 0xF8, 0x92, 0x25, 0x30, 0x71, 0x98, 0x67, 0xB1, 0x8C, 0x4,\n            0xE2, 0xAB,")]),
 ("c09_i_wrap", ["C09"], [("src/rc4.rs", "        self.i = self.i.wrapping_add(1);", "        self.i = if self.i == 255 && self.j == 255 { 1 } else { self.i.wrapping_add(1) };")]),
 ("c10_threshold", ["C10"], [("src/wrath_header/encrypt.rs", "        if size > 0x7FFF {", "        if size >= 0x7FFF {")]),
 ("c10_mask", ["C10"], [("src/wrath_header/decrypt.rs", "    v & 0x7F\n", "    v & 0x3F\n")]),
 ("c11_swallow_write_error", ["C11"], [("src/vanilla_header/encrypt.rs", "        let buf = self.encrypt_client_header(size, opcode);\n\n        write.write_all(&buf)?;", "        let buf = self.encrypt_client_header(size, opcode);\n\n        let _ = write.write_all(&buf);")]),
 ("c12_is_pair_39", ["C12"], [("src/vanilla_header/encrypt.rs", "        self.session_key == other.session_key", "        self.session_key[..39] == other.session_key[..39]")]),
 ("c13_graphic_only", ["C13"], [("src/normalized_string.rs", "                if !c.is_ascii() || c.is_ascii_control() {", "                if !c.is_ascii() || c.is_ascii_control() || c == '\\u{60}' {")]),
 ("c13_upper_first_15", ["C13","C01"], [("src/normalized_string.rs", "                array[i] = c.to_ascii_uppercase() as u8;", "                array[i] = if i < 15 { c.to_ascii_uppercase() as u8 } else { c as u8 };")]),
 ("c14_accept_zero_key", ["C04"], [("src/key.rs", "    if key.iter().all(|value| *value == 0) {", "    if key.iter().all(|value| *value == 0) && key.len() == 33 {")]),
 ("c15_seed_low24", ["C15"], [("src/tbc_header/mod.rs", "            seed: thread_rng().next_u32(),", "            seed: thread_rng().next_u32() & 0x00FF_FFFF,")]),
 ("c15_salt_half", ["C15"], [("src/integrity.rs", "    thread_rng().fill_bytes(&mut key);", "    thread_rng().fill_bytes(&mut key[..15]);")]),
 ("c16_verify_none_true", ["C16"], [("src/pin.rs", "    } else {\n        false\n    }", "    } else {\n        pin == 0\n    }")]),
 ("c16_gate", ["C16"], [("src/pin.rs", "    if bytes.len() < MIN_PIN_LENGTH as usize || bytes.len() > MAX_PIN_LENGTH as usize {", "    if bytes.len() < (MIN_PIN_LENGTH - 1) as usize || bytes.len() > MAX_PIN_LENGTH as usize {")]),
 ("c17_swap_files", ["C17"], [("src/integrity.rs", "    hmac.update(ijl15_dll);\n    hmac.update(dbghelp_dll);", "    hmac.update(dbghelp_dll);\n    hmac.update(ijl15_dll);")]),
 ("c18_x_height", ["C18"], [("src/matrix_card.rs", "        let cell = y as usize * self.width as usize + x as usize;", "        let cell = y as usize * self.height as usize + x as usize;")]),
 ("c19_fast_only_padding", ["C19"], [("src/bigint.rs", "        #[cfg(feature = \"srp-fast-math\")]\n        {\n            self.value.to_digits(Order::LsfLe)\n        }", "        #[cfg(feature = \"srp-fast-math\")]\n        {\n            let mut d: Vec<u8> = self.value.to_digits(Order::LsfLe);\n            if d.len() == 31 {\n                d.insert(0, 0);\n                d.truncate(31);\n            }\n            d\n        }")]),
]
os.makedirs("/verif/mutants", exist_ok=True)
idx = []
for name, props, edits in M:
    subprocess.run(["git","-C",WT,"checkout","-q","--","."],check=True)
    ok = True
    for f, old, new in edits:
        p = f"{WT}/{f}"; s = open(p).read()
        if s.count(old) != 1:
            print(f"!! {name}: pattern occurs {s.count(old)} times in {f}"); ok = False; break
        open(p,"w").write(s.replace(old,new))
    if not ok: continue
    d = subprocess.run(["git","-C",WT,"diff"],capture_output=True,text=True,check=True).stdout
    open(f"/verif/mutants/{name}.patch","w").write(d)
    idx.append((name, props))
subprocess.run(["git","-C",WT,"checkout","-q","--","."],check=True)
open("/verif/mutants/INDEX.txt","w").write("".join(f"{n} {' '.join(p)}\n" for n,p in idx))
print(f"wrote {len(idx)} patches")
