#!/bin/sh
# Developer aid (not a registered check): line/region coverage of /repo/src under the quick checks.
# Builds the harness with -C instrument-coverage on the nightly toolchain (its llvm-tools are installed),
# runs every quick check single-threaded (instrumented counters contend badly across rayon threads: C01 took
# 58 minutes on 16 threads and 10 on one), one process per check in parallel, and prints llvm-cov's report
# restricted to /repo/src. Scratch build and profiles go to ${COV_DIR:-/tmp/covbuild}; remove it afterwards.
set -u
D=${COV_DIR:-/tmp/covbuild}
B=$(dirname "$(rustc +nightly --print target-libdir)")/bin
mkdir -p "$D/root"; rsync -a /verif/witnesses "$D/root/"; cp /verif/known_findings.txt "$D/root/"
cd /verif/harness || exit 2
CARGO_NET_OFFLINE=true RUSTFLAGS="-C instrument-coverage" cargo +nightly build --release --offline --target-dir "$D" -p checks || exit 2
cd "$D" && rm -f ./*.profraw
export VERIF_ROOT=$D/root RAYON_NUM_THREADS=1
for id in C01 C02 C03 C04 C05 C06 C07 C08 C09 C10 C11 C13 C14 C15 C16 C17 C18; do
  ( LLVM_PROFILE_FILE=$D/$id.profraw ./release/vpcheck check $id quick > $D/$id.log 2>&1 ) &
done
wait
"$B/llvm-profdata" merge -sparse ./*.profraw -o all.profdata
"$B/llvm-cov" report ./release/vpcheck -instr-profile=all.profdata --sources /repo/src
"$B/llvm-cov" show ./release/vpcheck -instr-profile=all.profdata --sources /repo/src --show-line-counts-or-regions 2>/dev/null | grep -E "^\s+[0-9]+\|\s+0\|" > uncovered_lines.txt
echo "uncovered lines: $D/uncovered_lines.txt"
