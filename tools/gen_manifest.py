#!/usr/bin/env python3
"""Writes /verif/MANIFEST.json from the table below and validates it (and any evidence present)
against the schemas in /root/.vp when those are readable."""
import json, os, sys

CHECKS = {
 # id: (engine, category, technique, level text, level note, design_ref)
 "C01": ("E3 sweep", "model_checking",
         "exhaustive enumeration of login tuples (alphabet products, contiguous key ranges, counter-mode RNG scripts, constructed rare-class witnesses) on the real typestate API under a scripted RNG",
         "Every login in the stated finite spaces, and every sequence of 2 (thorough: 3) logins over 11 configurations executed back to back on one thread, is run through the real public API with salt, b and a chosen by the explorer; oracle: both sides accept, byte-identical K, accessors return what was stored, the exchange after export/re-import is identical to the direct one. Rare classes (S with 1/2/3 low zero bytes, high zero bytes in S/A/B/v incl. v, A, B one 32-bit limb short, B just below N, u and x below 2^128, negative B-k*v) are constructed witnesses re-validated by the reference model on every run.",
         "Complete over the stated alphabets/ranges/witnesses, not over 2^256 keys and salts; RNG seam trusted to be the library's only entropy source (checked by draw log).",
         "DESIGN.md section 3, C01"),
 "C02": ("E2 choices", "model_checking",
         "deviation-bounded exploration of an adversary on the wire (typed credentials, every single-bit change of B, salt, A, M1, M2, the generator told to the client) over the real four-message exchange, exact-equality reference oracle per party",
         "For each session every execution with <= 1 deviation (1,095 per session, incl. A replaced by A+N) and, for a few sessions, every pair of deviations is run on the real code; each party must accept iff the presented proof equals the reference proof determined by its own view, errors must carry both proofs. Structured multi-bit alterations of M1 and M2 (all pairs of bit flips in the thorough tier, byte replacements, truncations, rotations, word-cancelling flips) are run against clones of the real typestate objects. Confusable credentials (blanks trimmed / collapsed / doubled / dropped, a character doubled or dropped, user and password swapped) must be refused whenever the reference normalisation keeps them apart.",
         "Session alphabet finite; deviation bound 1 (2 for a few sessions).",
         "DESIGN.md section 3, C02"),
 "C03": ("E3 sweep", "model_checking",
         "exhaustive enumeration against an independent reference model: login tuples, all 32x32 zero-byte shapes of S through the internal-function seam, all generators 2..255 x prime moduli alphabet on the client",
         "v, B, A, K, M1, M2 from the public accessors are compared byte for byte with a reference model that shares no code with the library (own SHA-1/bigint), itself validated against Python and the repository's vectors; the S-shape dimension (every count of low/high zero bytes) is closed completely at the seam; announced groups are closed over all 256 generators x 17 prime moduli; the server's B is steered (through a constructed verifier and scripted b) to every count of high/low zero bytes and to 2^k, N-2^k for k = 0..255 with quotients 0..4 of (3v+g^b)/N.",
         "Key/salt space and modulus alphabet finite; reference model trusted after its self-test.",
         "DESIGN.md section 3, C03"),
 "C04": ("E3 sweep", "model_checking",
         "exhaustive enumeration of the 2^32 {0,N_i}-byte arrays and all one-byte/one-bit neighbours of 0 and N; steering of the server's own B and the client's own A",
         "All 2^32 arrays whose bytes are each 0 or N's byte (thorough; a structured subset in quick), every one-byte/one-bit neighbour of 0 and N, arithmetic neighbours and powers of two are pushed through PublicKey::from_le_bytes; the server's own B is steered to chosen values through a constructed verifier and scripted b, the client's own A to 0 through g = N'.",
         "The remaining 2^256 space is represented by alphabets.",
         "DESIGN.md section 3, C04"),
 "C05": ("E2 choices", "model_checking",
         "deviation-bounded exploration of reconnect-attempt histories (replays, stale challenges, wrong key/name, all proof and client-data bit flips, repeated nonces) on one real SrpServer, reference state (U, K, current challenge)",
         "All histories of length 6 (quick) / 8 and 12 (thorough) with at most 2 (resp. 1, 3) deviating attempts or refreshes over an alphabet of ~330 adversary actions are executed on the real object; verdict must equal proof == SHA1(U|client_data|current challenge|K) and every attempt must replace the challenge (the RNG may also answer all-zero / all-ones / an earlier challenge at a refresh; the application may go on with a clone of the server object before any attempt); three fixed histories of 70,000 attempts on one, three interleaved and two cloned servers.",
         "History length and deviation count bounded; sessions from an alphabet.",
         "DESIGN.md section 3, C05"),
 "C06": ("E3 sweep", "model_checking",
         "exhaustive enumeration of all ordered pairs of boundary seeds x usernames x session keys x every single deviation, for the three expansion modules, server seed scripted through the RNG seam",
         "Per module every (username, key, client seed, server seed) session of the product is run with the honest proof and with each deviation (swapped seeds, seeds +-1, other/case-variant name, each key byte, each of 160 proof bits); the server must accept iff the proof equals the reference for the seed its accessor reports. Thorough adds all 2^32 claimed client seeds.",
         "Usernames and session keys from alphabets.",
         "DESIGN.md section 3, C06"),
 "C07": ("E1 statespace", "model_checking",
         "explicit-state BFS to fixpoint over the real EncrypterHalf/DecrypterHalf objects, lockstep reference recurrence",
         "Per key and direction the complete reachable state graph (10,240 states x 257 actions) of the real Vanilla halves is closed to fixpoint and every transition is compared with the reference recurrence; the closed-loop (encrypter, decrypter) graph is closed too, so round-tripping holds for streams of unbounded length for the explored keys; chunking equivalence is checked from every reachable state; the visited set is keyed on the reference state with an identity-or-behaviour check at every merge; a long-stream walk (2^24 bytes quick, 2^32+2^20 thorough) catches hidden counters. Rotating keys put every byte value at every key position, so the step function is executed on its whole domain (thorough).",
         "Session keys outside the key alphabet are not explored; assumes the step at position i reads only key[i] (checked on the explored keys). Also explored: every header entry point (typed, reader whole / one byte per call / failing once, writers) against the recurrence over the documented layout, halves re-joined after uneven use, a second connection on the same thread with a look-alike session key.",
         "DESIGN.md section 3, C07"),
 "C08": ("E1 statespace", "model_checking",
         "explicit-state BFS to fixpoint over the real TBC halves, lockstep reference (own HMAC-SHA1 + recurrence)",
         "Same three searches as C07 with the 20-byte HMAC-derived key (5,120 states per key and direction); ciphertext equality with a reference that derives the key with its own HMAC-SHA1 pins both separately coded derivations; the session-key alphabet is grown until the derived keys cover every (position, byte) pair (thorough).",
         "Session keys outside the alphabet are not explored (the HMAC is covered by byte-exact comparison on the explored keys only). Header entry points and look-alike session keys as in C07.",
         "DESIGN.md section 3, C08"),
 "C09": ("E1 statespace (path)", "model_checking",
         "depth-bounded walk of the keystream path of all four real halves against a reference RC4-drop1024/HMAC; complete call-composition trees at the counter wrap offsets",
         "For each key the four real halves are stepped along the stream (past the 256- and 65,536-byte wraps) with varying call sizes and compared byte for byte with an independent RC4 keyed by HMAC-SHA1(direction constant, K) after dropping 1024 bytes; both pairings round-trip at every offset; every composition of a 10-byte window into calls is executed at the wrap offsets with object equality.",
         "Also a walk of 1,600 (thorough 20,000) server and client headers through every Wrath entry point with clones between the two decoding steps, and look-alike session keys on one thread. Depth-bounded (2^21 bytes quick; thorough 2^26 for 8 keys and 2^32+2^20 per direction for one connection): RC4's state space cannot be closed; key alphabet finite.",
         "DESIGN.md section 3, C09"),
 "C10": ("E3 sweep + E1", "model_checking",
         "exhaustive enumeration of all 2^23 sizes and all 2^16 opcodes (each against an alphabet of the other) through both emitters and both decoders; BFS over mixed header sequences with exact dedup",
         "Every size 0..=0x7FFFFF and every opcode is emitted by the real server (slice and Write emitters), checked against the reference layout under the reference keystream, and decoded by both client paths on a running connection; header sequences are explored to a depth bound with dedup on the real object pair.",
         "The full size x opcode product is not enumerated; sequence depth bounded.",
         "DESIGN.md section 3, C10"),
 "C11": ("E2 choices", "fault_enumeration",
         "complete enumeration of the reader/writer answer tree (every fragmentation, interruption, EOF and 8 error kinds at every byte offset) for every header entry point; exhaustive typed-vs-raw value sweeps",
         "For every entry point (typed helper, Read/Write wrapper, combined object, split half, via accessor) of Vanilla, TBC and Wrath, the whole finite tree of environment answers is executed on the real wrapper from several cipher states: success leaves must equal the raw operation on the wire layout, failure leaves must return Err and leave the decrypter exactly as before (after the 4-byte attempt for a Wrath header failing at byte 5), a failing writer must be reported.",
         "Start states and header values from alphabets; at most 2 interruptions per execution.",
         "DESIGN.md section 3, C11"),
 "C12": ("E1 statespace + E4 loom + E3", "model_checking",
         "BFS over interleavings of {encrypt, decrypt, split, clone, unsplit} with a differential oracle (separate single-direction objects) and the reference model; loom exploration of all schedules of two real halves in two threads; exhaustive one-byte key differences for unsplit",
         "Every interleaving up to the depth bound is executed on the real combined object / halves and each direction's bytes are compared with a separate object and the reference model; loom runs all schedules (no preemption bound) of 2 threads x 3 operations over the real halves for five harnesses and all 20 operation orders are observed; a large Wrath header is split / cloned / moved to another thread between its two decoding steps; Vanilla unsplit is decided for all 40x255 one-byte and all two-position key differences; two Wrath client connections are interleaved through the typed header API (incl. clones and completion of a long header on another thread) by BFS.",
         "Interleaving depth bounded; the schedules argument rests on ownership (no statics/interior mutability - scanned and reported) plus call-level interleavings.",
         "DESIGN.md section 3, C12"),
 "C13": ("E3 sweep", "model_checking",
         "exhaustive enumeration: every Unicode scalar value at every position of every byte length 1..=17, all short strings over a 12-symbol alphabet, all multi-byte strings at the length limit",
         "118 million constructions cover every scalar value x position x length; all five constructors on every enumerated string, Clone, Display, idempotence, case-insensitivity and ==/cmp/Hash against the normalised text are compared with the reference rule; lengths up to 1,100 and around 2^16, 2^17, 2^24 (thorough 2^32).",
         "Multi-character combinations beyond the small alphabets are not enumerated.",
         "DESIGN.md section 3, C13"),
 "C14": ("E3 sweep + E1", "model_checking",
         "enumeration of adversarial and algebraically targeted peer values (incl. B = k*v mod N forcing S = 0) through the typestate API with catch_unwind; BFS over header byte sequences",
         "Every combination of the adversarial alphabets for A, M1, reconnect values (server) and B, salt, M2 (client) with a and b pinned by the RNG script is executed; no call may unwind and results must match the reference where it is defined; header decrypt calls in any order (incl. the Wrath large-header byte before any attempt, short readers) are explored by BFS; chosen-plaintext headers (every first byte x alphabets) go through every decrypt entry point; runs of 66,000+ rejected reconnect attempts; world logins for every pair of boundary seeds incl. the peer echoing ours; raw encrypt/decrypt calls of every length 0..=600 from every position 0..=40 on all seven cipher objects; the library is built with overflow checks and debug assertions on.",
         "Byte values outside the adversarial alphabets are not explored.",
         "DESIGN.md section 3, C14"),
 "C15": ("E2/E3 over the RNG environment", "model_checking",
         "enumeration of RNG answers (counter, all-zero, all-ones, one-hot at every draw-byte position, the previously produced value fed back) and call histories for each of the 15 drawing sites through the scripted-RNG seam",
         "For every documented drawing call: later calls draw again, values never repeat when the RNG supplied different bytes, every draw byte changes the value, every output byte varies, the draw is at least as wide as the value; card digits stay in 0..=9, every cell varies and no digit position copies another (cards up to 1,920 digits). A free-running two-thread sampling pass is supplementary and labelled as such.",
         "Statistical quality of rand::ThreadRng is trusted (outside this family).",
         "DESIGN.md section 3, C15"),
 "C16": ("E3 sweep", "model_checking",
         "exhaustive enumeration of all 3,628,800 grid-seed residues, all 2^32 seeds (thorough), PIN ranges and every single-bit change of presented hashes",
         "All residues modulo 10! are closed with a 10-distinct-digit PIN (the hash reveals the whole layout); seeds are reduced modulo 10! for all 2^32 seeds (thorough); the 4..10 digit gate is closed over 0..20000 and all boundaries (thorough: every PIN below 10^8); verification is checked against the reference for the right hash, all 160 one-bit changes, the un-gated hash and neighbours.",
         "Salts from an alphabet; 9/10-digit PINs only at the range edges.",
         "DESIGN.md section 3, C16"),
 "C17": ("E3 sweep", "model_checking",
         "exhaustive enumeration of every distribution of byte strings of length <= 12 (20 thorough) over the five file arguments, block-edge cut points, single-byte sensitivity",
         "Every one of the C(n+4,4) splits per length is evaluated through the Windows, Mac and single-buffer functions and the reference SHA1(key|HMAC-SHA1(salt, concat)); every single-byte change of files, salt and key must change the result; argument order matters; reconnect variant compared with the reference.",
         "Content space represented by three patterns per length, plus marked contents (byte order marks, magic numbers, line endings, padding as prefix / suffix of each file), multi-megabyte inputs and 160 in-place changes of the same buffers on one thread.",
         "DESIGN.md section 3, C17"),
 "C18": ("E3 sweep", "model_checking",
         "exhaustive enumeration of all 1,457 card shapes of at most 255 cells x 5 digit counts: every coordinate, every round 0..=255, proofs from the printed digits",
         "For every shape and card content that encodes the cell index, the lookup must return the printed cell at row y, column x; rounds outside 0..count-1 must yield None without panic, challenged coordinates must be distinct and on the card; a client entering the printed digits (its verifier cloned half-way through) must be accepted and its proof must equal the reference HMAC/MD5/RC4 definition; data of the wrong size is refused or yields a card whose lookups still work; altered digit sequences must be rejected.",
         "Seeds and session keys from alphabets (all small seeds for cards of <= 12 cells).",
         "DESIGN.md section 3, C18"),
 "C19": ("E5 dualbuild", "model_checking",
         "the same exhaustive case lists compiled against both big-integer back ends (num-bigint, rug/GMP); canonical transcripts compared line by line",
         "Every case of the C01 login layers (incl. zero private keys), C03 seam operands/S shapes, announced groups (incl. the even prime 2, tiny, composite and even moduli), C04 own-key steering and C14 hostile server keys is executed once per build; every observable (bytes, error kind, panic) must be identical.",
         "rug runs on the system GMP 6.2.1 through a vendored version-gate patch (bundled 6.3.0 cannot be built offline).",
         "DESIGN.md section 3, C19"),
}
PENDING = {}

def main():
    props = [json.loads(l) for l in open("/verif/properties.jsonl")]
    checks = []
    na = []
    for p in props:
        pid = p["id"]
        if pid in CHECKS:
            eng, cat, tech, text, note, ref = CHECKS[pid]
            checks.append({
                "property_id": pid,
                "quick_cmd": f"./check.sh {pid} quick",
                "thorough_cmd": f"./check.sh {pid} thorough",
                "evidence_file": f"/verif/evidence/{pid}.json",
                "replay_cmd_template": "./replay.sh {path}",
                "engine": eng,
                "level_claimed": {"category": cat, "text": text, "design_ref": ref},
                "level_note": note,
                "technique": tech,
            })
        else:
            na.append({"property_id": pid, "reason": PENDING.get(pid, "check not built yet in this round (work in progress); not claimed until it exists")})
    m = {
        "version": 1,
        "setup_cmd": "./setup.sh",
        "hooks": {
            "guard": "cargo feature verif-hooks",
            "enable": "the harness depends on wow_srp by path (/repo) with features = [\"verif-hooks\", \"matrix-card\"]; every check runs `cargo build --release --offline` first, so it rebuilds from /repo's current working tree",
            "baseline_off_cmd": "cd /repo && cargo test --workspace --no-fail-fast --offline",
            "source_commits": open("/verif/tools/hook_commits.txt").read().split() if os.path.exists("/verif/tools/hook_commits.txt") else [],
            "add_only": True,
        },
        "engines": [
            {"name": "E1 statespace", "path": "harness/mc/src/bfs.rs", "serves_properties": ["C07", "C08", "C09", "C10", "C12", "C14"], "kind_free_text": "explicit-state breadth-first search keyed on real library objects, exact dedup, lockstep reference model"},
            {"name": "E2 choices", "path": "harness/mc/src/choices.rs", "serves_properties": ["C02", "C05", "C11", "C14", "C15"], "kind_free_text": "stateless deviation-bounded exploration of environment answers (RNG, reader/writer faults, adversary) on the real code"},
            {"name": "E3 sweep", "path": "harness/checks/src", "serves_properties": ["C01", "C03", "C04", "C06", "C10", "C13", "C16", "C17", "C18"], "kind_free_text": "exhaustive enumeration of finite input products/ranges on the real code against the reference model"},
            {"name": "E4 loom", "path": "harness/loomcheck", "serves_properties": ["C12"], "kind_free_text": "loom controlled scheduler over two real halves in two threads"},
            {"name": "E5 dualbuild", "path": "harness/checks/src/c19.rs", "serves_properties": ["C19"], "kind_free_text": "same enumeration compiled against both big-integer back ends, transcripts compared line by line"},
        ],
        "checks": checks,
        "not_applicable": na,
        "notes": "All checks run the real library code in-process; the 'model' is an independent reference model stepped in lockstep (harness/refmodel), validated by setup.sh against published vectors, Python and the repository's vector files. Exit 2 = machinery error, never a verdict.",
    }
    if not na:
        del m["not_applicable"]
        m["not_applicable"] = []
    json.dump(m, open("/verif/MANIFEST.json", "w"), indent=1)
    open("/verif/MANIFEST.json", "a").write("\n")
    try:
        import jsonschema
        jsonschema.validate(m, json.load(open("/root/.vp/MANIFEST.schema.json")))
        es = json.load(open("/root/.vp/EVIDENCE.schema.json"))
        n = 0
        for c in checks:
            f = c["evidence_file"]
            if os.path.exists(f):
                jsonschema.validate(json.load(open(f)), es); n += 1
        print(f"MANIFEST ok: {len(checks)} checks, {len(na)} not claimed; {n} evidence files validate")
    except ImportError:
        print("jsonschema not available; not validated")

main()
