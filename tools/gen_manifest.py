#!/usr/bin/env python3
"""Writes /verif/MANIFEST.json from the table below and validates it (and any evidence present)
against the schemas in /root/.vp when those are readable."""
import json, os, sys

CHECKS = {
 # id: (engine, category, technique, level text, level note, design_ref)
 "C07": ("E1 statespace", "model_checking",
         "explicit-state BFS to fixpoint over the real EncrypterHalf/DecrypterHalf objects, lockstep reference recurrence",
         "Per key and direction the complete reachable state graph (10,240 states x 257 actions) of the real Vanilla halves is closed to fixpoint and every transition is compared with the reference recurrence; the closed-loop (encrypter, decrypter) graph is closed too, so round-tripping holds for streams of unbounded length for the explored keys; chunking equivalence is checked from every reachable state. Rotating keys put every byte value at every key position, so the step function is executed on its whole domain (thorough).",
         "Session keys outside the key alphabet are not explored; assumes the step at position i reads only key[i] (checked on the explored keys).",
         "DESIGN.md section 3, C07"),
 "C08": ("E1 statespace", "model_checking",
         "explicit-state BFS to fixpoint over the real TBC halves, lockstep reference (own HMAC-SHA1 + recurrence)",
         "Same three searches as C07 with the 20-byte HMAC-derived key (5,120 states per key and direction); ciphertext equality with a reference that derives the key with its own HMAC-SHA1 pins both separately coded derivations; the session-key alphabet is grown until the derived keys cover every (position, byte) pair (thorough).",
         "Session keys outside the alphabet are not explored (the HMAC is covered by byte-exact comparison on the explored keys only).",
         "DESIGN.md section 3, C08"),
}
PENDING = {}

def main():
    props = [json.loads(l) for l in open("/verif/properties.jsonl")]
    checks = []
    na = []
    for p in props:
        pid = p["id"]
        if pid in CHECKS:
            eng, cat, tech, text, note, ref = CHECKS[pid]
            checks.append({
                "property_id": pid,
                "quick_cmd": f"./check.sh {pid} quick",
                "thorough_cmd": f"./check.sh {pid} thorough",
                "evidence_file": f"/verif/evidence/{pid}.json",
                "replay_cmd_template": "./replay.sh {path}",
                "engine": eng,
                "level_claimed": {"category": cat, "text": text, "design_ref": ref},
                "level_note": note,
                "technique": tech,
            })
        else:
            na.append({"property_id": pid, "reason": PENDING.get(pid, "check not built yet in this round (work in progress); not claimed until it exists")})
    m = {
        "version": 1,
        "setup_cmd": "./setup.sh",
        "hooks": {
            "guard": "cargo feature verif-hooks",
            "enable": "the harness depends on wow_srp by path (/repo) with features = [\"verif-hooks\", \"matrix-card\"]; every check runs `cargo build --release --offline` first, so it rebuilds from /repo's current working tree",
            "baseline_off_cmd": "cd /repo && cargo test --workspace --no-fail-fast --offline",
            "source_commits": open("/verif/tools/hook_commits.txt").read().split() if os.path.exists("/verif/tools/hook_commits.txt") else [],
            "add_only": True,
        },
        "engines": [
            {"name": "E1 statespace", "path": "harness/mc/src/bfs.rs", "serves_properties": ["C07", "C08", "C09", "C10", "C12", "C14"], "kind_free_text": "explicit-state breadth-first search keyed on real library objects, exact dedup, lockstep reference model"},
            {"name": "E2 choices", "path": "harness/mc/src/choices.rs", "serves_properties": ["C02", "C05", "C11", "C14", "C15"], "kind_free_text": "stateless deviation-bounded exploration of environment answers (RNG, reader/writer faults, adversary) on the real code"},
            {"name": "E3 sweep", "path": "harness/checks/src", "serves_properties": ["C01", "C03", "C04", "C06", "C10", "C13", "C16", "C17", "C18"], "kind_free_text": "exhaustive enumeration of finite input products/ranges on the real code against the reference model"},
            {"name": "E4 loom", "path": "harness/loomcheck", "serves_properties": ["C12"], "kind_free_text": "loom controlled scheduler over two real halves in two threads"},
            {"name": "E5 dualbuild", "path": "harness/checks/src/c19.rs", "serves_properties": ["C19"], "kind_free_text": "same enumeration compiled against both big-integer back ends, transcripts compared line by line"},
        ],
        "checks": checks,
        "not_applicable": na,
        "notes": "All checks run the real library code in-process; the 'model' is an independent reference model stepped in lockstep (harness/refmodel), validated by setup.sh against published vectors, Python and the repository's vector files. Exit 2 = machinery error, never a verdict.",
    }
    if not na:
        del m["not_applicable"]
        m["not_applicable"] = []
    json.dump(m, open("/verif/MANIFEST.json", "w"), indent=1)
    open("/verif/MANIFEST.json", "a").write("\n")
    try:
        import jsonschema
        jsonschema.validate(m, json.load(open("/root/.vp/MANIFEST.schema.json")))
        es = json.load(open("/root/.vp/EVIDENCE.schema.json"))
        n = 0
        for c in checks:
            f = c["evidence_file"]
            if os.path.exists(f):
                jsonschema.validate(json.load(open(f)), es); n += 1
        print(f"MANIFEST ok: {len(checks)} checks, {len(na)} not claimed; {n} evidence files validate")
    except ImportError:
        print("jsonschema not available; not validated")

main()
