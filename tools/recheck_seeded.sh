#!/bin/sh
# Re-run, in the mutant lab, the target check (quick tier; thorough where meta.json says so) of every
# seeded change and of every own mutant, and write the outcome into seeded/*/meta.json ("latest_recheck")
# and mutants/RESULTS_latest.txt. Exit 1 if any target check misses its change.
# env: ONLY="C01 C03" restricts to seeds / mutants of these properties; SHARD=k/n takes every n-th item (k = 0..n-1),
#      so that several labs (MLAB_DIR / MLAB_WT) can share the work.
cd /verif || exit 2
tools/mutant_lab.sh init || exit 2
bad=0
K=${SHARD%%/*}; NSH=${SHARD##*/}; [ -n "${SHARD:-}" ] || { K=0; NSH=1; }
i=0
want() { [ -z "${ONLY:-}" ] && return 0; for o in $ONLY; do [ "$o" = "$1" ] && return 0; done; return 1; }
for d in seeded/*/; do
  id=$(basename "$d"); pid=${id%%-*}
  want "$pid" || continue
  i=$((i+1)); [ $((i % NSH)) = "$K" ] || continue
  tier=quick; grep -q '"needs_tier": "thorough"' "$d/meta.json" && tier=thorough
  res=$(VERIF_TIER=$tier tools/mutant_lab.sh run "$d/patch.diff" "$pid" 2>&1 | tail -1)
  echo "$id [$tier]: $res"
  if grep -q '"expected": "miss"' "$d/meta.json"; then :; else case "$res" in DETECTED*) ;; *) bad=1 ;; esac; fi
  python3 - "$d/meta.json" "$tier" "$res" <<'PY'
import json,sys
p,tier,res=sys.argv[1:4]
m=json.load(open(p)); m["latest_recheck"]={"tier":tier,"result":res}
json.dump(m,open(p,"w"),indent=1)
PY
done
[ "$K" = 0 ] && : > mutants/RESULTS_latest.txt
while read -r name ids; do
  first=$(echo $ids | cut -d' ' -f1)
  want "$first" || continue
  i=$((i+1)); [ $((i % NSH)) = "$K" ] || continue
  res=$(tools/mutant_lab.sh run mutants/$name.patch $first 2>&1 | tail -1)
  echo "$name: $res" | tee -a mutants/RESULTS_latest.txt
  case "$res" in DETECTED*) ;; *) bad=1 ;; esac
done < mutants/INDEX.txt
exit $bad
