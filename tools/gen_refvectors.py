#!/usr/bin/env python3
"""Generate cross-check vectors for the Rust reference model from an unrelated implementation
(CPython big ints, OpenSSL-backed hashlib/hmac, a 10-line RC4). Deterministic (fixed seed).
Output: JSON lines on stdout. Never used to decide a property; only validates the reference model."""
import hashlib, hmac, json, random, sys

rnd = random.Random(20261002)
N = int("894B645E89E1535BBDAD5B8B290650530801B18EBFBF5E8FAB3C82872A3E9BB7", 16)

def rb(n): return bytes(rnd.getrandbits(8) for _ in range(n))
def out(**kw): print(json.dumps(kw, separators=(",", ":")))
def hx(i): return "%x" % i

def rc4(key, n):
    s = list(range(256)); j = 0
    for i in range(256):
        j = (j + s[i] + key[i % len(key)]) % 256; s[i], s[j] = s[j], s[i]
    i = j = 0; o = bytearray()
    for _ in range(n):
        i = (i + 1) % 256; j = (j + s[i]) % 256; s[i], s[j] = s[j], s[i]
        o.append(s[(s[i] + s[j]) % 256])
    return bytes(o)

# hashes over lengths that straddle block boundaries
for n in list(range(0, 200)) + [255, 256, 257, 1000, 4096]:
    d = rb(n)
    out(op="sha1", data=d.hex(), out=hashlib.sha1(d).hexdigest())
    out(op="md5", data=d.hex(), out=hashlib.md5(d).hexdigest())
for kl in [0, 1, 16, 20, 63, 64, 65, 80, 200]:
    for n in [0, 1, 40, 55, 56, 63, 64, 65, 119, 128, 1000]:
        k, d = rb(kl), rb(n)
        out(op="hmac", key=k.hex(), data=d.hex(), out=hmac.new(k, d, hashlib.sha1).hexdigest())
for kl in [5, 16, 20]:
    k = rb(kl)
    out(op="rc4", key=k.hex(), n=1300, out=rc4(k, 1300).hex())

# big integers: special limb patterns + random, all sizes
specials = [0, 1, 2, 3, 7, 255, 256, 2**31, 2**32 - 1, 2**32, 2**32 + 1, 2**63, 2**64 - 1, 2**64, 2**96 - 1,
            2**128, 2**255, 2**256 - 1, 2**256, N - 1, N, N + 1, 2 * N, N * N - 1, 2**512 - 1, 2**511,
            0x80000000_00000000_00000000, 0xFFFFFFFF_00000000_FFFFFFFF, 0x00000001_00000000_00000000_00000000]
def randint():
    t = rnd.random()
    bits = rnd.choice([1, 8, 31, 32, 33, 63, 64, 65, 127, 128, 160, 255, 256, 257, 320, 416, 511, 512, 513])
    v = rnd.getrandbits(bits)
    if t < 0.2:   # limbs of all-ones / all-zeros to provoke the qhat correction and add-back paths
        limbs = [rnd.choice([0, 0xFFFFFFFF, 0x80000000, 0x7FFFFFFF, 1, rnd.getrandbits(32)]) for _ in range((bits + 31) // 32)]
        v = sum(l << (32 * i) for i, l in enumerate(limbs))
    return v
vals = specials + [randint() for _ in range(400)]
for _ in range(6000):
    a, b = rnd.choice(vals), rnd.choice(vals)
    if rnd.random() < 0.5: a = randint()
    if rnd.random() < 0.5: b = randint()
    out(op="mul", a=hx(a), b=hx(b), out=hx(a * b))
    if b:
        out(op="divrem", a=hx(a), b=hx(b), q=hx(a // b), r=hx(a % b))
    # products that are exact or off-by-one multiples: q*b, q*b - 1, q*b + b - 1
    if b and a:
        for t in (a * b, a * b - 1, a * b + b - 1):
            out(op="divrem", a=hx(t), b=hx(b), q=hx(t // b), r=hx(t % b))
moduli = [N, 2**255 - 19, 2**256 - 2**32 - 977, 2**127 - 1, 2**61 - 1, 2**31 - 1, 65537, 65521, 257, 251, 13, 11, 7, 5, 3, 2, 1,
          2**256 - 1, 2**128, 6, 10**20]
for m in moduli:
    for _ in range(40):
        b = rnd.choice([0, 1, 2, 3, 7, m - 1 if m > 1 else 0, m, m + 1, randint()])
        e = rnd.choice([0, 1, 2, 3, m - 1 if m > 1 else 0, randint(), rnd.getrandbits(256), rnd.getrandbits(416)])
        out(op="modpow", b=hx(b), e=hx(e), m=hx(m), out=hx(pow(b, e, m)))

# complete WoW SRP6 logins computed with plain Python ints (third implementation of the formulas)
def H(*parts): return hashlib.sha1(b"".join(parts)).digest()
def le(i, n=32): return i.to_bytes(n, "little")
def interleave(S):
    t = le(S)
    while t and t[0] == 0: t = t[1:]
    if len(t) % 2: t = t[1:]
    g, h = H(t[0::2]), H(t[1::2])
    return bytes(x for p in zip(g, h) for x in p)
names = ["A", "ALICE", "USERNAME123", "0123456789ABCDEF", "!\"#$%&'()*+,-./:", "A:", "Z Z"]
for i in range(60):
    U = rnd.choice(names).encode(); P = rnd.choice(names).encode()
    salt = rb(32) if i % 5 else bytes(32)
    b = rnd.getrandbits(256) if i % 7 else rnd.choice([1, 2, 3, N - 1, N + 5, 2**256 - 1])
    a = rnd.getrandbits(256) if i % 6 else rnd.choice([1, 2, 3, N - 1, N + 5, 2**256 - 1])
    g = 7
    x = int.from_bytes(H(salt, H(U, b":", P)), "little")
    v = pow(g, x, N); B = (3 * v + pow(g, b, N)) % N; A = pow(g, a, N)
    if A == 0 or B == 0: continue
    u = int.from_bytes(H(le(A), le(B)), "little")
    Ss = pow(A * pow(v, u, N), b, N)
    Sc = pow((B - 3 * pow(g, x, N)) % N, a + u * x, N)
    assert Ss == Sc
    if Ss == 0: continue
    K = interleave(Ss)
    hn, hg = H(le(N)), H(bytes([g]))
    M1 = H(bytes(p ^ q for p, q in zip(hn, hg)), H(U), salt, le(A), le(B), K)
    M2 = H(le(A), M1, K)
    out(op="login", user=U.decode(), password=P.decode(), salt=salt.hex(), b=le(b).hex(), a=le(a).hex(),
        v=le(v).hex(), B=le(B).hex(), A=le(A).hex(), S=le(Ss).hex(), K=K.hex(), M1=M1.hex(), M2=M2.hex())
# interleave on every count of low zero bytes
for z in range(0, 32):
    S = int.from_bytes(bytes(z) + rb(32 - z - 1) + b"\x01", "little")
    out(op="interleave", S=le(S).hex(), K=interleave(S).hex())
# primality of the announced-group moduli used by C03/C04 (Miller-Rabin with 40 fixed bases)
def is_prime(n):
    if n < 2: return False
    for p in (2, 3, 5, 7, 11, 13, 17, 19, 23, 29, 31, 37):
        if n % p == 0: return n == p
    d, s = n - 1, 0
    while d % 2 == 0: d //= 2; s += 1
    for a in range(2, 42):
        x = pow(a, d, n)
        if x in (1, n - 1): continue
        for _ in range(s - 1):
            x = x * x % n
            if x == n - 1: break
        else: return False
    return True
for m in [N, 2**255 - 19, 2**256 - 2**32 - 977, 2**256 - 2**224 + 2**192 + 2**96 - 1, 2**127 - 1, 2**61 - 1, 2**31 - 1, 65537, 65521, 257, 251, 13, 11, 7, 5, 3, 2]:
    out(op="prime", m=hx(m), prime=is_prime(m))
