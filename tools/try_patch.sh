#!/bin/sh
# Developer/CI aid: apply a property-breaking patch to /repo, run the given checks (quick tier),
# undo the patch. Never commits anything in /repo.
# usage: tools/try_patch.sh [--baseline] <patch-file> <ID> [<ID>...]
# prints one line per check: DETECTED / MISSED / MACHINERY, and the baseline result if asked.
set -u
BASE=0
if [ "$1" = "--baseline" ]; then BASE=1; shift; fi
P=$(realpath "$1"); shift
cd /repo || exit 2
if [ -n "$(git status --porcelain --untracked-files=no)" ]; then echo "refusing: /repo has uncommitted changes"; exit 2; fi
if ! git apply --3way "$P" 2>/tmp/try_patch.err && ! git apply "$P" 2>>/tmp/try_patch.err; then echo "PATCH-DOES-NOT-APPLY $P"; cat /tmp/try_patch.err | head -5; git reset -q --hard HEAD; exit 2; fi
git reset -q
trap 'cd /repo && git checkout -- . && git clean -fdq -- src tests examples 2>/dev/null' EXIT
if [ $BASE = 1 ]; then
  if cargo test --workspace --no-fail-fast --offline >/tmp/try_patch.base 2>&1; then echo "BASELINE-PASSES $(grep -c '^test .* ok$' /tmp/try_patch.base) tests ok"; else echo "BASELINE-FAILS"; grep -E "^test .* FAILED|panicked" /tmp/try_patch.base | head -5; fi
fi
cd /verif
for id in "$@"; do
  out=$(./check.sh "$id" "${VERIF_TIER:-quick}" 2>&1); rc=$?
  case $rc in
    1) echo "DETECTED $id: $(printf '%s\n' "$out" | grep -m1 'signature:' | sed 's/^ *//')" ;;
    0) echo "MISSED   $id" ;;
    *) echo "MACHINERY $id rc=$rc: $(printf '%s\n' "$out" | grep -m1 -E 'MACHINERY|error' )" ;;
  esac
done
