#!/bin/sh
# developer helper: build the harness, show only errors and warnings that originate in /verif
cd /verif/harness && cargo build --release --message-format short "$@" 2>&1 | grep -E "^(error|checks|mc|refmodel|loomcheck)|^/verif|error(\[|:)" | grep -v "^/repo" | head -60
