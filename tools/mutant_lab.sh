#!/bin/sh
# Mutant lab: a private copy of the harness that path-depends on a SCRATCH worktree of /repo
# (default /tmp/wt/lab), with its own build and evidence directories, so that property-breaking
# patches can be tried in the background without touching /repo or /verif/evidence.
# usage: tools/mutant_lab.sh init            (creates/refreshes /tmp/mlab from /verif and the worktree from /repo HEAD)
#        tools/mutant_lab.sh run <patch> <ID>...   -> DETECTED / MISSED / MACHINERY lines
set -u
LAB=${MLAB_DIR:-/tmp/mlab}
WT=${MLAB_WT:-/tmp/wt/lab}
cmd=$1; shift
case $cmd in
 init)
  mkdir -p $LAB
  [ -d $WT ] || git -C /repo worktree add -q --detach $WT HEAD
  git -C $WT checkout -q --detach main && git -C $WT reset -q --hard main; git -C $WT clean -fdq
  rsync -a --delete /verif/harness/ $LAB/harness/ --exclude target
  rsync -a /verif/vendor $LAB/ ; rsync -a /verif/witnesses $LAB/ ; cp /verif/known_findings.txt $LAB/
  sed -i "s#path = \"/repo\"#path = \"$WT\"#" $LAB/harness/checks/Cargo.toml $LAB/harness/loomcheck/Cargo.toml
  sed -i "s#/verif/.build/default#$LAB/build/default#" $LAB/harness/.cargo/config.toml
  ;;
 run)
  P=$(realpath "$1"); shift
  git -C $WT reset -q --hard main; git -C $WT clean -fdq
  if ! git -C $WT apply "$P" 2>/tmp/mlab.err; then echo "PATCH-DOES-NOT-APPLY $P: $(head -2 /tmp/mlab.err)"; exit 2; fi
  export VERIF_ROOT=$LAB VERIF_REPO=$WT VERIF_BUILD=$LAB/build CARGO_NET_OFFLINE=true
  cd $LAB/harness || exit 2
  need_fast=0; for id in "$@"; do [ "$id" = C19 ] && need_fast=1; done
  if ! cargo build --release --offline --target-dir $LAB/build/default -p checks -p loomcheck >$LAB/build.log 2>&1; then echo "BUILD-FAILS $(grep -m1 '^error' $LAB/build.log)"; git -C $WT reset -q --hard main; git -C $WT clean -fdq; exit 2; fi
  if [ $need_fast = 1 ]; then cargo build --release --offline --target-dir $LAB/build/fast -p checks --features fast-math >$LAB/build-fast.log 2>&1 || { echo "FAST-BUILD-FAILS"; git -C $WT reset -q --hard main; git -C $WT clean -fdq; exit 2; }; fi
  for id in "$@"; do
    out=$($LAB/build/default/release/vpcheck check "$id" "${VERIF_TIER:-quick}" 2>&1); rc=$?
    case $rc in
      1) echo "DETECTED $id: $(printf '%s\n' "$out" | grep -m1 'signature:' | sed 's/^ *//')" ;;
      0) echo "MISSED   $id" ;;
      *) echo "MACHINERY $id rc=$rc: $(printf '%s\n' "$out" | grep -m1 -E 'MACHINERY|error' | cut -c1-300)" ;;
    esac
  done
  git -C $WT reset -q --hard main; git -C $WT clean -fdq
  ;;
esac
