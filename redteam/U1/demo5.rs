//! Demo for change 5 (property C03: the server public key `B` is not the reduced value).
//!
//! Uses the scripted RNG of `wow_srp::verif_hooks` (feature `verif-hooks`) so that the library draws
//! a chosen registration salt, server private key and client private key.
//!
//! The server private key was found by a search over about 2^32 candidates: the reduced server
//! public key `B = (k*v + g^b) mod N` is smaller than `((N >> 224) + 1) * 2^224 - N` (about 0.46 * 2^224),
//! so that `B + N` still has the same most significant 32 bit limb as `N`.
//! Every value that leaves the API has to be the one an independent implementation computes.
#![cfg(feature = "verif-hooks")]

use wow_srp::client::SrpClientChallenge;
use wow_srp::normalized_string::NormalizedString;
use wow_srp::server::SrpVerifier;
use wow_srp::verif_hooks;
use wow_srp::{PublicKey, GENERATOR, LARGE_SAFE_PRIME_LITTLE_ENDIAN};

const USERNAME: &str = "Jaina";
const PASSWORD: &str = "Theramore#1";

/// Registration salt (first 32 bytes drawn from the RNG).
const SALT: [u8; 32] = [
    0x11, 0x2e, 0x4b, 0x68, 0x85, 0xa2, 0xbf, 0xdc, 0xf9, 0x16, 0x33, 0x50, 0x6d, 0x8a, 0xa7, 0xc4,
    0xe1, 0xfe, 0x1b, 0x38, 0x55, 0x72, 0x8f, 0xac, 0xc9, 0xe6, 0x03, 0x20, 0x3d, 0x5a, 0x77, 0x94,
];
/// Server private key `b` (next 32 bytes).
const SERVER_PRIVATE_KEY: [u8; 32] = [
    0x5a, 0x41, 0x7a, 0xbe, 0x55, 0xb9, 0x48, 0xfd, 0xe7, 0x75, 0x73, 0x41, 0xa3, 0x62, 0x51, 0xde,
    0x13, 0x9a, 0xc1, 0xda, 0x14, 0xa4, 0xba, 0x09, 0x09, 0x80, 0x12, 0x01, 0xa3, 0x11, 0x7d, 0x61,
];
/// Client private key `a` (next 32 bytes).
const CLIENT_PRIVATE_KEY: [u8; 32] = [
    0x07, 0x18, 0x29, 0x3a, 0x4b, 0x5c, 0x6d, 0x7e, 0x8f, 0xa0, 0xb1, 0xc2, 0xd3, 0xe4, 0xf5, 0x06,
    0x17, 0x28, 0x39, 0x4a, 0x5b, 0x6c, 0x7d, 0x8e, 0x9f, 0xb0, 0xc1, 0xd2, 0xe3, 0xf4, 0x05, 0x16,
];

// Expected values computed with an independent implementation (python, hashlib + pow).
const EXPECTED_VERIFIER: [u8; 32] = [
    0xe7, 0x6b, 0x0e, 0x39, 0xe1, 0x65, 0x08, 0x74, 0x94, 0x87, 0xb5, 0x1e, 0x44, 0x82, 0xc8, 0x0a,
    0x6e, 0x4e, 0x03, 0x3a, 0x39, 0x93, 0x15, 0x15, 0xff, 0x93, 0x98, 0x21, 0xf6, 0xc1, 0x4d, 0x6b,
];
const EXPECTED_SERVER_PUBLIC_KEY: [u8; 32] = [
    0x6e, 0x8e, 0xf5, 0x7a, 0x21, 0xc6, 0x88, 0xea, 0xa8, 0xcb, 0x58, 0x16, 0xee, 0xd0, 0x8c, 0x37,
    0xe4, 0xfa, 0x02, 0xf1, 0x86, 0xe9, 0x7a, 0xf9, 0xc7, 0x47, 0xbc, 0x5a, 0x00, 0x00, 0x00, 0x00,
];
const EXPECTED_CLIENT_PUBLIC_KEY: [u8; 32] = [
    0xbd, 0x12, 0xe7, 0x62, 0xc5, 0xb5, 0x39, 0x85, 0xa6, 0xd1, 0x40, 0xda, 0xf1, 0xfa, 0xed, 0x34,
    0x56, 0x58, 0x10, 0x55, 0x17, 0x0d, 0xea, 0x03, 0xb7, 0x8e, 0xb5, 0xf7, 0xa0, 0x19, 0x06, 0x02,
];
const EXPECTED_CLIENT_PROOF: [u8; 20] = [
    0x8a, 0x50, 0x78, 0x63, 0x24, 0xcf, 0xda, 0xbf, 0x39, 0x49, 0x4e, 0x11, 0x49, 0x24, 0xaf, 0x09,
    0x20, 0x66, 0x82, 0x63,
];
const EXPECTED_SERVER_PROOF: [u8; 20] = [
    0x72, 0x11, 0x28, 0x3b, 0xf1, 0x1d, 0x47, 0x9d, 0xe6, 0x8e, 0xa6, 0xa5, 0x58, 0x05, 0x23, 0xe5,
    0xb3, 0xca, 0xd6, 0xf0,
];
const EXPECTED_SESSION_KEY: [u8; 40] = [
    0x71, 0x03, 0x5c, 0xb4, 0x1d, 0x97, 0xac, 0x20, 0xcf, 0xd9, 0x79, 0x96, 0x4c, 0x8b, 0x39, 0xae,
    0x65, 0xe6, 0x78, 0x3d, 0x8c, 0x44, 0x56, 0x50, 0x2e, 0x74, 0x96, 0x0f, 0x93, 0xc7, 0xa7, 0xd3,
    0x98, 0xe9, 0xc5, 0x41, 0xd2, 0x01, 0xe3, 0x4c,
];

#[test]
fn server_public_key_is_fully_reduced() {
    let mut script = Vec::new();
    script.extend_from_slice(&SALT);
    script.extend_from_slice(&SERVER_PRIVATE_KEY);
    script.extend_from_slice(&CLIENT_PRIVATE_KEY);
    verif_hooks::install_script(script);

    let username = NormalizedString::new(USERNAME).unwrap();
    let password = NormalizedString::new(PASSWORD).unwrap();

    // Registration, export to "storage" and re-import.
    let registered = SrpVerifier::from_username_and_password(username.clone(), password.clone());
    assert_eq!(registered.salt(), &SALT);
    assert_eq!(
        registered.password_verifier(),
        &EXPECTED_VERIFIER,
        "verifier differs from the reference value"
    );
    let record = (
        registered.username().to_string(),
        *registered.password_verifier(),
        *registered.salt(),
    );
    let verifier = SrpVerifier::from_database_values(
        NormalizedString::new(&record.0).unwrap(),
        record.1,
        record.2,
    );

    // Login.
    let proof = verifier.into_proof();
    assert_eq!(
        proof.server_public_key(),
        &EXPECTED_SERVER_PUBLIC_KEY,
        "server public key differs from the reference value"
    );

    let client = SrpClientChallenge::new(
        username,
        password,
        GENERATOR,
        LARGE_SAFE_PRIME_LITTLE_ENDIAN,
        PublicKey::from_le_bytes(*proof.server_public_key()).unwrap(),
        *proof.salt(),
    );
    assert_eq!(client.client_public_key(), &EXPECTED_CLIENT_PUBLIC_KEY);
    assert_eq!(client.client_proof(), &EXPECTED_CLIENT_PROOF);

    let (server, server_proof) = proof
        .into_server(
            PublicKey::from_le_bytes(*client.client_public_key()).unwrap(),
            *client.client_proof(),
        )
        .expect("the server must accept the honest client");
    assert_eq!(server_proof, EXPECTED_SERVER_PROOF);
    let client = client
        .verify_server_proof(server_proof)
        .expect("the client must accept the honest server");
    verif_hooks::finish();

    assert_eq!(server.session_key(), client.session_key());
    assert_eq!(server.session_key(), &EXPECTED_SESSION_KEY);
}
