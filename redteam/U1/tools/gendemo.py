import sys
from common import *
def arr(bs,ind="    "):
    bs=list(bs); lines=[]
    for i in range(0,len(bs),16):
        lines.append(ind+", ".join("0x%02x"%c for c in bs[i:i+16])+",")
    return "\n".join(lines)
TEMPLATE='''//! Demo for change {n} ({props}).
//!
{doc}
#![cfg(feature = "verif-hooks")]

use wow_srp::client::SrpClientChallenge;
use wow_srp::normalized_string::NormalizedString;
use wow_srp::server::SrpVerifier;
use wow_srp::verif_hooks;
use wow_srp::{{PublicKey, GENERATOR, LARGE_SAFE_PRIME_LITTLE_ENDIAN}};

const USERNAME: &str = "{U}";
const PASSWORD: &str = "{P}";

/// Registration salt (first 32 bytes drawn from the RNG).
const SALT: [u8; 32] = [
{salt}
];
/// Server private key `b` (next 32 bytes).
const SERVER_PRIVATE_KEY: [u8; 32] = [
{b}
];
/// Client private key `a` (next 32 bytes).
const CLIENT_PRIVATE_KEY: [u8; 32] = [
{a}
];

// Expected values computed with an independent implementation (python, hashlib + pow).
const EXPECTED_VERIFIER: [u8; 32] = [
{v}
];
const EXPECTED_SERVER_PUBLIC_KEY: [u8; 32] = [
{B}
];
const EXPECTED_CLIENT_PUBLIC_KEY: [u8; 32] = [
{A}
];
const EXPECTED_CLIENT_PROOF: [u8; 20] = [
{M1}
];
const EXPECTED_SERVER_PROOF: [u8; 20] = [
{M2}
];
const EXPECTED_SESSION_KEY: [u8; 40] = [
{K}
];

#[test]
fn {name}() {{
    let mut script = Vec::new();
    script.extend_from_slice(&SALT);
    script.extend_from_slice(&SERVER_PRIVATE_KEY);
    script.extend_from_slice(&CLIENT_PRIVATE_KEY);
    verif_hooks::install_script(script);

    let username = NormalizedString::new(USERNAME).unwrap();
    let password = NormalizedString::new(PASSWORD).unwrap();

    // Registration, export to "storage" and re-import.
    let registered = SrpVerifier::from_username_and_password(username.clone(), password.clone());
    assert_eq!(registered.salt(), &SALT);
    assert_eq!(
        registered.password_verifier(),
        &EXPECTED_VERIFIER,
        "verifier differs from the reference value"
    );
    let record = (
        registered.username().to_string(),
        *registered.password_verifier(),
        *registered.salt(),
    );
    let verifier = SrpVerifier::from_database_values(
        NormalizedString::new(&record.0).unwrap(),
        record.1,
        record.2,
    );

    // Login.
    let proof = verifier.into_proof();
    assert_eq!(
        proof.server_public_key(),
        &EXPECTED_SERVER_PUBLIC_KEY,
        "server public key differs from the reference value"
    );

    let client = SrpClientChallenge::new(
        username,
        password,
        GENERATOR,
        LARGE_SAFE_PRIME_LITTLE_ENDIAN,
        PublicKey::from_le_bytes(*proof.server_public_key()).unwrap(),
        *proof.salt(),
    );
    assert_eq!(client.client_public_key(), &EXPECTED_CLIENT_PUBLIC_KEY);
    assert_eq!(client.client_proof(), &EXPECTED_CLIENT_PROOF);

    let (server, server_proof) = proof
        .into_server(
            PublicKey::from_le_bytes(*client.client_public_key()).unwrap(),
            *client.client_proof(),
        )
        .expect("the server must accept the honest client");
    assert_eq!(server_proof, EXPECTED_SERVER_PROOF);
    let client = client
        .verify_server_proof(server_proof)
        .expect("the client must accept the honest server");
    verif_hooks::finish();

    assert_eq!(server.session_key(), client.session_key());
    assert_eq!(server.session_key(), &EXPECTED_SESSION_KEY);
}}
'''
def gen(n,props,doc,name,U,P,salt,b,a,out):
    r=login(U,P,salt,b,a)
    assert r['Ss']==r['Sc']
    doc="\n".join("//! "+l if l else "//!" for l in doc.strip().split("\n"))
    s=TEMPLATE.format(n=n,props=props,doc=doc,name=name,U=U,P=P,salt=arr(salt),b=arr(le(b)),a=arr(le(a)),
        v=arr(le(r['v'])),B=arr(le(r['B'])),A=arr(le(r['A'])),M1=arr(r['M1']),M2=arr(r['M2']),K=arr(r['K']))
    open(out,'w').write(s)
    return r
