import sys,os,random,multiprocessing as mp
from common import *
U,P="ALICE","password123"
salt=bytes(range(0x40,0x60))
x=calc_x(U,P,salt); v=pow(g,x,N); kv=(3*v)%N
LIM=1<<224
def work(seed):
    r=random.Random(seed)
    b=r.getrandbits(255)
    t=pow(7,b,N)
    for i in range(400_000_000):
        s=kv+t
        if s>=N: s-=N
        if s<LIM:
            return (b,s)
        t=t*7%N; b+=1
    return None
if __name__=="__main__":
    with mp.Pool(16) as p:
        for r in p.imap_unordered(work,range(1000,1016)):
            if r:
                print("FOUND b=%064x B=%064x"%r,flush=True)
                p.terminate(); break
