import subprocess
from concurrent.futures import ThreadPoolExecutor
from common import *
R=1<<256
U,P="BOB","hunter2"
p=H((U+':'+P).upper().encode())
prefix=bytes.fromhex("5a17c3e09b44d26f81a3fe0c7d52b9e6401f88d3a76cb215")
def run(i):
    start=i*400_000_000
    out=subprocess.run(["./vsearch",prefix.hex(),p.hex(),"%064x"%(7*R%N),"%064x"%(R%N),str(start),"400000000"],capture_output=True,text=True).stdout.split()
    if out and out[0]=="HIT":
        c=int(out[1]); salt=prefix+c.to_bytes(8,'little')
        x=frle(H(salt,p)); v=pow(7,x,N)
        assert v==int(out[2],16)
        print("FOUND salt=%s v=%064x"%(salt.hex(),v),flush=True)
with ThreadPoolExecutor(14) as ex:
    list(ex.map(run,range(14)))
