// Search salts (prefix 24 bytes + 8 byte counter) with v = 7^x mod N < 2^224, x = LE(SHA1(salt | p))
// usage: vsearch <prefix hex 48> <p hex 40> <seven_mont hex64> <one_mont hex64> <start counter> <count>
#include <stdio.h>
#include <stdint.h>
#include <stdlib.h>
#include <string.h>
typedef unsigned __int128 u128;
typedef uint64_t u64; typedef uint32_t u32;
static u64 Nn[4]; static u64 n0inv;
static void parse(const char*h,u64*o){ char buf[17]; buf[16]=0; for(int i=0;i<4;i++){ memcpy(buf,h+48-16*i,16); o[i]=strtoull(buf,0,16);} }
static void montmul(u64*r,const u64*a,const u64*b){
  u64 t[6]={0,0,0,0,0,0};
  for(int i=0;i<4;i++){
    u128 c=0;
    for(int j=0;j<4;j++){ c+=(u128)a[j]*b[i]+t[j]; t[j]=(u64)c; c>>=64; }
    c+=t[4]; t[4]=(u64)c; t[5]=(u64)(c>>64);
    u64 m=t[0]*n0inv;
    c=(u128)m*Nn[0]+t[0]; c>>=64;
    for(int j=1;j<4;j++){ c+=(u128)m*Nn[j]+t[j]; t[j-1]=(u64)c; c>>=64; }
    c+=t[4]; t[3]=(u64)c; t[4]=t[5]+(u64)(c>>64);
  }
  // conditional subtract
  int ge=t[4]!=0;
  if(!ge){ ge=1; for(int i=3;i>=0;i--){ if(t[i]!=Nn[i]){ ge=t[i]>Nn[i]; break; } } }
  if(ge){ u128 br=0; for(int i=0;i<4;i++){ u128 d=(u128)t[i]-Nn[i]-br; t[i]=(u64)d; br=(d>>64)&1; } }
  memcpy(r,t,32);
}
#define ROL(x,n) (((x)<<(n))|((x)>>(32-(n))))
static void sha1_block(const unsigned char*blk,u32*h){
  u32 w[80]; for(int i=0;i<16;i++) w[i]=(u32)blk[4*i]<<24|(u32)blk[4*i+1]<<16|(u32)blk[4*i+2]<<8|blk[4*i+3];
  for(int i=16;i<80;i++) w[i]=ROL(w[i-3]^w[i-8]^w[i-14]^w[i-16],1);
  u32 a=h[0],b=h[1],c=h[2],d=h[3],e=h[4];
  for(int i=0;i<80;i++){ u32 f,k;
    if(i<20){f=(b&c)|(~b&d);k=0x5A827999;} else if(i<40){f=b^c^d;k=0x6ED9EBA1;} else if(i<60){f=(b&c)|(b&d)|(c&d);k=0x8F1BBCDC;} else {f=b^c^d;k=0xCA62C1D6;}
    u32 t=ROL(a,5)+f+e+k+w[i]; e=d; d=c; c=ROL(b,30); b=a; a=t; }
  h[0]+=a;h[1]+=b;h[2]+=c;h[3]+=d;h[4]+=e;
}
static u64 (*T)[65536][4];
int main(int argc,char**argv){
  parse("894B645E89E1535BBDAD5B8B290650530801B18EBFBF5E8FAB3C82872A3E9BB7",Nn);
  u64 inv=1; for(int i=0;i<6;i++) inv*=2-Nn[0]*inv; n0inv=-inv;
  unsigned char blk[64]; memset(blk,0,64);
  for(int i=0;i<24;i++){ unsigned v; sscanf(argv[1]+2*i,"%2x",&v); blk[i]=v; }
  for(int i=0;i<20;i++){ unsigned v; sscanf(argv[2]+2*i,"%2x",&v); blk[32+i]=v; }
  blk[52]=0x80; blk[62]=(52*8)>>8; blk[63]=(52*8)&0xff;
  u64 seven[4],one[4]; parse(argv[3],seven); parse(argv[4],one);
  u64 start=strtoull(argv[5],0,10), count=strtoull(argv[6],0,10);
  T=malloc(sizeof(u64)*10*65536*4);
  u64 base[4]; memcpy(base,seven,32);
  for(int w=0;w<10;w++){
    memcpy(T[w][0],one,32);
    for(int j=1;j<65536;j++) montmul(T[w][j],T[w][j-1],base);
    u64 nb[4]; montmul(nb,T[w][65535],base); memcpy(base,nb,32);
  }
  u64 unit[4]={1,0,0,0}; int shiftbits=argc>7?atoi(argv[7]):32;
  for(u64 c=start;c<start+count;c++){
    for(int i=0;i<8;i++) blk[24+i]=(unsigned char)(c>>(8*i));
    u32 h[5]={0x67452301,0xEFCDAB89,0x98BADCFE,0x10325476,0xC3D2E1F0};
    sha1_block(blk,h);
    unsigned char dg[20]; for(int i=0;i<5;i++){ dg[4*i]=h[i]>>24; dg[4*i+1]=h[i]>>16; dg[4*i+2]=h[i]>>8; dg[4*i+3]=h[i]; }
    // x little endian: window w = dg[2w] | dg[2w+1]<<8
    u64 v[4]; memcpy(v,T[0][dg[0]|dg[1]<<8],32);
    for(int w=1;w<10;w++){ montmul(v,v,T[w][dg[2*w]|dg[2*w+1]<<8]); }
    montmul(v,v,unit);
    if((v[3]>>shiftbits)==0){ printf("HIT %llu %016llx%016llx%016llx%016llx\n",(unsigned long long)c,(unsigned long long)v[3],(unsigned long long)v[2],(unsigned long long)v[1],(unsigned long long)v[0]); fflush(stdout); return 0; }
  }
  printf("NONE\n"); return 0;
}
