import subprocess,random,sys
from concurrent.futures import ThreadPoolExecutor
from common import *
U,P="JAINA","Theramore#1"
salt=bytes((i*29+17)&0xff for i in range(32))
x=calc_x(U,P,salt); v=pow(g,x,N); kv=3*v%N
NT=N>>224
lim=((NT+1)<<224)-N
def run(seed):
    r=random.Random(seed); b0=r.getrandbits(255)
    out=subprocess.run(["./iter7","%064x"%pow(7,b0,N),"%064x"%kv,"%064x"%lim,"1500000000"],capture_output=True,text=True).stdout.split()
    if out and out[0]=="HIT":
        return b0+int(out[1]), int(out[2],16)
with ThreadPoolExecutor(12) as ex:
    for r in ex.map(run,range(5000,5012)):
        if r:
            b,B=r
            assert (3*v+pow(7,b,N))%N==B
            print("FOUND b=%064x B=%064x"%(b,B),flush=True)
