import hashlib
N=int("894B645E89E1535BBDAD5B8B290650530801B18EBFBF5E8FAB3C82872A3E9BB7",16)
g=7;k=3
def H(*a):
    h=hashlib.sha1()
    for x in a: h.update(x)
    return h.digest()
def le(n,l=32): return n.to_bytes(l,'little')
def frle(b): return int.from_bytes(b,'little')
def calc_x(U,P,salt):
    p=H((U.upper()+':'+P.upper()).encode())
    return frle(H(salt,p))
def strip(S):
    s=le(S); i=0
    while i<32 and s[i]==0: i+=1
    if i%2: i+=1
    return s[i:]
def interleave(S):
    s=strip(S)
    G=H(s[0::2]); Hh=H(s[1::2])
    out=bytearray(40)
    out[0::2]=G; out[1::2]=Hh
    return bytes(out)
XOR=bytes(a^b for a,b in zip(H(le(N)),H(bytes([7]))))
def xorhash(Nn,gg): return bytes(a^b for a,b in zip(H(le(Nn)),H(bytes([gg]))))
def login(U,P,salt,b,a,Nn=N,gg=g):
    """full reference handshake, default group on server"""
    x=calc_x(U,P,salt); v=pow(g,x,N)
    B=(k*v+pow(g,b,N))%N
    A=pow(gg,a,Nn)
    u=frle(H(le(A),le(B)))
    Ss=pow(A*pow(v,u,N),b,N)
    Sc=pow(B-k*pow(gg,x,Nn),a+u*x,Nn)
    K=interleave(Ss)
    M1=H(xorhash(Nn,gg),H(U.upper().encode()),salt,le(A),le(B),K)
    M2=H(le(A),M1,K)
    return dict(x=x,v=v,B=B,A=A,u=u,Ss=Ss,Sc=Sc,K=K,M1=M1,M2=M2)
