import sys,random,multiprocessing as mp
from common import *
U,P="THRALL","For the Horde!"
salt=bytes((i*11+5)&0xff for i in range(32))
x=calc_x(U,P,salt); v=pow(g,x,N); kv=3*v
NT=N>>224
def work(seed):
    r=random.Random(seed)
    b=r.getrandbits(255)
    t=pow(7,b,N)
    for i in range(600_000_000):
        s=kv+t
        qh=(s>>224)//NT
        if s-qh*N<0:
            return (b,s%N,qh,s//N)
        t=t*7%N; b+=1
    return None
if __name__=="__main__":
    with mp.Pool(16) as p:
        for r in p.imap_unordered(work,range(3000,3016)):
            if r:
                print("FOUND b=%064x B=%064x qh=%d q=%d"%r,flush=True)
                p.terminate(); break
