// usage: iter7 <t0 hex 64> <kv hex 64 (already mod N)> <limit hex 64> <maxiter>
// iterates t <- 7 t mod N, checks (kv + t) mod N < limit, prints iteration index
#include <stdio.h>
#include <stdint.h>
#include <stdlib.h>
#include <string.h>
typedef unsigned __int128 u128;
typedef struct { uint64_t w[5]; } big;
static const char *NHEX="894B645E89E1535BBDAD5B8B290650530801B18EBFBF5E8FAB3C82872A3E9BB7";
static void parse(const char*h, big*o){ memset(o,0,sizeof*o); char buf[17]; buf[16]=0; for(int i=0;i<4;i++){ memcpy(buf,h+48-16*i,16); o->w[i]=strtoull(buf,0,16);} }
static int ge(const big*a,const big*b){ for(int i=4;i>=0;i--){ if(a->w[i]!=b->w[i]) return a->w[i]>b->w[i]; } return 1; }
static void sub(big*a,const big*b){ u128 br=0; for(int i=0;i<5;i++){ u128 d=(u128)a->w[i]-b->w[i]-br; a->w[i]=(uint64_t)d; br=(d>>64)&1; } }
static void add(big*a,const big*b){ u128 c=0; for(int i=0;i<5;i++){ c+=(u128)a->w[i]+b->w[i]; a->w[i]=(uint64_t)c; c>>=64; } }
static void mulsmall(big*a,uint64_t m){ u128 c=0; for(int i=0;i<5;i++){ c+=(u128)a->w[i]*m; a->w[i]=(uint64_t)c; c>>=64; } }
int main(int argc,char**argv){
  big N,N2,N4,t,kv,lim; parse(NHEX,&N); N2=N; add(&N2,&N); N4=N2; add(&N4,&N2);
  parse(argv[1],&t); parse(argv[2],&kv); parse(argv[3],&lim);
  uint64_t max=strtoull(argv[4],0,10);
  for(uint64_t i=0;i<max;i++){
    big s=t; add(&s,&kv); if(ge(&s,&N)) sub(&s,&N);
    if(!ge(&s,&lim)){ printf("HIT %llu %016llx%016llx%016llx%016llx\n",(unsigned long long)i,(unsigned long long)s.w[3],(unsigned long long)s.w[2],(unsigned long long)s.w[1],(unsigned long long)s.w[0]); fflush(stdout); return 0; }
    mulsmall(&t,7); if(ge(&t,&N4)) sub(&t,&N4); if(ge(&t,&N2)) sub(&t,&N2); if(ge(&t,&N)) sub(&t,&N);
  }
  printf("NONE\n"); return 0;
}
