//! Demo for change 3 (properties C03 and C02).
//!
//! Uses `wow_srp::verif_hooks` (feature `verif-hooks`) only to fix the registration salt so that the
//! verifier can be compared with a value from an independent implementation.
//!
//! Account "guild  bank" / "open  sesame": both strings contain two consecutive blanks and are
//! permitted credentials (printable ASCII, at most 16 bytes).
#![cfg(feature = "verif-hooks")]

use wow_srp::client::SrpClientChallenge;
use wow_srp::normalized_string::NormalizedString;
use wow_srp::server::SrpVerifier;
use wow_srp::verif_hooks;
use wow_srp::{PublicKey, GENERATOR, LARGE_SAFE_PRIME_LITTLE_ENDIAN};

const SALT: [u8; 32] = [
    0x03, 0x0a, 0x11, 0x18, 0x1f, 0x26, 0x2d, 0x34, 0x3b, 0x42, 0x49, 0x50, 0x57, 0x5e, 0x65, 0x6c,
    0x73, 0x7a, 0x81, 0x88, 0x8f, 0x96, 0x9d, 0xa4, 0xab, 0xb2, 0xb9, 0xc0, 0xc7, 0xce, 0xd5, 0xdc,
];
// v = 7^x mod N, x = SHA1(salt | SHA1("GUILD  BANK:OPEN  SESAME")), little endian (python).
const EXPECTED_VERIFIER: [u8; 32] = [
    0xa8, 0xa9, 0xb3, 0xe7, 0xb6, 0xa8, 0xc5, 0xb7, 0x37, 0x8d, 0xdf, 0xa1, 0x1f, 0xc2, 0x0b, 0x9d,
    0x95, 0xc0, 0x46, 0x9c, 0xfb, 0x45, 0xaa, 0x5c, 0x24, 0x14, 0x76, 0xb0, 0x72, 0xd7, 0xe9, 0x24,
];

#[test]
fn credentials_with_two_blanks_are_hashed_as_typed() {
    assert_eq!(
        NormalizedString::new("guild  bank").unwrap().as_ref(),
        "GUILD  BANK"
    );

    verif_hooks::install_script(SALT.to_vec());
    let verifier = SrpVerifier::from_username_and_password(
        NormalizedString::new("guild  bank").unwrap(),
        NormalizedString::new("open  sesame").unwrap(),
    );
    verif_hooks::finish();

    assert_eq!(verifier.username(), "GUILD  BANK");
    assert_eq!(verifier.salt(), &SALT);
    assert_eq!(verifier.password_verifier(), &EXPECTED_VERIFIER);
}

#[test]
fn a_different_password_is_refused() {
    let verifier = SrpVerifier::from_username_and_password(
        NormalizedString::new("guild  bank").unwrap(),
        NormalizedString::new("open  sesame").unwrap(),
    );
    let proof = verifier.into_proof();

    // Same user name, but another password: one blank instead of two.
    let client = SrpClientChallenge::new(
        NormalizedString::new("guild  bank").unwrap(),
        NormalizedString::new("open sesame").unwrap(),
        GENERATOR,
        LARGE_SAFE_PRIME_LITTLE_ENDIAN,
        PublicKey::from_le_bytes(*proof.server_public_key()).unwrap(),
        *proof.salt(),
    );

    let result = proof.into_server(
        PublicKey::from_le_bytes(*client.client_public_key()).unwrap(),
        *client.client_proof(),
    );
    assert!(
        result.is_err(),
        "the server accepted a login with a password that differs from the registered one"
    );
}
