//! Demo for change 1 (property C01; the value at fault is the public key `B` of C03).
//!
//! Uses the scripted RNG of `wow_srp::verif_hooks` (feature `verif-hooks`) so that the library draws
//! a chosen registration salt, server private key and client private key.
//!
//! The server private key was found by a search over about 2^31 candidates: together with the
//! verifier of Alice/password123 under this salt it gives a server public key
//! `B = (k*v + g^b) mod N` that is smaller than 2^224, i.e. its four most significant bytes are zero.
//! An honest login with these values has to work like any other one.
#![cfg(feature = "verif-hooks")]

use wow_srp::client::SrpClientChallenge;
use wow_srp::normalized_string::NormalizedString;
use wow_srp::server::SrpVerifier;
use wow_srp::verif_hooks;
use wow_srp::{PublicKey, GENERATOR, LARGE_SAFE_PRIME_LITTLE_ENDIAN};

const USERNAME: &str = "Alice";
const PASSWORD: &str = "password123";

/// Registration salt (first 32 bytes drawn from the RNG).
const SALT: [u8; 32] = [
    0x40, 0x41, 0x42, 0x43, 0x44, 0x45, 0x46, 0x47, 0x48, 0x49, 0x4a, 0x4b, 0x4c, 0x4d, 0x4e, 0x4f,
    0x50, 0x51, 0x52, 0x53, 0x54, 0x55, 0x56, 0x57, 0x58, 0x59, 0x5a, 0x5b, 0x5c, 0x5d, 0x5e, 0x5f,
];
/// Server private key `b` (next 32 bytes).
const SERVER_PRIVATE_KEY: [u8; 32] = [
    0x82, 0xe2, 0xfa, 0x86, 0xcd, 0x23, 0x59, 0xf6, 0xf9, 0xa0, 0x59, 0xf5, 0x3f, 0x22, 0xf2, 0x71,
    0x6a, 0x9d, 0x1d, 0x57, 0x93, 0x7b, 0xb6, 0x14, 0x52, 0x9c, 0x4b, 0xb5, 0x7d, 0xd3, 0x23, 0x62,
];
/// Client private key `a` (next 32 bytes).
const CLIENT_PRIVATE_KEY: [u8; 32] = [
    0x01, 0x02, 0x03, 0x04, 0x05, 0x06, 0x07, 0x08, 0x09, 0x0a, 0x0b, 0x0c, 0x0d, 0x0e, 0x0f, 0x10,
    0x11, 0x12, 0x13, 0x14, 0x15, 0x16, 0x17, 0x18, 0x19, 0x1a, 0x1b, 0x1c, 0x1d, 0x1e, 0x1f, 0x20,
];

// Expected values computed with an independent implementation (python, hashlib + pow).
const EXPECTED_VERIFIER: [u8; 32] = [
    0xeb, 0xac, 0x55, 0x10, 0x86, 0xf7, 0x46, 0x0a, 0x2a, 0x58, 0xc7, 0xc8, 0x34, 0x8c, 0x5a, 0x9b,
    0x4e, 0x6a, 0x37, 0xe3, 0x6c, 0x90, 0x5c, 0xee, 0x13, 0x4b, 0x4a, 0xe2, 0x7e, 0x76, 0x55, 0x76,
];
const EXPECTED_SERVER_PUBLIC_KEY: [u8; 32] = [
    0x34, 0xdb, 0xf7, 0xaa, 0xaa, 0x89, 0x0c, 0x47, 0x54, 0xe4, 0x2c, 0x3c, 0xc6, 0x7c, 0xf1, 0xa2,
    0x05, 0x97, 0x03, 0xac, 0xac, 0x0c, 0xb3, 0x3c, 0x2a, 0x36, 0xdf, 0x90, 0x00, 0x00, 0x00, 0x00,
];
const EXPECTED_CLIENT_PUBLIC_KEY: [u8; 32] = [
    0xe6, 0xd9, 0x4d, 0x77, 0xf7, 0x78, 0x11, 0xf8, 0x7d, 0x4f, 0x75, 0x1a, 0x85, 0xab, 0xdd, 0xbd,
    0x29, 0x58, 0xed, 0x2f, 0xae, 0xd6, 0x60, 0x4d, 0x5c, 0xce, 0x72, 0x4e, 0xe1, 0x8d, 0xf3, 0x14,
];
const EXPECTED_CLIENT_PROOF: [u8; 20] = [
    0x7b, 0x85, 0x1a, 0x86, 0xea, 0x5d, 0x6e, 0x0b, 0xc9, 0x82, 0x93, 0x63, 0x7f, 0x76, 0xc3, 0xd3,
    0x9d, 0x22, 0xd3, 0xae,
];
const EXPECTED_SERVER_PROOF: [u8; 20] = [
    0x30, 0x9c, 0x13, 0x5a, 0x3f, 0x26, 0xff, 0xaf, 0x3b, 0x0b, 0x54, 0x19, 0x1a, 0x04, 0xc7, 0xf3,
    0x7e, 0xec, 0x61, 0x9d,
];
const EXPECTED_SESSION_KEY: [u8; 40] = [
    0xd9, 0x21, 0x80, 0x0f, 0xaa, 0x70, 0xf1, 0xec, 0x8c, 0xd9, 0x8a, 0x85, 0x8d, 0xf0, 0x09, 0xff,
    0xba, 0xed, 0x69, 0x08, 0x2f, 0x41, 0x70, 0x1b, 0x03, 0x60, 0xf7, 0x72, 0x90, 0xdc, 0x85, 0x7f,
    0x71, 0xbb, 0xe9, 0xc4, 0x6d, 0xb9, 0xf4, 0x61,
];

#[test]
fn honest_login_with_a_server_public_key_below_2_pow_224() {
    let mut script = Vec::new();
    script.extend_from_slice(&SALT);
    script.extend_from_slice(&SERVER_PRIVATE_KEY);
    script.extend_from_slice(&CLIENT_PRIVATE_KEY);
    verif_hooks::install_script(script);

    let username = NormalizedString::new(USERNAME).unwrap();
    let password = NormalizedString::new(PASSWORD).unwrap();

    // Registration, export to "storage" and re-import.
    let registered = SrpVerifier::from_username_and_password(username.clone(), password.clone());
    assert_eq!(registered.salt(), &SALT);
    assert_eq!(
        registered.password_verifier(),
        &EXPECTED_VERIFIER,
        "verifier differs from the reference value"
    );
    let record = (
        registered.username().to_string(),
        *registered.password_verifier(),
        *registered.salt(),
    );
    let verifier = SrpVerifier::from_database_values(
        NormalizedString::new(&record.0).unwrap(),
        record.1,
        record.2,
    );

    // Login.
    let proof = verifier.into_proof();
    assert_eq!(
        proof.server_public_key(),
        &EXPECTED_SERVER_PUBLIC_KEY,
        "server public key differs from the reference value"
    );

    let client = SrpClientChallenge::new(
        username,
        password,
        GENERATOR,
        LARGE_SAFE_PRIME_LITTLE_ENDIAN,
        PublicKey::from_le_bytes(*proof.server_public_key()).unwrap(),
        *proof.salt(),
    );
    assert_eq!(client.client_public_key(), &EXPECTED_CLIENT_PUBLIC_KEY);
    assert_eq!(client.client_proof(), &EXPECTED_CLIENT_PROOF);

    let (server, server_proof) = proof
        .into_server(
            PublicKey::from_le_bytes(*client.client_public_key()).unwrap(),
            *client.client_proof(),
        )
        .expect("the server must accept the honest client");
    assert_eq!(server_proof, EXPECTED_SERVER_PROOF);
    let client = client
        .verify_server_proof(server_proof)
        .expect("the client must accept the honest server");
    verif_hooks::finish();

    assert_eq!(server.session_key(), client.session_key());
    assert_eq!(server.session_key(), &EXPECTED_SESSION_KEY);
}
