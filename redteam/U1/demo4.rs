//! Demo for change 4 (properties C03 and C01).
//!
//! Uses the scripted RNG of `wow_srp::verif_hooks` (feature `verif-hooks`) so that the library draws
//! a chosen registration salt, server private key and client private key.
//!
//! The registration salt was found by a search over about 2^32 candidates: for Bob/hunter2 it gives
//! `x = SHA1(salt | SHA1("BOB:HUNTER2"))` with a verifier `v = g^x mod N` smaller than 2^224, i.e. its
//! four most significant bytes are zero. The stored verifier has to be exactly that value and the
//! honest client has to be able to log in against the stored record.
#![cfg(feature = "verif-hooks")]

use wow_srp::client::SrpClientChallenge;
use wow_srp::normalized_string::NormalizedString;
use wow_srp::server::SrpVerifier;
use wow_srp::verif_hooks;
use wow_srp::{PublicKey, GENERATOR, LARGE_SAFE_PRIME_LITTLE_ENDIAN};

const USERNAME: &str = "Bob";
const PASSWORD: &str = "hunter2";

/// Registration salt (first 32 bytes drawn from the RNG).
const SALT: [u8; 32] = [
    0x5a, 0x17, 0xc3, 0xe0, 0x9b, 0x44, 0xd2, 0x6f, 0x81, 0xa3, 0xfe, 0x0c, 0x7d, 0x52, 0xb9, 0xe6,
    0x40, 0x1f, 0x88, 0xd3, 0xa7, 0x6c, 0xb2, 0x15, 0x95, 0xfb, 0x8f, 0x3f, 0x01, 0x00, 0x00, 0x00,
];
/// Server private key `b` (next 32 bytes).
const SERVER_PRIVATE_KEY: [u8; 32] = [
    0x11, 0x46, 0x7b, 0xb0, 0xe5, 0x1a, 0x4f, 0x84, 0xb9, 0xee, 0x23, 0x58, 0x8d, 0xc2, 0xf7, 0x2c,
    0x61, 0x96, 0xcb, 0x00, 0x35, 0x6a, 0x9f, 0xd4, 0x09, 0x3e, 0x73, 0xa8, 0xdd, 0x12, 0x47, 0x7c,
];
/// Client private key `a` (next 32 bytes).
const CLIENT_PRIVATE_KEY: [u8; 32] = [
    0x23, 0x7c, 0xd5, 0x2e, 0x87, 0xe0, 0x39, 0x92, 0xeb, 0x44, 0x9d, 0xf6, 0x4f, 0xa8, 0x01, 0x5a,
    0xb3, 0x0c, 0x65, 0xbe, 0x17, 0x70, 0xc9, 0x22, 0x7b, 0xd4, 0x2d, 0x86, 0xdf, 0x38, 0x91, 0xea,
];

// Expected values computed with an independent implementation (python, hashlib + pow).
const EXPECTED_VERIFIER: [u8; 32] = [
    0x31, 0xf7, 0x12, 0xa4, 0x0e, 0x7b, 0xf0, 0x88, 0x55, 0x93, 0x13, 0xe4, 0xf0, 0x87, 0xe4, 0x73,
    0x03, 0xba, 0xf6, 0x05, 0xfa, 0x5a, 0xcf, 0xb6, 0x89, 0xc0, 0x97, 0xb6, 0x00, 0x00, 0x00, 0x00,
];
const EXPECTED_SERVER_PUBLIC_KEY: [u8; 32] = [
    0x10, 0xc1, 0x10, 0x70, 0x6b, 0xa1, 0x5d, 0x15, 0x79, 0x53, 0x34, 0x86, 0x1a, 0x8b, 0x7b, 0x3e,
    0xd5, 0xae, 0x87, 0x75, 0x08, 0xe3, 0x06, 0x4b, 0x18, 0xd7, 0x2b, 0xb3, 0xe3, 0x6e, 0x98, 0x12,
];
const EXPECTED_CLIENT_PUBLIC_KEY: [u8; 32] = [
    0x96, 0xf8, 0x6a, 0x77, 0xaf, 0x6d, 0x64, 0x7a, 0xaf, 0xe1, 0x34, 0xe2, 0x5a, 0x37, 0xc9, 0xe7,
    0x1e, 0xa1, 0xf1, 0x94, 0xda, 0x29, 0x89, 0xa6, 0x3b, 0xb3, 0xd8, 0x4f, 0xa7, 0xa3, 0x70, 0x0c,
];
const EXPECTED_CLIENT_PROOF: [u8; 20] = [
    0x7a, 0x35, 0x85, 0xfb, 0x5d, 0xb1, 0xe6, 0xaa, 0x6c, 0x07, 0x04, 0x67, 0xc4, 0x2b, 0x03, 0x1d,
    0xe0, 0x73, 0xb9, 0xaf,
];
const EXPECTED_SERVER_PROOF: [u8; 20] = [
    0x04, 0x50, 0x67, 0x5f, 0x9f, 0xd9, 0x30, 0x80, 0xdb, 0xb0, 0x17, 0x48, 0x0b, 0x26, 0xc0, 0xbc,
    0x1b, 0x05, 0x48, 0xb2,
];
const EXPECTED_SESSION_KEY: [u8; 40] = [
    0x9d, 0x5f, 0xf0, 0x95, 0x44, 0x73, 0x0f, 0x2f, 0xa1, 0x1d, 0xfd, 0x3e, 0xa0, 0xfe, 0x0f, 0x76,
    0x9c, 0x46, 0xab, 0x77, 0xc3, 0x8f, 0xf8, 0xd7, 0xab, 0x00, 0xa1, 0xc6, 0x4f, 0xec, 0xf5, 0xad,
    0xfb, 0xeb, 0x74, 0x17, 0xd6, 0xe5, 0x45, 0x9e,
];

#[test]
fn registration_with_a_verifier_below_2_pow_224() {
    let mut script = Vec::new();
    script.extend_from_slice(&SALT);
    script.extend_from_slice(&SERVER_PRIVATE_KEY);
    script.extend_from_slice(&CLIENT_PRIVATE_KEY);
    verif_hooks::install_script(script);

    let username = NormalizedString::new(USERNAME).unwrap();
    let password = NormalizedString::new(PASSWORD).unwrap();

    // Registration, export to "storage" and re-import.
    let registered = SrpVerifier::from_username_and_password(username.clone(), password.clone());
    assert_eq!(registered.salt(), &SALT);
    assert_eq!(
        registered.password_verifier(),
        &EXPECTED_VERIFIER,
        "verifier differs from the reference value"
    );
    let record = (
        registered.username().to_string(),
        *registered.password_verifier(),
        *registered.salt(),
    );
    let verifier = SrpVerifier::from_database_values(
        NormalizedString::new(&record.0).unwrap(),
        record.1,
        record.2,
    );

    // Login.
    let proof = verifier.into_proof();
    assert_eq!(
        proof.server_public_key(),
        &EXPECTED_SERVER_PUBLIC_KEY,
        "server public key differs from the reference value"
    );

    let client = SrpClientChallenge::new(
        username,
        password,
        GENERATOR,
        LARGE_SAFE_PRIME_LITTLE_ENDIAN,
        PublicKey::from_le_bytes(*proof.server_public_key()).unwrap(),
        *proof.salt(),
    );
    assert_eq!(client.client_public_key(), &EXPECTED_CLIENT_PUBLIC_KEY);
    assert_eq!(client.client_proof(), &EXPECTED_CLIENT_PROOF);

    let (server, server_proof) = proof
        .into_server(
            PublicKey::from_le_bytes(*client.client_public_key()).unwrap(),
            *client.client_proof(),
        )
        .expect("the server must accept the honest client");
    assert_eq!(server_proof, EXPECTED_SERVER_PROOF);
    let client = client
        .verify_server_proof(server_proof)
        .expect("the client must accept the honest server");
    verif_hooks::finish();

    assert_eq!(server.session_key(), client.session_key());
    assert_eq!(server.session_key(), &EXPECTED_SESSION_KEY);
}
