// Demo for change 1 (property C07): Vanilla encrypter, one call of 42..=64 bytes that starts
// late enough in the 40-byte key to run past its end twice.
use wow_srp::normalized_string::NormalizedString;
use wow_srp::vanilla_header::{HeaderCrypto, ProofSeed};

const KEY: [u8; 40] = [
    0x2e, 0xa3, 0x0b, 0x51, 0xc8, 0x1f, 0x66, 0x94, 0xd0, 0x3b, 0x7a, 0xee, 0x05, 0x49, 0xb2, 0x6d,
    0x18, 0xf7, 0x83, 0x2c, 0x9a, 0x41, 0xde, 0x70, 0x0c, 0xb9, 0x57, 0xe4, 0x33, 0x8d, 0x12, 0xc6,
    0x6b, 0xfa, 0x25, 0x90, 0x4e, 0xd7, 0x09, 0xa8,
];

fn pair() -> (HeaderCrypto, HeaderCrypto) {
    let user = NormalizedString::new("A").unwrap();
    let client_seed = ProofSeed::new();
    let client_seed_value = client_seed.seed();
    let server_seed = ProofSeed::new();
    let (proof, client) = client_seed.into_client_header_crypto(&user, KEY, server_seed.seed());
    let server = server_seed
        .into_server_header_crypto(&user, KEY, proof, client_seed_value)
        .unwrap();
    (client, server)
}

// c_n = (x_n ^ key[n mod 40]) + c_(n-1), c_(-1) = 0
fn reference(plain: &[u8]) -> Vec<u8> {
    let mut prev = 0_u8;
    plain
        .iter()
        .enumerate()
        .map(|(n, x)| {
            prev = (x ^ KEY[n % 40]).wrapping_add(prev);
            prev
        })
        .collect()
}

#[test]
fn vanilla_48_byte_call_after_six_client_headers() {
    let plain: Vec<u8> = (0..36 + 48 + 6).map(|i| (i * 37 + 11) as u8).collect();
    let expected = reference(&plain);

    let (mut client, mut server) = pair();
    let mut wire = plain.clone();
    // six 6-byte headers bring the key position to 36 ...
    for header in wire[..36].chunks_mut(6) {
        client.encrypt(header);
    }
    // ... then one 48-byte call (36 + 48 = 84 > 80), then one more header
    client.encrypt(&mut wire[36..84]);
    client.encrypt(&mut wire[84..]);

    assert_eq!(wire, expected, "ciphertext differs from the recurrence");

    // and byte-wise processing must agree with the chunked one / decrypt must invert
    let mut back = wire.clone();
    server.decrypt(&mut back);
    assert_eq!(back, plain, "receiver did not recover the sender's bytes");
}
