// Demo for change 2 (property C09): Wrath, one raw encrypt/decrypt call longer than 1024 bytes.
use hmac::{Hmac, Mac};
use sha1::Sha1;
use wow_srp::normalized_string::NormalizedString;
use wow_srp::wrath_header::{ClientCrypto, ProofSeed, ServerCrypto};

const KEY: [u8; 40] = [
    0x91, 0x0c, 0x5e, 0xd3, 0x27, 0xb8, 0x4a, 0xf1, 0x66, 0x1d, 0x83, 0xce, 0x35, 0x70, 0xa9, 0x02,
    0xdb, 0x48, 0x9f, 0x14, 0xe7, 0x3a, 0x61, 0xbc, 0x05, 0xf8, 0x2d, 0x96, 0x53, 0xc0, 0x7e, 0x19,
    0xa4, 0x6f, 0x0b, 0xd2, 0x38, 0x8d, 0xe5, 0x40,
];
// server -> client constant
const R: [u8; 16] = [
    0xCC, 0x98, 0xAE, 0x04, 0xE8, 0x97, 0xEA, 0xCA, 0x12, 0xDD, 0xC0, 0x93, 0x42, 0x91, 0x53, 0x57,
];
// client -> server constant
const S: [u8; 16] = [
    0xC2, 0xB3, 0x72, 0x3C, 0xC6, 0xAE, 0xD9, 0xB5, 0x34, 0x3C, 0x53, 0xEE, 0x2F, 0x43, 0x67, 0xCE,
];

fn pair() -> (ClientCrypto, ServerCrypto) {
    let user = NormalizedString::new("A").unwrap();
    let client_seed = ProofSeed::new();
    let client_seed_value = client_seed.seed();
    let server_seed = ProofSeed::new();
    let (proof, client) = client_seed.into_client_header_crypto(&user, KEY, server_seed.seed());
    let server = server_seed
        .into_server_header_crypto(&user, KEY, proof, client_seed_value)
        .unwrap();
    (client, server)
}

// Independent RC4-drop1024 keystream under HMAC-SHA1(constant, session key)
fn keystream(constant: &[u8; 16], n: usize) -> Vec<u8> {
    let mut mac = Hmac::<Sha1>::new_from_slice(constant).unwrap();
    mac.update(&KEY);
    let k = mac.finalize().into_bytes();
    let mut s: Vec<u8> = (0..=255).collect();
    let mut j = 0_usize;
    for i in 0..256 {
        j = (j + s[i] as usize + k[i % k.len()] as usize) & 0xff;
        s.swap(i, j);
    }
    let (mut i, mut j) = (0_usize, 0_usize);
    let mut out = Vec::with_capacity(n);
    for t in 0..1024 + n {
        i = (i + 1) & 0xff;
        j = (j + s[i] as usize) & 0xff;
        s.swap(i, j);
        let v = s[(s[i] as usize + s[j] as usize) & 0xff];
        if t >= 1024 {
            out.push(v);
        }
    }
    out
}

#[test]
fn wrath_server_to_client_1500_byte_call() {
    let plain: Vec<u8> = (0..1500 + 4).map(|i| (i * 29 + 3) as u8).collect();
    let ks = keystream(&R, plain.len());
    let expected: Vec<u8> = plain.iter().zip(&ks).map(|(p, k)| p ^ k).collect();

    let (mut client, mut server) = pair();
    let mut wire = plain.clone();
    server.encrypt(&mut wire[..1500]); // one call > 1024
    server.encrypt(&mut wire[1500..]); // next header
    assert_eq!(wire, expected, "server->client bytes differ from RC4-drop1024");

    // the receiver works through the same bytes in small pieces
    let mut back = wire.clone();
    for piece in back.chunks_mut(6) {
        client.decrypt(piece);
    }
    assert_eq!(back, plain, "client did not recover the server's bytes");
}

#[test]
fn wrath_client_to_server_2048_byte_decrypt_call() {
    let plain: Vec<u8> = (0..2048 + 6).map(|i| (i * 13 + 101) as u8).collect();
    let ks = keystream(&S, plain.len());

    let (mut client, mut server) = pair();
    let mut wire = plain.clone();
    for piece in wire.chunks_mut(255) {
        client.encrypt(piece);
    }
    let expected: Vec<u8> = plain.iter().zip(&ks).map(|(p, k)| p ^ k).collect();
    assert_eq!(wire, expected);

    let mut back = wire.clone();
    server.decrypt(&mut back[..2048]); // one call > 1024
    server.decrypt(&mut back[2048..]);
    assert_eq!(back, plain, "server did not recover the client's bytes");
}
