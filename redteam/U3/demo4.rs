// Demo for change 4 (property C08): TBC encrypter, ONE call of 4 GiB + 7 bytes, then a header.
// Needs ~4.1 GiB of memory and, in an unoptimised test build, a minute or two.
use hmac::{Hmac, Mac};
use sha1::Sha1;
use wow_srp::normalized_string::NormalizedString;
use wow_srp::tbc_header::{HeaderCrypto, ProofSeed};

const KEY: [u8; 40] = [
    0x7c, 0x31, 0xe0, 0x5b, 0x96, 0x0d, 0xc8, 0x43, 0xfa, 0x2f, 0x64, 0xb1, 0x1a, 0x87, 0xdc, 0x59,
    0x06, 0xbd, 0x72, 0xe5, 0x3e, 0xa9, 0x10, 0x8b, 0xf4, 0x4f, 0xc6, 0x23, 0x9a, 0x6d, 0xd1, 0x38,
    0x85, 0x0a, 0xef, 0x54, 0xb3, 0x1c, 0x67, 0xc2,
];
const TBC_SEED: [u8; 16] = [
    0x38, 0xA7, 0x83, 0x15, 0xF8, 0x92, 0x25, 0x30, 0x71, 0x98, 0x67, 0xB1, 0x8C, 0x04, 0xE2, 0xAA,
];

fn pair() -> (HeaderCrypto, HeaderCrypto) {
    let user = NormalizedString::new("A").unwrap();
    let client_seed = ProofSeed::new();
    let client_seed_value = client_seed.seed();
    let server_seed = ProofSeed::new();
    let (proof, client) = client_seed.into_client_header_crypto(&user, KEY, server_seed.seed());
    let server = server_seed
        .into_server_header_crypto(&user, KEY, proof, client_seed_value)
        .unwrap();
    (client, server)
}

#[test]
fn tbc_header_after_a_single_call_longer_than_4_gib() {
    let mut mac = Hmac::<Sha1>::new_from_slice(&TBC_SEED).unwrap();
    mac.update(&KEY);
    let key = mac.finalize().into_bytes();

    const LEN: usize = (1 << 32) + 7;
    let (mut client, _server) = pair();

    let mut big = vec![0_u8; LEN];
    client.encrypt(&mut big);

    // spot check of the beginning against the definition
    let mut prev = 0_u8;
    for n in 0..1000 {
        prev = (0 ^ key[n % 20]).wrapping_add(prev);
        assert_eq!(big[n], prev);
    }

    // the next header continues at stream position LEN with the last ciphertext byte
    let mut prev = big[LEN - 1];
    drop(big);
    let plain = [0x00_u8, 0x0c, 0xdc, 0x01, 0x00, 0x00];
    let mut expected = [0_u8; 6];
    for (n, x) in plain.iter().enumerate() {
        prev = (x ^ key[(LEN + n) % 20]).wrapping_add(prev);
        expected[n] = prev;
    }

    let got = client.encrypt_client_header(0x000c, 0x01dc);
    assert_eq!(got, expected, "header after the long call is not at key position LEN mod 20");
}
