// Demo for change 3 (property C11): TBC read wrappers and a reader that reports
// `Interrupted` several times in a row before it delivers.
use std::io::{Error, ErrorKind, Read};
use wow_srp::normalized_string::NormalizedString;
use wow_srp::tbc_header::{HeaderCrypto, ProofSeed};

const KEY: [u8; 40] = [
    0x4d, 0x12, 0xe9, 0x70, 0x3b, 0xa6, 0x05, 0xcf, 0x88, 0x21, 0x5a, 0xf3, 0x6c, 0x97, 0x1e, 0xb0,
    0x43, 0xd8, 0x0f, 0x74, 0xa1, 0x36, 0xeb, 0x59, 0xc2, 0x0d, 0x7f, 0x94, 0x28, 0xbd, 0x61, 0xf6,
    0x13, 0x8a, 0xd5, 0x4e, 0x09, 0xb7, 0x62, 0xec,
];

fn pair() -> (HeaderCrypto, HeaderCrypto) {
    let user = NormalizedString::new("A").unwrap();
    let client_seed = ProofSeed::new();
    let client_seed_value = client_seed.seed();
    let server_seed = ProofSeed::new();
    let (proof, client) = client_seed.into_client_header_crypto(&user, KEY, server_seed.seed());
    let server = server_seed
        .into_server_header_crypto(&user, KEY, proof, client_seed_value)
        .unwrap();
    (client, server)
}

/// Delivers `data` one byte per call; before every byte it answers `Interrupted`
/// `interrupts` times (a socket with a signal-happy runtime).
struct Interrupting<'a> {
    data: &'a [u8],
    interrupts: usize,
    pending: usize,
}

impl<'a> Interrupting<'a> {
    fn new(data: &'a [u8], interrupts: usize) -> Self {
        Self { data, interrupts, pending: interrupts }
    }
}

impl Read for Interrupting<'_> {
    fn read(&mut self, buf: &mut [u8]) -> std::io::Result<usize> {
        if self.pending > 0 {
            self.pending -= 1;
            return Err(Error::new(ErrorKind::Interrupted, "EINTR"));
        }
        self.pending = self.interrupts;
        if self.data.is_empty() || buf.is_empty() {
            return Ok(0);
        }
        buf[0] = self.data[0];
        self.data = &self.data[1..];
        Ok(1)
    }
}

#[test]
fn tbc_server_header_through_a_reader_interrupted_four_times_per_byte() {
    let (mut client, mut server) = pair();
    let mut reference = client.clone();

    let wire = server.encrypt_server_header(0x1234, 0x01ee);
    let expected = reference.decrypt_server_header(wire);

    let got = client
        .read_and_decrypt_server_header(Interrupting::new(&wire, 4))
        .expect("interruptions must not turn into an error");
    assert_eq!(got, expected);
    assert_eq!(client, reference, "decrypter state differs from the raw operation");
}

#[test]
fn tbc_client_header_through_a_reader_interrupted_four_times_per_byte() {
    let (mut client, mut server) = pair();
    let mut reference = server.clone();

    let wire = client.encrypt_client_header(0x0b0c, 0x0000_0437);
    let expected = reference.decrypt_client_header(wire);

    let mut halves = server.split();
    let got = halves
        .1
        .read_and_decrypt_client_header(Interrupting::new(&wire, 4))
        .expect("interruptions must not turn into an error");
    assert_eq!(got, expected);
    assert_eq!(halves.1, reference.split().1);
}
