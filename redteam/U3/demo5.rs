// Demo for change 5 (properties C12 / C10): Wrath client, clone taken between
// `attempt_decrypt_server_header` and `decrypt_large_server_header`.
use wow_srp::normalized_string::NormalizedString;
use wow_srp::wrath_header::{ClientCrypto, ProofSeed, ServerCrypto, WrathServerAttempt};

const KEY: [u8; 40] = [
    0xb5, 0x2a, 0x9f, 0x04, 0x71, 0xe6, 0x5b, 0xc0, 0x3d, 0xa2, 0x17, 0x8c, 0xf9, 0x6e, 0xd3, 0x48,
    0x0b, 0x90, 0x25, 0xba, 0x4f, 0xc4, 0x39, 0xae, 0x13, 0x88, 0xfd, 0x62, 0xd7, 0x4c, 0xb1, 0x26,
    0x9b, 0x00, 0x75, 0xea, 0x5f, 0xc9, 0x3e, 0xa3,
];

fn pair() -> (ClientCrypto, ServerCrypto) {
    let user = NormalizedString::new("A").unwrap();
    let client_seed = ProofSeed::new();
    let client_seed_value = client_seed.seed();
    let server_seed = ProofSeed::new();
    let (proof, client) = client_seed.into_client_header_crypto(&user, KEY, server_seed.seed());
    let server = server_seed
        .into_server_header_crypto(&user, KEY, proof, client_seed_value)
        .unwrap();
    (client, server)
}

#[test]
fn wrath_clone_between_the_two_steps_of_a_large_header() {
    let (mut client, mut server) = pair();

    // some traffic first, short and long mixed
    for (size, opcode) in [(8_u32, 0x01ee_u16), (0x8008, 0x00f6), (13, 0x0003)] {
        let wire = server.encrypt_server_header(size, opcode).to_vec();
        let h = client.read_and_decrypt_server_header(&wire[..]).unwrap();
        assert_eq!((h.size, h.opcode), (size, opcode));
    }

    let wire = server.encrypt_server_header(0x01_2345, 0x0145).to_vec();
    assert_eq!(wire.len(), 5);

    match client.attempt_decrypt_server_header([wire[0], wire[1], wire[2], wire[3]]) {
        WrathServerAttempt::AdditionalByteRequired => {}
        WrathServerAttempt::Header(h) => panic!("expected a large header, got {:?}", h),
    }

    // the object is cloned while the fifth byte is still outstanding
    // (e.g. a snapshot handed to the task that owns the socket from now on)
    let mut snapshot = client.clone();
    let mut snapshot_half = client.clone().split().1;

    let original = client.decrypt_large_server_header(wire[4]);
    assert_eq!((original.size, original.opcode), (0x01_2345, 0x0145));

    let from_clone = snapshot.decrypt_large_server_header(wire[4]);
    assert_eq!(
        (from_clone.size, from_clone.opcode),
        (0x01_2345, 0x0145),
        "clone of the combined object lost the first four header bytes"
    );
    let from_half = snapshot_half.decrypt_large_server_header(wire[4]);
    assert_eq!(
        (from_half.size, from_half.opcode),
        (0x01_2345, 0x0145),
        "clone of the split half lost the first four header bytes"
    );

    // and both keep decoding in step afterwards
    let wire = server.encrypt_server_header(0x7fff, 0xbeef).to_vec();
    let a = client.read_and_decrypt_server_header(&wire[..]).unwrap();
    let b = snapshot.read_and_decrypt_server_header(&wire[..]).unwrap();
    assert_eq!(a, b);
    assert_eq!((a.size, a.opcode), (0x7fff, 0xbeef));
}
