// Demo for change 4 (property C19: both big-integer back ends give identical results).
//
// Run with (the defect only exists in the GMP back end):
//   cargo test --offline --features srp-fast-math,verif-hooks --test demo4
// It also passes, changed or not, with the default back end:
//   cargo test --offline --features verif-hooks --test demo4
//
// Uses the public client API plus `wow_srp::verif_hooks` (`install_script` / `finish`) to fix the
// client's private key. The server announces the usual modulus with generator 2 and the scripted
// private key is a = 64, so the client's public key is A = 2^64 mod N = 2^64: a perfectly valid,
// non-zero key whose lowest 64-bit limb happens to be zero. The expected values below were
// computed independently with python3 (pow / hashlib) and are what the num-bigint build returns.
use std::convert::TryInto;
use wow_srp::client::SrpClientChallenge;
use wow_srp::normalized_string::NormalizedString;
use wow_srp::verif_hooks;
use wow_srp::{PublicKey, LARGE_SAFE_PRIME_LITTLE_ENDIAN};

const EXPECTED_A: [u8; 32] = [
    0, 0, 0, 0, 0, 0, 0, 0, 1, 0, 0, 0, 0, 0, 0, 0, 0, 0, 0, 0, 0, 0, 0, 0, 0, 0, 0, 0, 0, 0, 0, 0,
];
const EXPECTED_M1: [u8; 20] = [
    159, 61, 82, 198, 190, 11, 30, 228, 233, 97, 200, 246, 47, 248, 38, 168, 245, 138, 39, 95,
];

fn login(private_key: [u8; 32], generator: u8) -> Result<([u8; 32], [u8; 20]), String> {
    let salt: Vec<u8> = (0..32_usize).map(|i| ((i * 11 + 5) & 0xff) as u8).collect();
    let b: Vec<u8> = (0..32_usize).map(|i| ((i * 13 + 7) & 0xff) as u8).collect();
    let salt: [u8; 32] = salt.try_into().unwrap();
    let b: [u8; 32] = b.try_into().unwrap();

    let r = std::panic::catch_unwind(move || {
        verif_hooks::install_script(private_key.to_vec());
        let c = SrpClientChallenge::new(
            NormalizedString::new("alice").unwrap(),
            NormalizedString::new("password123").unwrap(),
            generator,
            LARGE_SAFE_PRIME_LITTLE_ENDIAN,
            PublicKey::from_le_bytes(b).unwrap(),
            salt,
        );
        let (used, _log) = verif_hooks::finish();
        assert_eq!(used, 32, "exactly the 32 scripted bytes are drawn");
        (*c.client_public_key(), *c.client_proof())
    });
    let _ = verif_hooks::finish();
    r.map_err(|e| {
        e.downcast_ref::<String>()
            .cloned()
            .or_else(|| e.downcast_ref::<&str>().map(|s| s.to_string()))
            .unwrap_or_default()
    })
}

#[test]
fn public_key_with_a_zero_low_limb_is_a_valid_key() {
    let mut a = [0_u8; 32];
    a[0] = 64;

    let got = login(a, 2);
    println!("g = 2, a = 64 -> {:?}", got);
    assert_eq!(
        got,
        Ok((EXPECTED_A, EXPECTED_M1)),
        "the login with A = 2^64 must give the values of the reference (and of the other back end)"
    );
}

#[test]
fn other_keys_are_unaffected() {
    // a = 63: A = 2^63, low limb non-zero; only checks that this login works at all
    let mut a = [0_u8; 32];
    a[0] = 63;
    let (pk, _) = login(a, 2).expect("login with A = 2^63");
    let mut expected = [0_u8; 32];
    expected[7] = 0x80;
    assert_eq!(pk, expected);
}
