// Demo for change 5 (property C15: every card digit is freshly random; a card of n digits carries
// n digits worth of randomness and two cards only coincide by chance).
//
// Run with:  cargo test --offline --features matrix-card,verif-hooks --test demo5
//
// Uses `wow_srp::matrix_card` and the scripted generator of `wow_srp::verif_hooks`
// (`install_script` / `finish`). Two scripts share their first 8 bytes and differ in every later
// byte. A library that rolls each digit from the generator must produce two different cards
// (2040 digits, all rolled from different bytes); a library that only takes one 64-bit seed from
// the generator and expands it produces the same card twice, i.e. the whole card has at most 64 bits
// of entropy however many digits it has.
use wow_srp::matrix_card::MatrixCard;
use wow_srp::verif_hooks;

const HEAD: [u8; 8] = [0x3c, 0xa1, 0x5e, 0x07, 0xd2, 0x99, 0x40, 0xeb];

fn card_from(tail_mul: usize, tail_add: usize) -> (Vec<u8>, usize) {
    let mut script = HEAD.to_vec();
    script.extend((0..40_000_usize).map(|i| ((i * tail_mul + tail_add) % 256) as u8));
    verif_hooks::install_script(script);
    let card = MatrixCard::new(8, 15, 17);
    let (consumed, _log) = verif_hooks::finish();
    (card.data().to_vec(), consumed)
}

#[test]
fn later_random_bytes_influence_the_card() {
    let (a, consumed_a) = card_from(37, 1);
    let (b, consumed_b) = card_from(91, 13);

    assert_eq!(a.len(), 8 * 15 * 17);
    assert!(a.iter().chain(b.iter()).all(|d| *d <= 9));

    let differing = a.iter().zip(b.iter()).filter(|(x, y)| x != y).count();
    println!(
        "digits: {}, differing between the two cards: {}, generator bytes consumed: {} / {}",
        a.len(),
        differing,
        consumed_a,
        consumed_b
    );

    assert_ne!(
        a, b,
        "two generator streams that differ in every byte after the 8th produced the same 2040-digit card"
    );
    // a card of 2040 decimal digits cannot be fresh if fewer than 2040*log2(10)/8 = 847 bytes were drawn
    assert!(
        consumed_a >= 847,
        "only {} random bytes were drawn for a card of {} digits",
        consumed_a,
        a.len()
    );
}
