// Demo for change 2 (property C17: the integrity hash depends only on the concatenated file
// bytes, the salt and the key; splitting the bytes differently gives the same result and
// changing any byte changes it).
//
// Run with:  cargo test --offline --test demo2
//
// Public API only. The input is one deterministic 5,000,000 byte "executable"
// (byte i = (i*7+3) % 251), i.e. the size of a real WoW.exe and well above anything between
// 64 KiB and 4 MiB. The expected value was computed independently with python3:
//   c = hmac.new(salt, buf, hashlib.sha1).digest(); hashlib.sha1(key + c).digest()
use wow_srp::integrity::{
    login_integrity_check_generic, login_integrity_check_mac, login_integrity_check_windows,
};

const N: usize = 5_000_000;

const SALT: [u8; 16] = [
    0xa0, 0xa1, 0xa2, 0xa3, 0xa4, 0xa5, 0xa6, 0xa7, 0xa8, 0xa9, 0xaa, 0xab, 0xac, 0xad, 0xae, 0xaf,
];

// python3 reference for the full 5,000,000 bytes
const EXPECTED: [u8; 20] = [
    92, 75, 191, 79, 172, 147, 26, 15, 146, 139, 45, 142, 138, 55, 162, 99, 29, 103, 82, 179,
];

fn key() -> [u8; 32] {
    let mut k = [0_u8; 32];
    for (i, b) in k.iter_mut().enumerate() {
        *b = ((i * 5 + 1) & 0xff) as u8;
    }
    k
}

fn buffer() -> Vec<u8> {
    (0..N).map(|i| ((i * 7 + 3) % 251) as u8).collect()
}

#[test]
fn large_file_matches_reference_and_every_split() {
    let buf = buffer();
    let key = key();

    let generic = login_integrity_check_generic(&buf, &SALT, &key);
    println!("generic            : {:?}", generic);

    // the same bytes, spread over the five arguments (every piece below 4 MiB)
    let (a, rest) = buf.split_at(1_000_000);
    let (b, rest) = rest.split_at(1_000_000);
    let (c, rest) = rest.split_at(1_000_000);
    let (d, e) = rest.split_at(1_000_000);
    let windows_even = login_integrity_check_windows(a, b, c, d, e, &SALT, &key);
    let mac_even = login_integrity_check_mac(a, b, c, d, e, &SALT, &key);
    println!("windows 5 x 1e6    : {:?}", windows_even);

    // the same bytes, everything in the first file
    let windows_first = login_integrity_check_windows(&buf, &[], &[], &[], &[], &SALT, &key);
    let mac_last = login_integrity_check_mac(&[], &[], &[], &[], &buf, &SALT, &key);
    println!("windows all in exe : {:?}", windows_first);

    assert_eq!(windows_even, EXPECTED, "windows, 5 x 1,000,000 bytes");
    assert_eq!(mac_even, EXPECTED, "mac, 5 x 1,000,000 bytes");
    assert_eq!(generic, EXPECTED, "single buffer of 5,000,000 bytes");
    assert_eq!(windows_first, EXPECTED, "windows, all bytes in WoW.exe");
    assert_eq!(mac_last, EXPECTED, "mac, all bytes in PkgInfo");
}

#[test]
fn last_byte_of_a_large_file_matters() {
    let mut buf = buffer();
    let key = key();

    let before = login_integrity_check_generic(&buf, &SALT, &key);
    let before_w = login_integrity_check_windows(&buf, &[1], &[2], &[3], &[4], &SALT, &key);
    *buf.last_mut().unwrap() ^= 0x01;
    let after = login_integrity_check_generic(&buf, &SALT, &key);
    let after_w = login_integrity_check_windows(&buf, &[1], &[2], &[3], &[4], &SALT, &key);

    assert_ne!(before, after, "patching the last byte of the buffer is not noticed");
    assert_ne!(before_w, after_w, "patching the last byte of WoW.exe is not noticed");
}
