// Demo for change 1 (property C15: card digits are freshly random, i.e. uniform over 0..9).
//
// Run with:  cargo test --offline --features matrix-card --test demo1
//
// Uses only the public API of `wow_srp::matrix_card`.
//
// 2000 cards of 255 cells x 8 digits = 4,080,000 digits are generated. For a uniform digit the
// share of digits in 0..=5 is exactly 0.6 with a standard deviation of
// sqrt(0.6*0.4/4.08e6) = 0.000243. The test accepts 0.6 +- 0.0047 (more than 19 standard
// deviations), so an unbiased library fails with probability far below 1e-9 (about 1e-80).
// `byte % 10` gives the digits 0..=5 a probability of 26/256 each and 6..=9 only 25/256, which
// moves the share to 156/256 = 0.609375, again 19 standard deviations beyond the limit.
use wow_srp::matrix_card::MatrixCard;

#[test]
fn card_digits_are_uniform() {
    const CARDS: usize = 2000;
    let mut counts = [0_u64; 10];
    let mut total = 0_u64;

    for _ in 0..CARDS {
        let card = MatrixCard::new(8, 15, 17);
        for d in card.data() {
            assert!(*d <= 9, "digit out of range: {}", d);
            counts[*d as usize] += 1;
            total += 1;
        }
    }
    assert_eq!(total, (CARDS * 8 * 15 * 17) as u64);

    let low: u64 = counts[..6].iter().sum();
    let share = low as f64 / total as f64;
    println!("digit counts: {:?}", counts);
    println!("share of digits 0..=5: {:.6} (uniform: 0.600000, byte%10: 0.609375)", share);
    assert!(
        (share - 0.6).abs() < 0.0047,
        "digits 0..=5 make up {:.6} of all card digits, expected 0.6: the digits are biased",
        share
    );
}
