// Demo for change 3 (property C16: verification returns true exactly when a hash exists and
// equals the presented one; PINs below 1000 have no hash and must never verify).
//
// Run with:  cargo test --offline --test demo3
//
// Public API only. Trigger: an invalid PIN (fewer than four digits, e.g. an account whose PIN
// column is 0 / unset) together with a presented hash of twenty zero bytes.
use wow_srp::pin::{calculate_hash, verify_client_pin_hash};

const SERVER_SALT: [u8; 16] = [
    60, 173, 61, 234, 37, 169, 6, 63, 59, 213, 23, 47, 63, 221, 103, 43,
];
const CLIENT_SALT: [u8; 16] = [
    3, 40, 23, 66, 122, 100, 117, 88, 223, 183, 228, 64, 77, 34, 48, 200,
];

#[test]
fn invalid_pin_never_verifies() {
    for pin in [0_u32, 1, 9, 10, 99, 100, 123, 999] {
        for seed in [0_u32, 1, 3_628_799, 3_628_800, 0xdead_beef, u32::MAX] {
            assert!(calculate_hash(pin, seed, &SERVER_SALT, &CLIENT_SALT).is_none());
            for presented in [[0_u8; 20], [0xff_u8; 20], [1_u8; 20]] {
                let accepted =
                    verify_client_pin_hash(pin, seed, &SERVER_SALT, &CLIENT_SALT, &presented);
                println!("pin {:4} seed {:10} presented {:02x}.. -> {}", pin, seed, presented[0], accepted);
                assert!(
                    !accepted,
                    "PIN {} has no hash but the presented hash {:?} was accepted",
                    pin, presented
                );
            }
        }
    }
}

#[test]
fn valid_pin_still_verifies_only_with_its_hash() {
    let h = calculate_hash(1234, 1, &SERVER_SALT, &CLIENT_SALT).unwrap();
    assert!(verify_client_pin_hash(1234, 1, &SERVER_SALT, &CLIENT_SALT, &h));
    assert!(!verify_client_pin_hash(1234, 1, &SERVER_SALT, &CLIENT_SALT, &[0_u8; 20]));
    assert!(!verify_client_pin_hash(1235, 1, &SERVER_SALT, &CLIENT_SALT, &h));
}
