// Demo for change 1 (C04): the client must validate its own public key relative to the modulus
// the server ANNOUNCED, not relative to the built-in one.
//
// Needs the scripted RNG: cargo test --offline --features verif-hooks --test demo1
use wow_srp::client::SrpClientChallenge;
use wow_srp::normalized_string::NormalizedString;
use wow_srp::verif_hooks;
use wow_srp::{PublicKey, LARGE_SAFE_PRIME_LITTLE_ENDIAN};

// A 256 bit prime p > N_builtin chosen such that 41^57 = q * p + N_builtin,
// i.e. 41^57 mod p == N_builtin (the built-in large safe prime, as an integer).
const ANNOUNCED_PRIME_LE: [u8; 32] = [
    0x1f, 0x51, 0xf8, 0xf1, 0x05, 0xfa, 0xb0, 0x8c, 0x51, 0x24, 0x4b, 0x1f, 0x55, 0x0c, 0xb4, 0x25,
    0x3f, 0x14, 0xba, 0xe7, 0x7b, 0x7e, 0x9a, 0x94, 0x4e, 0x55, 0xe4, 0xa3, 0xbe, 0xb7, 0x54, 0xa0,
];
const ANNOUNCED_GENERATOR: u8 = 41;

#[test]
fn client_key_equal_to_builtin_prime_is_fine_under_another_modulus() {
    // client private key a = 57
    let mut a = vec![0_u8; 32];
    a[0] = 57;

    let server_public_key = PublicKey::from_le_bytes([0x42; 32]).unwrap();

    verif_hooks::install_script(a);
    let result = std::panic::catch_unwind(|| {
        SrpClientChallenge::new(
            NormalizedString::new("ALICE").unwrap(),
            NormalizedString::new("PASSWORD123").unwrap(),
            ANNOUNCED_GENERATOR,
            ANNOUNCED_PRIME_LE,
            server_public_key,
            [7; 32],
        )
    });
    let _ = verif_hooks::finish();

    // A = 41^57 mod p is non-zero and not a multiple of p, so it is a valid key under p.
    let client = result.expect("client refused its own, perfectly valid, public key");
    assert_eq!(client.client_public_key(), &LARGE_SAFE_PRIME_LITTLE_ENDIAN);
}
