// Demo for change 4 (C14): every 32-byte client public key that passes `PublicKey::from_le_bytes`
// together with any 20-byte proof must be answered with Ok or Err by the server, never a panic.
//
// cargo test --offline --test demo4
use wow_srp::normalized_string::NormalizedString;
use wow_srp::server::SrpVerifier;
use wow_srp::PublicKey;

#[test]
fn client_that_reflects_the_servers_public_key_gets_an_orderly_answer() {
    let proof = SrpVerifier::from_username_and_password(
        NormalizedString::new("ALICE").unwrap(),
        NormalizedString::new("PASSWORD123").unwrap(),
    )
    .into_proof();

    // A hostile (or broken) client sends A = B, the key it was just given, and some proof.
    let a = PublicKey::from_le_bytes(*proof.server_public_key()).unwrap();

    let result = std::panic::catch_unwind(move || proof.into_server(a, [0x5A; 20]).is_err());

    match result {
        Ok(rejected) => assert!(rejected, "junk proof was accepted"),
        Err(_) => panic!("server panicked on peer-controlled bytes (A = B)"),
    }
}
