// Demo for change 3 (C06): the world-login proof is SHA-1(username | 0u32 | client seed |
// server seed | session key) over the username exactly as given, and a different username must
// be refused, in all three expansion modules.
//
// Needs the scripted RNG (to know the seeds): cargo test --offline --features verif-hooks --test demo3
use sha1::{Digest, Sha1};
use wow_srp::normalized_string::NormalizedString;
use wow_srp::verif_hooks;

const SESSION_KEY: [u8; 40] = [
    239, 107, 150, 237, 174, 220, 162, 4, 138, 56, 166, 166, 138, 152, 188, 146, 96, 151, 1, 201,
    202, 137, 231, 87, 203, 23, 62, 17, 7, 169, 178, 1, 51, 208, 202, 223, 26, 216, 250, 9,
];

fn reference(name: &str, client_seed: u32, server_seed: u32) -> [u8; 20] {
    Sha1::new()
        .chain_update(name.as_bytes())
        .chain_update([0_u8; 4])
        .chain_update(client_seed.to_le_bytes())
        .chain_update(server_seed.to_le_bytes())
        .chain_update(SESSION_KEY)
        .finalize()
        .into()
}

macro_rules! check {
    ($test:ident, $m:ident) => {
        #[test]
        fn $test() {
            // "BOB " (with a trailing blank) and "BOB" are two different, valid account names.
            let padded = NormalizedString::new("Bob ").unwrap();
            let plain = NormalizedString::new("Bob").unwrap();
            assert_ne!(padded, plain);

            verif_hooks::install_script(vec![0x78, 0x56, 0x34, 0x12, 0xEF, 0xBE, 0xAD, 0xDE]);
            let client_seed = wow_srp::$m::ProofSeed::new();
            let server_seed = wow_srp::$m::ProofSeed::new();
            let _ = verif_hooks::finish();
            assert_eq!(client_seed.seed(), 0x1234_5678);
            assert_eq!(server_seed.seed(), 0xDEAD_BEEF);

            // 1. the client derives the documented value
            let (proof, _) =
                client_seed.into_client_header_crypto(&padded, SESSION_KEY, server_seed.seed());
            assert_eq!(proof, reference("BOB ", 0x1234_5678, 0xDEAD_BEEF));

            // 2. the server accepts what the real game client sends for "BOB "
            assert!(server_seed
                .into_server_header_crypto(
                    &padded,
                    SESSION_KEY,
                    reference("BOB ", 0x1234_5678, 0xDEAD_BEEF),
                    0x1234_5678
                )
                .is_ok());

            // 3. a proof made for account "BOB" is not accepted for account "BOB "
            assert!(server_seed
                .into_server_header_crypto(
                    &padded,
                    SESSION_KEY,
                    reference("BOB", 0x1234_5678, 0xDEAD_BEEF),
                    0x1234_5678
                )
                .is_err());
        }
    };
}

check!(vanilla, vanilla_header);
check!(tbc, tbc_header);
check!(wrath, wrath_header);
