// Demo for change 2 (C05): every reconnect attempt, accepted or not, must replace the server
// challenge, and a proof computed from the right name, key, client challenge and the current
// server challenge must be accepted whatever the client challenge bytes are.
//
// Needs the scripted RNG: cargo test --offline --features verif-hooks --test demo2
use wow_srp::client::SrpClientChallenge;
use wow_srp::normalized_string::NormalizedString;
use wow_srp::server::{SrpServer, SrpVerifier};
use wow_srp::verif_hooks;
use wow_srp::{PublicKey, GENERATOR, LARGE_SAFE_PRIME_LITTLE_ENDIAN};

fn login() -> (SrpServer, wow_srp::client::SrpClient) {
    let name = || NormalizedString::new("ALICE").unwrap();
    let pass = || NormalizedString::new("PASSWORD123").unwrap();

    let proof = SrpVerifier::from_username_and_password(name(), pass()).into_proof();
    let client = SrpClientChallenge::new(
        name(),
        pass(),
        GENERATOR,
        LARGE_SAFE_PRIME_LITTLE_ENDIAN,
        PublicKey::from_le_bytes(*proof.server_public_key()).unwrap(),
        *proof.salt(),
    );
    let (server, m2) = proof
        .into_server(
            PublicKey::from_le_bytes(*client.client_public_key()).unwrap(),
            *client.client_proof(),
        )
        .unwrap();
    let client = client.verify_server_proof(m2).unwrap();
    (server, client)
}

#[test]
fn rejected_attempt_that_echoes_the_challenge_still_replaces_it() {
    let (mut server, _client) = login();

    let before = *server.reconnect_challenge_data();
    // Somebody who only knows the username answers with the server's own challenge and junk.
    assert!(!server.verify_reconnection_attempt(before, [0xAB; 20]));
    let after = *server.reconnect_challenge_data();

    assert_ne!(before, after, "challenge survived a reconnect attempt");
}

#[test]
fn honest_client_whose_challenge_equals_the_servers_is_accepted() {
    let (mut server, client) = login();

    let challenge = *server.reconnect_challenge_data();

    // The client's RNG happens to produce the very same 16 bytes.
    verif_hooks::install_script(challenge.to_vec());
    let r = client.calculate_reconnect_values(challenge);
    let _ = verif_hooks::finish();
    assert_eq!(r.challenge_data, challenge);

    assert!(
        server.verify_reconnection_attempt(r.challenge_data, r.proof),
        "correct proof for the current challenge was refused"
    );
    assert_ne!(challenge, *server.reconnect_challenge_data());

    // and the next ordinary reconnect works as well
    let c = *server.reconnect_challenge_data();
    let r = client.calculate_reconnect_values(c);
    assert!(server.verify_reconnection_attempt(r.challenge_data, r.proof));
}
