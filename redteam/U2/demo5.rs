// Demo for change 5 (C14): header bytes "in any order and amount" must never crash the receiver.
// A Vanilla connection that has received 2^32 header bytes (about 700 million packets, a few days
// of a busy proxy or bot connection) must keep decrypting.
//
// cargo test --offline --test demo5        (takes a minute or two in a debug build)
use wow_srp::normalized_string::NormalizedString;
use wow_srp::vanilla_header::ProofSeed;

const SESSION_KEY: [u8; 40] = [
    239, 107, 150, 237, 174, 220, 162, 4, 138, 56, 166, 166, 138, 152, 188, 146, 96, 151, 1, 201,
    202, 137, 231, 87, 203, 23, 62, 17, 7, 169, 178, 1, 51, 208, 202, 223, 26, 216, 250, 9,
];

#[test]
fn decrypter_survives_four_gibibytes_of_headers() {
    let name = NormalizedString::new("A").unwrap();

    let client_seed = ProofSeed::new();
    let server_seed = ProofSeed::new();
    let (proof, _client) =
        client_seed.into_client_header_crypto(&name, SESSION_KEY, server_seed.seed());
    let mut server = server_seed
        .into_server_header_crypto(&name, SESSION_KEY, proof, client_seed.seed())
        .unwrap();

    let result = std::panic::catch_unwind(move || {
        const CHUNK: usize = 1 << 24;
        let mut buf = vec![0_u8; CHUNK];
        // 2^32 bytes ...
        for _ in 0..(1_u64 << 32) / CHUNK as u64 {
            server.decrypt(&mut buf);
        }
        // ... and one more ordinary client header
        let header = server.decrypt_client_header([1, 2, 3, 4, 5, 6]);
        header.size
    });

    assert!(
        result.is_ok(),
        "receiver panicked on peer-controlled header bytes"
    );
}
