#!/bin/sh
# usage: ./replay.sh <replay-file.json>
# Re-runs the check that produced the artefact twice and requires that the recorded violation
# signature re-appears both times (a failure must be deterministic: no randomness is used by any
# check, see DESIGN.md 2.4). Prints the recorded concrete inputs. Exit 1 = reproduced both times,
# 0 = no longer reproduces, 2 = machinery problem / non-deterministic reproduction.
set -u
F=${1:?replay file}
[ -f "$F" ] || { echo "no such file: $F"; exit 2; }
PID=$(python3 -c "import json,sys; print(json.load(open(sys.argv[1]))['property'])" "$F") || exit 2
SIG=$(python3 -c "import json,sys; print(json.load(open(sys.argv[1]))['signature'])" "$F") || exit 2
echo "property:  $PID"
echo "signature: $SIG"
python3 -c "import json,sys; d=json.load(open(sys.argv[1])); print('inputs:   ', json.dumps(d['replay'])[:2000]); print('observed: ', json.dumps(d['detail'])[:2000])" "$F"
cd /verif || exit 2
sh tools/build.sh default || exit 2
# per-case replay without the explorer where the scenario kind has one (exit 3 = it has none)
/verif/.build/default/release/vpcheck replay "$F"; rc=$?
if [ $rc != 3 ]; then exit $rc; fi
echo "(no per-case replayer for this scenario kind: re-running the whole check twice)"
n=0
for i in 1 2; do
  out=$(./check.sh "$PID" "${VERIF_TIER:-quick}" 2>&1)
  if printf '%s\n' "$out" | grep -F -q "signature: $SIG"; then n=$((n+1)); fi
done
case $n in
  2) echo "REPRODUCED twice: $SIG"; exit 1 ;;
  0) echo "not reproduced on the current tree"; exit 0 ;;
  *) echo "MACHINERY-ERROR: reproduced once out of two runs - nondeterminism"; exit 2 ;;
esac
